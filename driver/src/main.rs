// E0 - fact exporter. A rustc_private driver injected with RUSTC_WORKSPACE_WRAPPER under
// `cargo +nightly check`. For the crate named in SCV_CRATE (default "smartcalc") it writes one
// JSON-lines fact base (SCV_OUT) after analysis: ADTs, evaluated consts, impls, every MIR body
// (incl. promoteds) at the MIR opt level given by RUSTFLAGS, and the external callees seen.
// It decides nothing; all rules live in /verif/scv.
#![feature(rustc_private)]
#![allow(deprecated)]
extern crate rustc_abi;
extern crate rustc_driver;
extern crate rustc_hir;
extern crate rustc_interface;
extern crate rustc_middle;
extern crate rustc_span;

use rustc_driver::Compilation;
use rustc_hir::def::DefKind;
use rustc_interface::interface::Compiler;
use rustc_middle::mir::{self, AggregateKind, Operand, Place, ProjectionElem, Rvalue, StatementKind, TerminatorKind};
use rustc_middle::ty::{self, Instance, Ty, TyCtxt, TypingEnv};
use rustc_span::def_id::{DefId, LOCAL_CRATE};
use std::collections::BTreeMap;
use std::fmt::Write as FW;
use std::io::Write;

fn esc(s: &str) -> String {
    let mut o = String::with_capacity(s.len() + 2);
    for c in s.chars() {
        match c {
            '\\' => o.push_str("\\\\"),
            '"' => o.push_str("\\\""),
            '\n' => o.push_str("\\n"),
            '\t' => o.push_str("\\t"),
            '\r' => o.push_str("\\r"),
            c if (c as u32) < 0x20 => {
                write!(o, "\\u{:04x}", c as u32).unwrap();
            }
            c => o.push(c),
        }
    }
    o
}
fn q(s: &str) -> String {
    format!("\"{}\"", esc(s))
}
fn loc<'tcx>(tcx: TyCtxt<'tcx>, sp: rustc_span::Span) -> String {
    let sm = tcx.sess.source_map();
    let l = sm.lookup_char_pos(sp.lo());
    format!("{}:{}:{}", l.file.name.prefer_local_unconditionally(), l.line, l.col.0 + 1)
}
fn loc_end<'tcx>(tcx: TyCtxt<'tcx>, sp: rustc_span::Span) -> usize {
    tcx.sess.source_map().lookup_char_pos(sp.hi()).line
}

struct Cx<'tcx> {
    tcx: TyCtxt<'tcx>,
    externs: BTreeMap<String, String>,
}

impl<'tcx> Cx<'tcx> {
    fn place(&self, body: &mir::Body<'tcx>, p: &Place<'tcx>) -> String {
        let tcx = self.tcx;
        let mut proj = vec![];
        let mut t = mir::PlaceTy::from_ty(body.local_decls[p.local].ty);
        for e in p.projection.iter() {
            let s = match e {
                ProjectionElem::Deref => "\"deref\"".to_string(),
                ProjectionElem::Field(f, _) => {
                    let name = match t.ty.kind() {
                        ty::Adt(adt, _) => {
                            let v = match t.variant_index {
                                Some(vi) => adt.variant(vi),
                                None => {
                                    if adt.is_enum() {
                                        adt.variant(rustc_abi::VariantIdx::from_u32(0))
                                    } else {
                                        adt.non_enum_variant()
                                    }
                                }
                            };
                            format!("{}.{}", tcx.def_path_str(adt.did()), v.fields[f].name)
                        }
                        _ => format!("#{}", f.index()),
                    };
                    format!("{{\"field\":{}}}", q(&name))
                }
                ProjectionElem::Index(l) => format!("{{\"index\":{}}}", l.index()),
                ProjectionElem::Downcast(n, vi) => {
                    format!("{{\"downcast\":{}}}", q(&n.map(|s| s.to_string()).unwrap_or(format!("{}", vi.index()))))
                }
                ProjectionElem::ConstantIndex { offset, from_end, .. } => format!("{{\"cidx\":{},\"from_end\":{}}}", offset, from_end),
                ProjectionElem::Subslice { from, to, from_end } => format!("{{\"subslice\":[{},{}],\"from_end\":{}}}", from, to, from_end),
                _ => "\"other\"".to_string(),
            };
            proj.push(s);
            t = t.projection_ty(tcx, e);
        }
        format!("{{\"local\":{},\"proj\":[{}],\"ty\":{}}}", p.local.index(), proj.join(","), q(&format!("{}", t.ty)))
    }

    fn callee(&mut self, env: TypingEnv<'tcx>, t: Ty<'tcx>) -> Option<String> {
        let tcx = self.tcx;
        if let ty::FnDef(cdid, gargs) = t.kind() {
            let res = Instance::try_resolve(tcx, env, *cdid, gargs).ok().flatten();
            let rdid = res.map(|i| i.def_id()).unwrap_or(*cdid);
            let resolved = res.is_some() && !matches!(res.unwrap().def, ty::InstanceKind::Virtual(..));
            let is_virtual = res.map(|i| matches!(i.def, ty::InstanceKind::Virtual(..))).unwrap_or(false);
            // a closure called directly (`f(x)` with `f` a closure value) resolves to the closure body, which has no fn_sig
            let sig_did = if tcx.is_closure_like(rdid) { *cdid } else { rdid };
            let diverges = tcx.fn_sig(sig_did).skip_binder().output().skip_binder().is_never();
            let path = tcx.def_path_str(rdid);
            let path_inst = tcx.def_path_str_with_args(*cdid, gargs);
            if !rdid.is_local() {
                self.note_extern(rdid, &path, diverges);
            }
            let gen: Vec<String> = gargs.iter().map(|g| q(&format!("{}", g))).collect();
            let trait_of = tcx.trait_of_assoc(*cdid).map(|d| q(&tcx.def_path_str(d))).unwrap_or("null".into());
            Some(format!(
                "{{\"path\":{},\"decl\":{},\"inst\":{},\"gen\":[{}],\"local\":{},\"diverges\":{},\"resolved\":{},\"virtual\":{},\"trait\":{}}}",
                q(&path),
                q(&tcx.def_path_str(*cdid)),
                q(&path_inst),
                gen.join(","),
                rdid.is_local(),
                diverges,
                resolved,
                is_virtual,
                trait_of
            ))
        } else {
            None
        }
    }

    fn note_extern(&mut self, did: DefId, path: &str, diverges: bool) {
        if self.externs.contains_key(path) {
            return;
        }
        let tcx = self.tcx;
        let mut doc_panic = false;
        let mut deprecated = false;
        for attr in tcx.get_all_attrs(did) {
            if let Some(d) = attr.doc_str() {
                let s = d.as_str().to_lowercase();
                if s.contains("panic") {
                    doc_panic = true;
                }
            }
        }
        if tcx.lookup_deprecation(did).is_some() {
            deprecated = true;
        }
        let sig = format!("{:?}", tcx.fn_sig(did).skip_binder().skip_binder());
        let krate = tcx.crate_name(did.krate).to_string();
        self.externs.insert(
            path.to_string(),
            format!(
                "{{\"rec\":\"extern\",\"path\":{},\"crate\":{},\"sig\":{},\"diverges\":{},\"doc_panic\":{},\"deprecated\":{}}}",
                q(path),
                q(&krate),
                q(&sig),
                diverges,
                doc_panic,
                deprecated
            ),
        );
    }

    fn constant(&mut self, env: TypingEnv<'tcx>, c: &mir::ConstOperand<'tcx>) -> String {
        let tcx = self.tcx;
        let ty = c.const_.ty();
        let mut val = String::from("null");
        let mut extra = String::new();
        if let Some(si) = c.const_.try_eval_scalar_int(tcx, env) {
            let bits = si.to_bits(si.size());
            val = match ty.kind() {
                ty::Int(_) => format!("{}", si.to_int(si.size())),
                ty::Uint(_) => format!("{}", bits),
                ty::Bool => format!("{}", bits != 0),
                ty::Char => q(&char::from_u32(bits as u32).map(|c| c.to_string()).unwrap_or_default()),
                ty::Float(ty::FloatTy::F64) => {
                    let f = f64::from_bits(bits as u64);
                    if f.is_finite() {
                        format!("{:?}", f)
                    } else {
                        q(&format!("{:?}", f))
                    }
                }
                ty::Float(ty::FloatTy::F32) => {
                    let f = f32::from_bits(bits as u32);
                    if f.is_finite() {
                        format!("{:?}", f)
                    } else {
                        q(&format!("{:?}", f))
                    }
                }
                _ => format!("{}", bits),
            };
        } else if let ty::Ref(_, inner, _) = ty.kind() {
            if inner.is_str() {
                let cv = match c.const_ {
                    mir::Const::Val(cv, _) => Some(cv),
                    _ => c.const_.eval(tcx, env, c.span).ok(),
                };
                if let Some(cv) = cv {
                    if let Some(bytes) = cv.try_get_slice_bytes_for_diagnostics(tcx) {
                        if let Ok(s) = std::str::from_utf8(bytes) {
                            extra = format!(",\"str\":{}", q(s));
                        }
                    }
                }
            }
        }
        if let ty::FnDef(..) = ty.kind() {
            if let Some(cj) = self.callee(env, ty) {
                extra.push_str(&format!(",\"fn\":{}", cj));
            }
        }
        let text = format!("{}", c);
        let text: String = if text.len() > 400 { text.chars().take(400).collect() } else { text };
        format!("{{\"const\":{{\"ty\":{},\"val\":{},\"text\":{}{}}}}}", q(&format!("{}", ty)), val, q(&text), extra)
    }

    fn operand(&mut self, env: TypingEnv<'tcx>, body: &mir::Body<'tcx>, o: &Operand<'tcx>) -> String {
        match o {
            Operand::Copy(p) => format!("{{\"copy\":{}}}", self.place(body, p)),
            Operand::Move(p) => format!("{{\"move\":{}}}", self.place(body, p)),
            Operand::Constant(c) => self.constant(env, c),
            _ => "{\"other\":1}".to_string(),
        }
    }

    fn body(&mut self, f: &mut dyn Write, path: &str, kind: &str, did: DefId, body: &mir::Body<'tcx>, extra: &str) {
        let tcx = self.tcx;
        let env = TypingEnv::post_analysis(tcx, did);
        let mut locals = vec![];
        for (l, d) in body.local_decls.iter_enumerated() {
            locals.push(format!("{{\"id\":{},\"ty\":{}}}", l.index(), q(&format!("{}", d.ty))));
        }
        let mut dbg = vec![];
        for v in body.var_debug_info.iter() {
            if let mir::VarDebugInfoContents::Place(p) = &v.value {
                dbg.push(format!("{{\"name\":{},\"place\":{}}}", q(v.name.as_str()), self.place(body, p)));
            }
        }
        let mut blocks = vec![];
        for (bbi, bb) in body.basic_blocks.iter_enumerated() {
            let mut stmts = vec![];
            for st in bb.statements.iter() {
                match &st.kind {
                    StatementKind::Assign(b) => {
                        let (lhs, rv) = &**b;
                        let (kind, ops, extra): (&str, Vec<String>, String) = match rv {
                            Rvalue::Use(o, _) => ("use", vec![self.operand(env, body, o)], String::new()),
                            Rvalue::Ref(_, bk, p) => (
                                "ref",
                                vec![format!("{{\"copy\":{}}}", self.place(body, p))],
                                format!(",\"mut\":{}", matches!(bk, mir::BorrowKind::Mut { .. })),
                            ),
                            Rvalue::RawPtr(_, p) => ("rawptr", vec![format!("{{\"copy\":{}}}", self.place(body, p))], String::new()),
                            Rvalue::CopyForDeref(p) => ("use", vec![format!("{{\"copy\":{}}}", self.place(body, p))], String::new()),
                            Rvalue::BinaryOp(op, b2) => {
                                let (a, c) = &**b2;
                                ("binop", vec![self.operand(env, body, a), self.operand(env, body, c)], format!(",\"op\":{}", q(&format!("{:?}", op))))
                            }
                            Rvalue::UnaryOp(op, a) => ("unop", vec![self.operand(env, body, a)], format!(",\"op\":{}", q(&format!("{:?}", op)))),
                            Rvalue::Cast(k, o, t) => {
                                let reify = match o {
                                    Operand::Constant(c) => self.callee(env, c.const_.ty()).unwrap_or("null".into()),
                                    _ => "null".into(),
                                };
                                (
                                    "cast",
                                    vec![self.operand(env, body, o)],
                                    format!(",\"cast\":{},\"to\":{},\"from\":{},\"reify\":{}", q(&format!("{:?}", k)), q(&format!("{}", t)), q(&format!("{}", o.ty(body, tcx))), reify),
                                )
                            }
                            Rvalue::Discriminant(p) => ("discr", vec![format!("{{\"copy\":{}}}", self.place(body, p))], String::new()),
                            Rvalue::Repeat(o, n) => ("repeat", vec![self.operand(env, body, o)], format!(",\"text\":{}", q(&format!("{:?}", n)))),
                            Rvalue::Aggregate(ak, fields) => {
                                let (an, names) = match &**ak {
                                    AggregateKind::Adt(d, vi, _, _, _) => {
                                        let adt = tcx.adt_def(*d);
                                        let v = adt.variant(*vi);
                                        let names: Vec<String> = v.fields.iter().map(|f| q(f.name.as_str())).collect();
                                        (format!("{}::{}", tcx.def_path_str(*d), v.name), names)
                                    }
                                    AggregateKind::Tuple => ("tuple".into(), vec![]),
                                    AggregateKind::Closure(d, _) => (format!("closure:{}", tcx.def_path_str(*d)), vec![]),
                                    AggregateKind::Array(_) => ("array".into(), vec![]),
                                    _ => ("other".into(), vec![]),
                                };
                                let mut ops = vec![];
                                for o in fields.iter() {
                                    ops.push(self.operand(env, body, o));
                                }
                                ("aggr", ops, format!(",\"adt\":{},\"fields\":[{}]", q(&an), names.join(",")))
                            }
                            _ => ("other", vec![], format!(",\"text\":{}", q(&format!("{:?}", rv)))),
                        };
                        stmts.push(format!(
                            "{{\"k\":\"assign\",\"lhs\":{},\"rv\":{},\"ops\":[{}]{},\"loc\":{},\"exp\":{}}}",
                            self.place(body, lhs),
                            q(kind),
                            ops.join(","),
                            extra,
                            q(&loc(tcx, st.source_info.span)),
                            st.source_info.span.from_expansion()
                        ));
                    }
                    StatementKind::StorageLive(l) => stmts.push(format!("{{\"k\":\"live\",\"local\":{}}}", l.index())),
                    StatementKind::StorageDead(l) => stmts.push(format!("{{\"k\":\"dead\",\"local\":{}}}", l.index())),
                    StatementKind::SetDiscriminant { place, variant_index } => {
                        stmts.push(format!("{{\"k\":\"setdiscr\",\"lhs\":{},\"variant\":{},\"loc\":{}}}", self.place(body, place), variant_index.index(), q(&loc(tcx, st.source_info.span))))
                    }
                    _ => {}
                }
            }
            let term = bb.terminator();
            let t = match &term.kind {
                TerminatorKind::Call { func, args, destination, target, unwind, .. } => {
                    let cj = match func {
                        Operand::Constant(c) => self.callee(env, c.const_.ty()).unwrap_or("null".into()),
                        _ => "null".into(),
                    };
                    let fop = match func {
                        Operand::Constant(_) => "null".to_string(),
                        o => self.operand(env, body, o),
                    };
                    let mut a = vec![];
                    for x in args.iter() {
                        a.push(self.operand(env, body, &x.node));
                    }
                    let uw = match unwind {
                        mir::UnwindAction::Cleanup(b) => b.index() as i64,
                        _ => -1,
                    };
                    format!(
                        "{{\"k\":\"call\",\"callee\":{},\"fop\":{},\"fty\":{},\"args\":[{}],\"dest\":{},\"target\":{},\"unwind\":{}",
                        cj,
                        fop,
                        q(&format!("{}", func.ty(body, tcx))),
                        a.join(","),
                        self.place(body, destination),
                        target.map(|t| t.index() as i64).unwrap_or(-1),
                        uw
                    )
                }
                TerminatorKind::SwitchInt { discr, targets } => {
                    let vals: Vec<String> = targets.iter().map(|(v, t)| format!("[{},{}]", v, t.index())).collect();
                    format!("{{\"k\":\"switch\",\"discr\":{},\"vals\":[{}],\"otherwise\":{}", self.operand(env, body, discr), vals.join(","), targets.otherwise().index())
                }
                TerminatorKind::Assert { cond, expected, msg, target, .. } => {
                    let ops: Vec<String> = match &**msg {
                        mir::AssertKind::Overflow(_, a, b) => vec![self.operand(env, body, a), self.operand(env, body, b)],
                        mir::AssertKind::DivisionByZero(a) | mir::AssertKind::RemainderByZero(a) | mir::AssertKind::OverflowNeg(a) => vec![self.operand(env, body, a)],
                        mir::AssertKind::BoundsCheck { len, index } => vec![self.operand(env, body, len), self.operand(env, body, index)],
                        _ => vec![],
                    };
                    let kind = format!("{:?}", msg);
                    let kind = kind.split('(').next().unwrap().split(' ').next().unwrap().to_string();
                    let bop = if let mir::AssertKind::Overflow(op, ..) = &**msg { format!("{:?}", op) } else { String::new() };
                    format!(
                        "{{\"k\":\"assert\",\"cond\":{},\"expected\":{},\"akind\":{},\"bop\":{},\"ops\":[{}],\"target\":{}",
                        self.operand(env, body, cond),
                        expected,
                        q(&kind),
                        q(&bop),
                        ops.join(","),
                        target.index()
                    )
                }
                TerminatorKind::Goto { target } => format!("{{\"k\":\"goto\",\"target\":{}", target.index()),
                TerminatorKind::Return => "{\"k\":\"return\"".to_string(),
                TerminatorKind::Drop { place, target, unwind, .. } => {
                    let uw = match unwind {
                        mir::UnwindAction::Cleanup(b) => b.index() as i64,
                        _ => -1,
                    };
                    format!("{{\"k\":\"drop\",\"place\":{},\"target\":{},\"unwind\":{}", self.place(body, place), target.index(), uw)
                }
                TerminatorKind::Unreachable => "{\"k\":\"unreachable\"".to_string(),
                TerminatorKind::UnwindResume => "{\"k\":\"resume\"".to_string(),
                TerminatorKind::FalseEdge { real_target, .. } => format!("{{\"k\":\"goto\",\"target\":{}", real_target.index()),
                TerminatorKind::FalseUnwind { real_target, .. } => format!("{{\"k\":\"goto\",\"target\":{}", real_target.index()),
                other => format!("{{\"k\":\"other\",\"text\":{}", q(&format!("{:?}", other).chars().take(120).collect::<String>())),
            };
            blocks.push(format!(
                "{{\"id\":{},\"cleanup\":{},\"stmts\":[{}],\"term\":{},\"loc\":{},\"exp\":{}}}}}",
                bbi.index(),
                bb.is_cleanup,
                stmts.join(","),
                t,
                q(&loc(tcx, term.source_info.span)),
                term.source_info.span.from_expansion()
            ));
        }
        writeln!(
            f,
            "{{\"rec\":\"body\",\"path\":{},\"kind\":{},\"loc\":{},\"end_line\":{},\"argc\":{}{},\"locals\":[{}],\"debug\":[{}],\"blocks\":[{}]}}",
            q(path),
            q(kind),
            q(&loc(tcx, body.span)),
            loc_end(tcx, body.span),
            body.arg_count,
            extra,
            locals.join(","),
            dbg.join(","),
            blocks.join(",")
        )
        .unwrap();
    }
}

struct Cb;
impl rustc_driver::Callbacks for Cb {
    fn after_analysis<'tcx>(&mut self, _c: &Compiler, tcx: TyCtxt<'tcx>) -> Compilation {
        let want = std::env::var("SCV_CRATE").unwrap_or("smartcalc".into());
        if tcx.crate_name(LOCAL_CRATE).as_str() != want {
            return Compilation::Continue;
        }
        let out = match std::env::var("SCV_OUT") {
            Ok(o) => o,
            Err(_) => return Compilation::Continue,
        };
        let tmp = format!("{}.tmp", out);
        let mut f = std::io::BufWriter::new(std::fs::File::create(&tmp).unwrap());
        writeln!(
            f,
            "{{\"rec\":\"meta\",\"crate\":{},\"debug_assertions\":{},\"overflow_checks\":{},\"mir_opt_level\":{}}}",
            q(&want),
            tcx.sess.opts.debug_assertions,
            tcx.sess.overflow_checks(),
            tcx.sess.mir_opt_level()
        )
        .unwrap();
        let mut cx = Cx { tcx, externs: BTreeMap::new() };
        // ADTs, consts, statics, impls
        for ldid in tcx.hir_crate_items(()).definitions() {
            let did = ldid.to_def_id();
            match tcx.def_kind(did) {
                DefKind::Struct | DefKind::Enum | DefKind::Union => {
                    let adt = tcx.adt_def(did);
                    let mut vs = vec![];
                    for (vi, v) in adt.variants().iter_enumerated() {
                        let fields: Vec<String> = v
                            .fields
                            .iter()
                            .map(|fd| format!("{{\"name\":{},\"ty\":{}}}", q(fd.name.as_str()), q(&format!("{}", tcx.type_of(fd.did).instantiate_identity().skip_norm_wip()))))
                            .collect();
                        let discr = if adt.is_enum() { format!("{}", adt.discriminant_for_variant(tcx, vi).val) } else { "0".into() };
                        vs.push(format!("{{\"name\":{},\"discr\":{},\"fields\":[{}]}}", q(v.name.as_str()), discr, fields.join(",")));
                    }
                    let kind = if adt.is_enum() { "enum" } else if adt.is_union() { "union" } else { "struct" };
                    writeln!(f, "{{\"rec\":\"adt\",\"path\":{},\"kind\":{},\"loc\":{},\"variants\":[{}]}}", q(&tcx.def_path_str(did)), q(kind), q(&loc(tcx, tcx.def_span(did))), vs.join(",")).unwrap();
                }
                DefKind::Const { .. } => {
                    let ty = tcx.type_of(did).instantiate_identity().skip_norm_wip();
                    let mut val = "null".to_string();
                    if tcx.generics_of(did).is_empty() {
                        if let Ok(cv) = tcx.const_eval_poly(did) {
                            if let Some(si) = cv.try_to_scalar_int() {
                                let bits = si.to_bits(si.size());
                                val = match ty.kind() {
                                    ty::Int(_) => format!("{}", si.to_int(si.size())),
                                    ty::Uint(_) => format!("{}", bits),
                                    ty::Bool => format!("{}", bits != 0),
                                    ty::Float(ty::FloatTy::F64) => format!("{:?}", f64::from_bits(bits as u64)),
                                    _ => format!("{}", bits),
                                };
                            } else if let ty::Ref(_, inner, _) = ty.kind() {
                                if inner.is_str() {
                                    if let Some(bytes) = cv.try_get_slice_bytes_for_diagnostics(tcx) {
                                        if let Ok(s) = std::str::from_utf8(bytes) {
                                            val = q(s);
                                        }
                                    }
                                }
                            }
                        }
                    }
                    writeln!(f, "{{\"rec\":\"const\",\"path\":{},\"ty\":{},\"val\":{},\"loc\":{}}}", q(&tcx.def_path_str(did)), q(&format!("{}", ty)), val, q(&loc(tcx, tcx.def_span(did)))).unwrap();
                }
                DefKind::Static { mutability, .. } => {
                    let ty = tcx.type_of(did).instantiate_identity().skip_norm_wip();
                    writeln!(
                        f,
                        "{{\"rec\":\"static\",\"path\":{},\"ty\":{},\"mutable\":{},\"loc\":{}}}",
                        q(&tcx.def_path_str(did)),
                        q(&format!("{}", ty)),
                        matches!(mutability, rustc_hir::Mutability::Mut),
                        q(&loc(tcx, tcx.def_span(did)))
                    )
                    .unwrap();
                }
                DefKind::Impl { .. } => {
                    let tr = tcx.impl_opt_trait_ref(did).map(|t| q(&tcx.def_path_str(t.skip_binder().def_id))).unwrap_or("null".into());
                    let self_ty = tcx.type_of(did).instantiate_identity().skip_norm_wip();
                    let mut ms = vec![];
                    for item in tcx.associated_items(did).in_definition_order() {
                        if item.is_fn() {
                            ms.push(format!("{{\"name\":{},\"path\":{}}}", q(item.name().as_str()), q(&tcx.def_path_str(item.def_id))));
                        }
                    }
                    writeln!(f, "{{\"rec\":\"impl\",\"trait\":{},\"self_ty\":{},\"loc\":{},\"methods\":[{}]}}", tr, q(&format!("{}", self_ty)), q(&loc(tcx, tcx.def_span(did))), ms.join(",")).unwrap();
                }
                _ => {}
            }
        }
        for ldid in tcx.hir_body_owners() {
            let did = ldid.to_def_id();
            let dk = tcx.def_kind(did);
            let kind = match dk {
                DefKind::Fn => "fn",
                DefKind::AssocFn => "method",
                DefKind::Closure => "closure",
                DefKind::Const { .. } | DefKind::AssocConst { .. } => {
                    // the initialiser of a non-generic constant item (a literal table): exported as a body of kind "const"
                    if tcx.generics_of(did).count() == 0 {
                        let path = tcx.def_path_str(did);
                        let body = tcx.mir_for_ctfe(did);
                        cx.body(&mut f, &path, "const", did, body, "");
                        // nested slices of a literal table are promoted constants of the item
                        let promoted = tcx.promoted_mir(did);
                        for (pi, pb) in promoted.iter_enumerated() {
                            let ppath = format!("{}::{{promoted#{}}}", path, pi.index());
                            let pextra = format!(",\"promoted_of\":{},\"promoted_index\":{}", q(&path), pi.index());
                            cx.body(&mut f, &ppath, "promoted", did, pb, &pextra);
                        }
                    }
                    continue;
                }
                DefKind::Static { mutability, nested, .. } => {
                    // the initialiser of an immutable static (a literal table kept in a `static`): a body of kind "static"
                    if mutability.is_not() && !nested {
                        let path = tcx.def_path_str(did);
                        let body = tcx.mir_for_ctfe(did);
                        cx.body(&mut f, &path, "static", did, body, "");
                        let promoted = tcx.promoted_mir(did);
                        for (pi, pb) in promoted.iter_enumerated() {
                            let ppath = format!("{}::{{promoted#{}}}", path, pi.index());
                            let pextra = format!(",\"promoted_of\":{},\"promoted_index\":{}", q(&path), pi.index());
                            cx.body(&mut f, &ppath, "promoted", did, pb, &pextra);
                        }
                    }
                    continue;
                }
                _ => continue,
            };
            let path = tcx.def_path_str(did);
            let mut extra = String::new();
            if matches!(dk, DefKind::Fn | DefKind::AssocFn) {
                extra.push_str(&format!(",\"pub\":{}", tcx.visibility(did).is_public()));
                let gens: Vec<String> = tcx.generics_of(did).own_params.iter().map(|p| q(p.name.as_str())).collect();
                extra.push_str(&format!(",\"generics\":[{}]", gens.join(",")));
            }
            if let DefKind::AssocFn = dk {
                let parent = tcx.parent(did);
                if let DefKind::Impl { .. } = tcx.def_kind(parent) {
                    let tr = tcx.impl_opt_trait_ref(parent).map(|t| q(&tcx.def_path_str(t.skip_binder().def_id))).unwrap_or("null".into());
                    let self_ty = tcx.type_of(parent).instantiate_identity().skip_norm_wip();
                    extra.push_str(&format!(",\"impl_trait\":{},\"impl_self\":{}", tr, q(&format!("{}", self_ty))));
                } else if let DefKind::Trait = tcx.def_kind(parent) {
                    extra.push_str(&format!(",\"trait_default\":{}", q(&tcx.def_path_str(parent))));
                }
                extra.push_str(&format!(",\"name\":{}", q(tcx.item_name(did).as_str())));
            }
            if let DefKind::Closure = dk {
                extra.push_str(&format!(",\"parent\":{}", q(&tcx.def_path_str(tcx.typeck_root_def_id(did)))));
            }
            let body = tcx.optimized_mir(did);
            cx.body(&mut f, &path, kind, did, body, &extra);
            let promoted = tcx.promoted_mir(did);
            for (pi, pb) in promoted.iter_enumerated() {
                let ppath = format!("{}::{{promoted#{}}}", path, pi.index());
                let pextra = format!(",\"promoted_of\":{},\"promoted_index\":{}", q(&path), pi.index());
                cx.body(&mut f, &ppath, "promoted", did, pb, &pextra);
            }
        }
        for (_, e) in cx.externs.iter() {
            writeln!(f, "{}", e).unwrap();
        }
        writeln!(f, "{{\"rec\":\"end\"}}").unwrap();
        drop(f);
        std::fs::rename(&tmp, &out).unwrap();
        Compilation::Continue
    }
}

fn main() {
    let mut args: Vec<String> = std::env::args().collect();
    // RUSTC_WORKSPACE_WRAPPER passes the real rustc path as argv[1]
    args.remove(1);
    rustc_driver::run_compiler(&args, &mut Cb);
}
