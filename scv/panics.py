"""E2 - panic obligations: every construct in a body that can unwind, and the discharge vocabulary
(DESIGN.md section 4). Used by C01 (all evaluation-reachable bodies), C09 (chrono constructors),
C18 (user-data driven sites)."""
import re

from .facts import render, strip, walk, fn_key, AnchorLost, alternatives, cond_str, opplace, short
from .interval import interval, INT_RANGE, type_of
from .data import mandatory_groups, all_groups, enumerate_language, alphabet
from . import model

# ------------------------------------------------------------------------------------------------
# external callee classification (frozen; discovery used rustdoc "panic" mentions and chrono's deprecation notes)
TOTAL = 'total'
CAP = 'capacity-only'
PANICKING = [
    # (regex on resolved path, kind)
    (r'^core::option::Option::<.*>::(unwrap|expect)$', 'unwrap-option'),
    (r'^core::result::Result::<.*>::(unwrap|expect|unwrap_err|expect_err)$', 'unwrap-result'),
    (r'^chrono::offset::LocalResult::<.*>::unwrap$|^chrono::LocalResult::<.*>::unwrap$', 'unwrap-localresult'),
    (r'core::ops::Index<.*>>::index$|core::ops::IndexMut<.*>>::index_mut$|core::ops::index::Index<.*>>::index$', 'index'),
    (r'^alloc::vec::Vec::<.*>::(insert|remove|drain|swap_remove|split_off|truncate_front)$', 'vec-position'),
    (r'^core::cell::RefCell::<.*>::(borrow|borrow_mut)$', 'refcell'),
    (r'^core::num::<impl [iu]\w+>::pow$', 'int-pow'),
    (r'^core::num::<impl i\w+>::abs$', 'int-abs'),
    (r'^core::num::<impl [iu]\w+>::from_str_radix$', 'radix-arg'),
    (r'^chrono::(naive::date::)?NaiveDate::from_ymd$', 'chrono-from_ymd'),
    (r'^chrono::(naive::time::)?NaiveTime::from_hms$', 'chrono-from_hms'),
    (r'^chrono::(naive::time::)?NaiveTime::from_num_seconds_from_midnight$', 'chrono-from_nsfm'),
    (r'^chrono::(naive::datetime::)?NaiveDateTime::from_timestamp$', 'chrono-from_timestamp'),
    (r'^chrono::(naive::date::)?NaiveDate::and_hms$|^chrono::(date::)?Date::<.*>::and_hms$', 'chrono-and_hms'),
    (r'^chrono::(offset::)?TimeZone::ymd$', 'chrono-tz-ymd'),
    (r'^chrono::(offset::fixed::)?FixedOffset::(east|west)$', 'chrono-east'),
    (r'^chrono::(time_delta::)?TimeDelta::(days|weeks|hours|minutes|seconds|milliseconds)$', 'chrono-delta-ctor'),
    (r'^<chrono::(naive::\w+::)?(NaiveDate|NaiveDateTime|NaiveTime) as core::ops::(Add|Sub)<chrono::(time_delta::)?TimeDelta>>::(add|sub)$|'
     r'^<chrono::DateTime<.*> as core::ops::(Add|Sub)<chrono::(time_delta::)?TimeDelta>>::(add|sub)$', 'chrono-date-arith'),
    (r'^<chrono::(time_delta::)?TimeDelta as core::ops::(Add|Sub)>::(add|sub)$', 'chrono-delta-arith'),
    (r'^chrono::(datetime::)?DateTime::<.*>::(naive_local|date)$', 'chrono-naive_local'),
    (r'^chrono::(offset::)?TimeZone::(from_utc_date|from_utc_datetime)$', 'chrono-from_utc'),
    (r'^alloc::slice::<impl \[T\]>::(sort_by|sort_by_key|sort|sort_unstable|sort_unstable_by|sort_unstable_by_key|sort_by_cached_key)$', 'sort-by'),
    (r'^alloc::string::ToString::to_string$|^<T as alloc::string::ToString>::to_string$', 'to-string'),
]
# documented as panicking only on capacity overflow / allocation failure (declared assumption, not obligations)
CAPACITY_ONLY = re.compile(r'^alloc::(vec::Vec|string::String)::<?.*>?::(push|push_str|with_capacity|extend|reserve|insert_str)$|^alloc::string::String::(push|push_str|with_capacity|reserve|reserve_exact|extend)$|'
                           r'^core::iter::(traits::iterator::)?Iterator::(enumerate|sum|count|skip|map|collect|nth|cloned|step_by)$|^alloc::str::<impl str>::(replace|to_lowercase|to_uppercase|repeat)$|'
                           r'^alloc::vec::Vec::<.*>::(push|with_capacity|extend_from_slice|to_vec)$|^alloc::fmt::format$|^alloc::slice::<impl \[T\]>::to_vec$')

# callees whose rustdoc mentions panicking only in an example, for arithmetic overflow of a collection index / length
# (bounded by isize::MAX) or for a re-entrancy condition excluded elsewhere; one reason per alternative
DOC_PANIC_BENIGN = re.compile(
    r'chrono::Datelike>::(day|month|year)$'                      # doc examples use unwrap(); the accessor itself is total
    r'|core::iter::Enumerate<.*> as core::iter::Iterator>::next$'   # index overflow only after usize::MAX items
    r'|core::iter::(traits::iterator::)?Iterator::(enumerate|sum|position|rposition|count|last|nth|skip|take|step_by|zip|chain|rev|max|min|max_by_key|min_by_key)$|Iterator>::(position|rposition|count|nth)$' # adaptors / searches: documented panics are index overflow beyond usize::MAX items only
    r'|^regex::(regex::string::)?Regex::(captures|captures_iter|find|find_iter|is_match)$'  # panics only on internal bugs (documented as such)
    r'|_serde::de::MapAccess::next_value$'                       # configuration loading, not evaluation
    r'|core::cell::RefCell<.*> as core::clone::Clone>::clone$'   # covered by the refcell-free discipline (no RefMut is live across calls)
)
# std APIs that panic on a *value* (position not on a char boundary / out of range) even where the exporter could not read the docs
VALUE_PANICS = re.compile(r'^core::str::<impl str>::(split_at|split_at_mut)$|^alloc::string::String::(insert|insert_str|remove|truncate|drain|split_off|replace_range)$|'
                          r'^core::slice::<impl \[T\]>::(split_at|split_at_mut|swap|copy_from_slice|clone_from_slice|chunks|chunks_exact|windows|rotate_left|rotate_right|copy_within)$|'
                          r'^alloc::vec::Vec::<.*>::(swap_remove|split_off|drain|splice|insert|remove)$|^core::char::methods::<impl char>::(from_digit|to_digit)$|'
                          r'^core::num::<impl [iu]\w+>::(div_euclid|rem_euclid|pow|isqrt|ilog|ilog2|ilog10|abs_diff)$|^core::iter::(traits::iterator::)?Iterator::step_by$|'
                          r'^alloc::collections::(vec_deque::)?VecDeque::<.*>::(swap|insert|remove|split_off|drain)$|^core::time::Duration::(from_secs_f64|from_secs_f32|new)$')

DIVERGING_OK = re.compile(r'core::panicking::panic_nounwind|core::hint::unreachable_unchecked')


def classify_callee(path):
    for rx, kind in PANICKING:
        if re.search(rx, path):
            return kind
    return None


class Ob:
    __slots__ = ('body', 'bid', 'term', 'kind', 'what', 'detail', 'loc', 'owner')

    def __init__(self, body, bid, term, kind, what, detail=''):
        self.body, self.bid, self.term, self.kind, self.what, self.detail = body, bid, term, kind, what, detail
        self.loc = term['loc']
        self.owner = None

    def key(self, fn_path=None):
        return '%s/%s/%s' % (fn_key(fn_path or self.body.path), self.kind, re.sub(r'\s+', '_', self.detail)[:80])

    def keys(self):
        """own key first, then the keys the site would have had inside each function that owns this body (a closure's
        creator, the single caller of a private helper, ...): reviewed / known entries written for the owner keep applying
        when code is moved into a helper or a closure"""
        out = [self.key()]
        for o in (self.owner or []):
            k = self.key(o)
            if k not in out:
                out.append(k)
        return out


def enumerate_obligations(ctx, body):
    """all panic obligations of one body (normal, reachable blocks only)"""
    out = _enumerate_obligations(ctx, body)
    chain = []
    if getattr(ctx, 'cg', None) is not None:
        cur = body.path
        for _ in range(4):
            nxt = ctx.cg.owner_step(cur)
            if nxt is None or nxt == cur or nxt in chain:
                break
            chain.append(nxt)
            cur = nxt
    for o in out:
        o.owner = chain
    return out


def _enumerate_obligations(ctx, body):
    out = []
    reach = body.reachable_blocks()
    for bid in sorted(reach):
        bl = body.blocks[bid]
        if bl['cleanup']:
            continue
        t = bl['term']
        if t['k'] == 'assert':
            ak = t['akind']
            if ak in ('MisalignedPointerDereference', 'NullPointerDereference', 'InvalidEnumConstruction'):
                out.append(Ob(body, bid, t, 'ub-check', 'debug pointer check (%s)' % ak, ak))
            elif ak == 'Overflow':
                ty = type_of(body, body.expr(t['ops'][0])) or (opplace(t['ops'][0]) or {}).get('ty') or '?'
                out.append(Ob(body, bid, t, 'overflow', 'arithmetic overflow (%s on %s)' % (t['bop'], ty), '%s:%s' % (t['bop'], ty)))
            elif ak == 'OverflowNeg':
                out.append(Ob(body, bid, t, 'overflow', 'negation overflow', 'Neg'))
            elif ak in ('DivisionByZero', 'RemainderByZero'):
                out.append(Ob(body, bid, t, 'div-zero', ak, ak))
            elif ak == 'BoundsCheck':
                out.append(Ob(body, bid, t, 'bounds', 'array/slice bounds check', 'BoundsCheck'))
            else:
                out.append(Ob(body, bid, t, 'assert', 'assert %s' % ak, ak))
        elif t['k'] == 'call':
            c = t.get('callee')
            if c is None:
                continue
            path = c['path']
            if c.get('diverges'):
                if DIVERGING_OK.search(path):
                    continue
                if t.get('exp') and re.search(r'core::panicking::(panic_fmt|panic|panic_explicit|unreachable_display|assert_failed)|unwrap_failed|expect_failed|panic_display|panic_str', path):
                    out.append(Ob(body, bid, t, 'panic', 'explicit panic!/unreachable!/assert!', path.rsplit('::', 1)[-1]))
                else:
                    out.append(Ob(body, bid, t, 'diverges', 'call to a diverging function %s' % path, path.rsplit('::', 1)[-1]))
                continue
            if c['local']:
                continue
            kind = classify_callee(path)
            if kind is None:
                # auto-classification of callees outside the frozen table: the callee's own rustdoc (read cross-crate
                # by the exporter) or a frozen list of std slicing / splitting APIs says that it panics on some values
                ext = ctx.facts.externs.get(path) or ctx.facts.externs.get(c.get('decl') or '') or {}
                if CAPACITY_ONLY.search(path) or DOC_PANIC_BENIGN.search(path):
                    continue
                if ext.get('doc_panic') or VALUE_PANICS.search(path):
                    out.append(Ob(body, bid, t, 'doc-panics', 'call to %s, whose documentation has a "Panics" clause' % short(path), path.rsplit('::', 1)[-1]))
                continue
            if kind == 'to-string' and not any('DelayedFormat' in g for g in c.get('gen', [])):
                continue      # Display of std / crate-local types does not return errors; only chrono's lazy formatter can
            out.append(Ob(body, bid, t, kind, 'call to %s' % short(path), callee_detail(body, t, kind)))
    return out


def option_source(e):
    """`o.map(f)`, `o.ok_or_else(g)` and friends are lowered to phi(Some{..} when o is Some | None when o is None): whether
    such a value can be unwrapped is exactly whether `o` can - return that underlying Option / Result (else e itself)"""
    for _ in range(6):
        x = e
        while x[0] in ('ref', 'deref'):
            x = x[1]
        if x[0] == 'phi' and x[1] is None and len(x) > 4 and x[4] and all(isinstance(w, tuple) and w and w[0] == 'cond' for w in x[4]):
            ds = {id(w[1]): w[1] for w in x[4]}
            srcs = [w[1] for w in x[4] if w[1][0] == 'discr']
            good = [br for br in x[2] if br[0] == 'aggr' and re.search(r'(Option::Some|Result::Ok)$', str(br[1]))]
            bad = [br for br in x[2] if br[0] == 'aggr' and re.search(r'(Option::None|Result::Err)$', str(br[1]))]
            if len(srcs) == len(x[4]) and len(good) == 1 and len(good) + len(bad) == len(x[2]) and len({render(d) for d in srcs}) == 1:
                e = strip(srcs[0][1], transparent=False)
                continue
        return e
    return e


def callee_detail(body, t, kind):
    path = t['callee']['path']
    name = path.rsplit('::', 1)[-1]
    if kind in ('unwrap-option', 'unwrap-result', 'unwrap-localresult'):
        src = option_source(strip(body.expr(t['args'][0]), transparent=False))
        return 'unwrap<-' + origin_text(src)
    if kind == 'index':
        gen = t['callee'].get('gen', [])
        self_ty = re.sub(r'<.*', '', short(gen[0])) if gen else '?'
        idx_ty = short(gen[1]) if len(gen) > 1 else '?'
        return 'index:%s[%s]' % (self_ty.rsplit('::', 1)[-1], idx_ty.rsplit('::', 1)[-1])
    if kind == 'refcell':
        gen = t['callee'].get('gen', [])
        return '%s:%s' % (name, family(gen[0] if gen else '?'))
    if kind.startswith('chrono-') or kind in ('int-pow', 'int-abs', 'vec-position', 'sort-by', 'radix-arg'):
        return name
    return name


def family(ty):
    t = short(ty)
    t = re.sub(r"&'?\w* ?", '', t)
    return t.replace('alloc::', '').replace('core::', '').replace('types::', '').replace('variable::', '').replace('collections::btree::map::', '')[:60]


def origin_text(e):
    """short, line-free description of where an unwrapped value comes from"""
    e = strip(e, transparent=False)
    if e[0] == 'call':
        p = short(e[1])
        name = '::'.join(p.split('::')[-2:])
        lit = [model.const_str(a) for a in e[2]]
        lit = [x for x in lit if x is not None]
        return name + ('(%s)' % ','.join('"%s"' % x for x in lit) if lit else '')
    if e[0] == 'phi':
        return 'phi(' + '|'.join(sorted(set(origin_text(a) for a in e[2])))[:60] + ')'
    if e[0] in ('arg', 'var'):
        return str(e[2])
    if e[0] == 'field':
        return '.' + e[2]
    return e[0]


# ------------------------------------------------------------------------------------------------
# discharges
ACCESSOR_SKIP = r'^tokinizer::tools::|^tools::|::parse$|^compiler::|^formatter::'


class Discharger:
    def __init__(self, ctx, user_data_unconstrained=False):
        self.ctx = ctx
        self.facts = ctx.facts
        self.config = ctx.config
        self.parsers = {f: fam for fam, f in model.regex_parsers(ctx)}
        self._fam_cache = {}
        self.env = {'__leaf__': self.leaf_interval}
        self._guard_cache = {}
        self.annot = value_annotations(ctx)
        self.group_max = {}

    def leaf_interval(self, body, e):
        """data-derived ranges of leaves: annotated fields / getter payloads, integer parses of finite regex groups"""
        k = e[0]
        if k == 'arg' and not getattr(self, '_in_caller', False):
            return self.param_interval(body, e[1])
        if k == 'field':
            full = e[3] if len(e) > 3 else ''
            if full in self.annot['fields']:
                return self.annot['fields'][full][0]
            # tuple payload of an annotated getter: (get_timezone(..) as Some.0).#1 or unwrap(get_timezone(..)).#1
            call = producing_call(e[1])
            if call is not None:
                if re.search(r'core::str::<impl str>::parse$', call[1]) and e[2].lstrip('#') == '0':
                    return self.group_parse_interval(body, call)
                key = (call[1], e[2].lstrip('#'))
                if key in self.annot['calls']:
                    return self.annot['calls'][key][0]
        if k == 'call' and e[1] in self.facts.bodies and not getattr(self, '_inlining', False):
            from .facts import inline_calls, inlinable
            if inlinable(self.facts, e[1]) is not None:
                self._inlining = True
                try:
                    e2 = inline_calls(self.facts, e, depth=2)
                    if e2[0] != 'call' or e2[1] != e[1]:
                        return interval(body, e2, env=self.env)
                finally:
                    self._inlining = False
        if k == 'call' and re.search(r'(Result|Option)::<.*>::unwrap$', e[1]) and e[2]:
            call = strip(e[2][0], transparent=False)
            if call[0] == 'call' and re.search(r'core::str::<impl str>::parse$', call[1]):
                return self.group_parse_interval(body, call)
        return None

    def param_interval(self, body, idx):
        """range of an integer parameter = union over all (direct, crate-local) call sites; None unless every caller is known"""
        ty = body.locals.get(idx, '')
        if ty not in INT_RANGE:
            return None
        callers = self.ctx.cg.callers_of(body.path)
        if not callers:
            return None
        out = None
        n = 0
        self._in_caller = True
        try:
            for cp in callers:
                cb = self.facts.bodies[cp]
                kinds = [k for (y, k) in self.ctx.cg.edges.get(cp, ()) if y == body.path]
                if any(k != 'direct' for k in kinds):
                    return None
                for bid, t in cb.calls():
                    c = t.get('callee')
                    if c and c['path'] == body.path and idx - 1 < len(t['args']):
                        iv = interval(cb, cb.expr(t['args'][idx - 1]), env=self.env)
                        if iv is None:
                            return None
                        out = iv if out is None else (min(out[0], iv[0]), max(out[1], iv[1]))
                        n += 1
        finally:
            self._in_caller = False
        return out if n else None

    def group_parse_interval(self, body, call):
        gen = call[3]['callee'].get('gen', []) if isinstance(call[3], dict) else []
        if not gen or not re.fullmatch(r'[iu](8|16|32|64|size)', gen[0]):
            return None
        txt = render(call[2][0])
        if 'replace(' in txt:
            return None
        g = re.findall(r'Captures::name\([^"]*"(\w+)"\)', txt)
        if len(set(g)) != 1:
            return None
        gl = self.group_language(body, g[0])
        if not gl or not gl[1]:
            return None
        mx = 0
        for sub in gl[1]:
            lang = enumerate_language(sub, limit=20000)
            if lang is None:
                return None
            for w in lang:
                if not re.fullmatch(r'[0-9]{1,9}', w):
                    return None
                mx = max(mx, int(w))
        return (0, mx)

    # --- which regex family do the captures of this body come from?
    def family_of(self, body):
        p = body.path
        if p in self._fam_cache:
            return self._fam_cache[p]
        fam = None
        if p in self.parsers:
            fam = [self.parsers[p]]
        elif p.endswith('regex_tokinizer::atom::get_atom'):
            fam = ['atom']
        elif p.endswith('tools::parse_timezone'):
            fam = ['timezone']
        elif p.endswith('regex_tokinizer::field::get_field_type'):
            fam = ['field']
        elif body.kind == 'closure' and body.rec.get('parent') in self.facts.bodies and body.rec.get('parent') != p:
            # a closure of a reader (an iterator chain over the captures): the captures are those of the reader's family
            fam = self.family_of(self.facts.bodies[body.rec['parent']])
        self._fam_cache[p] = fam
        return fam

    def regexes(self, body):
        fam = self.family_of(body)
        if not fam:
            return None
        out = []
        for f in fam:
            for p, h in self.config.parse_family(f):
                if h is not None:        # unparsable regexes are dropped at load time
                    out.append((p, h))
        return out

    def group_language(self, body, group):
        """union language facts of a named group over all regexes of the body's family: (mandatory everywhere?, [sub hirs])"""
        rs = self.regexes(body)
        if not rs:
            return None
        mand = True
        subs = []
        for p, h in rs:
            g = all_groups(h)
            if group in g:
                subs.append(g[group])
            if group not in mandatory_groups(h):
                mand = False
        return mand, subs

    # --- main entry
    def discharge(self, ob):
        fn = getattr(self, 'd_' + ob.kind.replace('-', '_'), None)
        if fn is None:
            return None
        try:
            r = fn(ob)
        except RecursionError:
            r = None
        if r is None and ob.kind != 'refcell':
            r = self.pattern_dead(ob)
        return r

    def rule_of(self, body):
        for rn, fn_ in list(model.rule_functions(self.ctx).items()) + [('small_date', 'tokinizer::rule_tokinizer::rules::date_rules::small_date')]:
            if fn_ == body.path:
                return rn
        return None

    def pattern_dead(self, ob):
        """the site is guarded by get_X("name", fields) being Some, but no pattern of the rule binds `name`"""
        rule = self.rule_of(ob.body)
        if not rule:
            return None
        from .data import abstract_tokens
        bound = set()
        for lang in self.config.languages:
            for rn, p, org in model.all_patterns(self.ctx, lang):
                if rn == rule:
                    bound |= {t[2] for t in abstract_tokens(p) if t[0] == 'field'}
        for cond in self.deep_conds(ob):
            m = re.fullmatch(r'discr\(tools::get_\w+\((?:config, )?"([^"]+)", fields\)\)=\[1\]', cond)
            if m and m.group(1) not in bound:
                return ('pattern-dead', 'only reachable when field %r is bound, and no pattern of rule %s binds it (data witness)' % (m.group(1), rule))
        return None

    # --- asserts
    def d_ub_check(self, ob):
        return ('std-macro', 'debug-only pointer validity check emitted for a std macro / Box deref; not a logic panic')

    def d_div_zero(self, ob):
        """the assert's condition is `divisor == 0` (expected false); its message operand is the dividend"""
        b = ob.body
        c = strip(b.expr(ob.term['cond']))
        if c[0] != 'binop' or c[1] != 'Eq':
            return None
        d = strip(c[2])
        z = strip(c[3])
        if z[0] == 'const' and z[2] == 0:
            pass
        elif d[0] == 'const' and d[2] == 0:
            d = z
        else:
            return None
        iv = interval(b, d, env=self.env)
        if d[0] == 'const' and d[2] not in (0, None):
            return ('const', 'divisor is the constant %s' % d[2])
        if iv is not None and (iv[0] > 0 or iv[1] < 0):
            return ('interval' if iv[0] != iv[1] else 'const', 'divisor in [%d, %d]' % iv)
        return None

    def d_overflow(self, ob):
        b = ob.body
        t = ob.term
        bop = t.get('bop', '')
        if not t['ops']:
            return None
        a_e = b.expr(t['ops'][0])
        ty = type_of(b, a_e) or (opplace(t['ops'][0]) or {}).get('ty')
        rng = INT_RANGE.get(ty or '')
        if len(t['ops']) == 1:
            a = interval(b, a_e, env=self.env)
            if a is not None and rng and a[0] > rng[0]:
                return ('interval', 'operand of negation > MIN')
            return None
        c_e = b.expr(t['ops'][1])
        a = interval(b, a_e, env=self.env)
        c = interval(b, c_e, env=self.env)
        if bop in ('Div', 'Rem'):
            cs = strip(c_e)
            if cs[0] == 'const' and cs[2] not in (-1, None):
                return ('const', 'MIN / -1 twin: divisor is the constant %s' % cs[2])
            if c is not None and (c[0] > -1 or c[1] < -1):
                return ('interval', 'divisor never -1')
            if ty and ty.startswith('u'):
                return ('const', 'unsigned division cannot overflow')
            return None
        if a is not None and c is not None and rng:
            if bop == 'Add':
                r = (a[0] + c[0], a[1] + c[1])
            elif bop == 'Sub':
                r = (a[0] - c[1], a[1] - c[0])
            elif bop == 'Mul':
                ps = [a[0] * c[0], a[0] * c[1], a[1] * c[0], a[1] * c[1]]
                r = (min(ps), max(ps))
            elif bop in ('Shl', 'Shr'):
                bits = int(re.sub(r'\D', '', ty) or 64)
                return ('interval', 'shift amount < width') if 0 <= c[0] and c[1] < bits else None
            else:
                return None
            if r[0] >= rng[0] and r[1] <= rng[1]:
                return ('interval', '%s in [%d, %d] fits %s' % (bop, r[0], r[1], ty))
        # index-like: usize counter / length plus a small constant
        if ty == 'usize' and bop == 'Add' and b.kind == 'closure':
            g = self.per_element_counter(ob)
            if g:
                return g
        if ty == 'usize' and bop == 'Add':
            cs = strip(c_e)
            if cs[0] == 'const' and isinstance(cs[2], int) and 0 <= cs[2] <= 16 and self.index_like(b, t['ops'][0], a_e):
                return ('index-like', 'usize counter/length (bounded by isize::MAX) + %d' % cs[2])
            as_ = strip(a_e)
            if c is not None and c[1] <= 2**63 and a is not None and a[1] <= 2**63 - 1:
                return ('interval', 'sum of two lengths fits usize')
        if ty == 'usize' and bop == 'Sub':
            g = self.sub_guard(ob, a_e, c_e)
            if g:
                return g
        if ty == 'usize' and bop == 'Mul':
            pass
        return None

    PER_ELEMENT = re.compile(r'(Vec::<.*>::(retain|retain_mut|dedup_by|dedup_by_key)|Iterator::(for_each|map|filter|filter_map|position|any|all|find|'
                             r'find_map|inspect|take_while|skip_while|map_while|try_for_each|partition)|slice::<impl \[T\]>::(iter|sort_by_key))$')

    def per_element_counter(self, ob):
        """`counter += 1` inside a closure, where counter is a variable of the creating function captured by mutable reference:
        the variable starts at a small constant, nothing but this closure touches it, the closure has no loop and this one
        increment, and the closure is handed to a std adaptor that invokes it at most once per element of a collection.
        The counter is then at most init + len <= isize::MAX + init, which fits usize."""
        b = ob.body
        t = ob.term
        cs = strip(b.expr(t['ops'][1]))
        if not (cs[0] == 'const' and cs[2] == 1) or b.loops():
            return None
        p = opplace(t['ops'][0])
        if not p or p['proj'] != ['deref']:
            return None
        # the operand is *(upvar k): follow the local back to (*_1).#k
        ds = b.defs().get(p['local'], [])
        if len(ds) != 1 or ds[0][1] != 'stmt' or ds[0][2]['rv'] != 'use':
            return None
        q = opplace(ds[0][2]['ops'][0])
        if not q or q['local'] != 1 or len(q['proj']) != 2 or q['proj'][0] != 'deref' or not isinstance(q['proj'][1], dict):
            return None
        fld = q['proj'][1].get('field', '')
        if not re.fullmatch(r'.*#?\d+', fld):
            return None
        k = int(re.search(r'(\d+)$', fld).group(1))
        # one increment site of that upvar in this closure
        n_inc = 0
        for i in b.normal_blocks:
            tt = b.blocks[i]['term']
            if tt['k'] == 'assert' and tt.get('akind') == 'Overflow' and tt.get('bop') == 'Add':
                pp = opplace(tt['ops'][0])
                if pp and pp['proj'] == ['deref']:
                    d2 = b.defs().get(pp['local'], [])
                    if len(d2) == 1 and d2[0][1] == 'stmt' and opplace(d2[0][2]['ops'][0]) == q:
                        n_inc += 1
        if n_inc != 1:
            return None
        parent = self.facts.bodies.get(b.rec.get('parent'))
        if parent is None:
            return None
        for i in parent.normal_blocks:
            for st in parent.blocks[i]['stmts']:
                if st['k'] == 'assign' and st['rv'] == 'aggr' and st['adt'] == 'closure:' + b.path:
                    if k >= len(st['ops']):
                        return None
                    cap = opplace(st['ops'][k])
                    if not cap or cap['proj']:
                        return None
                    cd = parent.defs().get(cap['local'], [])
                    if len(cd) != 1 or cd[0][1] != 'stmt' or cd[0][2]['rv'] != 'ref' or not cd[0][2].get('mut'):
                        return None
                    var = opplace(cd[0][2]['ops'][0])
                    if not var or var['proj']:
                        return None
                    vl = var['local']
                    inits = parent.defs().get(vl, [])
                    if len(inits) != 1 or inits[0][1] != 'stmt' or inits[0][2]['rv'] != 'use' or 'const' not in inits[0][2]['ops'][0]:
                        return None
                    init = inits[0][2]['ops'][0]['const'].get('val')
                    if not isinstance(init, int) or not 0 <= init <= 1 << 32:
                        return None
                    # no other mutable borrow / assignment of the variable in the parent
                    n_mut = 0
                    for j in parent.normal_blocks:
                        for s2 in parent.blocks[j]['stmts']:
                            if s2['k'] == 'assign' and s2['rv'] == 'ref' and s2.get('mut'):
                                o2 = opplace(s2['ops'][0])
                                if o2 and o2['local'] == vl:
                                    n_mut += 1
                    if n_mut != 1:
                        return None
                    # where the closure value goes: one call of a per-element adaptor
                    clo = st['lhs']['local']
                    users = []
                    for j in parent.normal_blocks:
                        tt = parent.blocks[j]['term']
                        if tt['k'] == 'call' and any((opplace(a) or {}).get('local') == clo for a in tt['args']):
                            users.append(tt)
                    if len(users) == 1 and users[0].get('callee') and self.PER_ELEMENT.search(users[0]['callee']['path']):
                        return ('per-element-counter', 'a counter starting at %d, incremented once per element by the closure given to %s' % (
                            init, users[0]['callee']['path'].rsplit('::', 1)[1]))
                    return None
        return None

    def index_like(self, b, operand, e):
        """is this usize value a collection length, an enumerate index, or a counter that indexes / is compared with a length?"""
        txt = render(e)
        if re.search(r'(::len|Iterator::count|enumerate|PtrMetadata)\(', txt) or re.search(r'\.len\(\)', txt):
            return True
        iv = interval(b, e, env=self.env)
        if iv is not None and iv[1] <= 2**63 - 1:
            return True
        p = opplace(operand)
        if not p:
            return False
        # follow copies back to a user variable
        l = p['local']
        seen = set()
        while l not in b.names and l not in seen:
            seen.add(l)
            ds = b.defs().get(l, [])
            if len(ds) == 1 and ds[0][1] == 'stmt' and ds[0][2]['rv'] == 'use':
                q = opplace(ds[0][2]['ops'][0])
                if q and not q['proj']:
                    l = q['local']
                    continue
            break
        name = b.names.get(l)
        if name is None:
            return False
        # all locals carrying this variable
        locs = [k for k, v in b.names.items() if v == name]
        for i in b.normal_blocks:
            bl = b.blocks[i]
            t = bl['term']
            if t['k'] == 'call' and t.get('callee'):
                cp = t['callee']['path']
                if re.search(r'slice::<impl \[T\]>::get$|Vec::<.*>::(get|insert|remove)$|Index<.*>>::index$|Iterator::nth$|Iterator::skip$', cp):
                    for a in t['args'][1:]:
                        if uses_var(b, a, locs):
                            return True
            for s in bl['stmts']:
                if s['k'] == 'assign' and s['rv'] == 'binop' and s['op'] in ('Lt', 'Le', 'Gt', 'Ge', 'Eq', 'Ne'):
                    ops = s['ops']
                    for x, y in ((ops[0], ops[1]), (ops[1], ops[0])):
                        if uses_var(b, x, locs) and re.search(r'::len\(|PtrMetadata|\.len', render(b.expr(y))):
                            return True
                if s['k'] == 'assign' and s['rv'] == 'aggr' and 'Range' in s['adt']:
                    if any(uses_var(b, o, locs) for o in s['ops']):
                        return True
        return False

    def sub_guard(self, ob, a_e, c_e):
        """x - c on usize: need x >= c. Accept a dominating comparison on the same value, or an interval lower bound."""
        b = ob.body
        a = interval(b, a_e, env=self.env)
        c = interval(b, c_e, env=self.env)
        if a is not None and c is not None and a[0] >= c[1]:
            return ('interval', 'minuend >= subtrahend')
        at = render(b._shallow_of(a_e) if hasattr(b, '_shallow_of') else a_e)
        ct = render(c_e)
        amt = render(b.mexpr(ob.term['ops'][0])) if ob.term.get('ops') else at
        for cond in self.deep_conds(ob):
            m = re.fullmatch(r'\((.*) (Gt|Ge|Lt|Le|Ne|Eq) (.*)\)(!?=)\[0\]', cond)
            if not m:
                continue
            l, op, r, neg = m.groups()
            truth = (neg == '!=')
            # x > y (both usize) implies x >= 1
            if re.fullmatch(r'\d+', ct) and int(ct) == 1:
                o2 = op if truth else {'Gt': 'Le', 'Ge': 'Lt', 'Lt': 'Ge', 'Le': 'Gt', 'Ne': 'Eq', 'Eq': 'Ne'}[op]
                if (o2 == 'Gt' and l in (at, amt)) or (o2 == 'Lt' and r in (at, amt)):
                    return ('guard-dom', 'dominated by %s: the minuend exceeds an unsigned value, so it is >= 1' % cond)
            # normalise to "x OP k" being true
            for x, k, o in ((l, r, op), (r, l, {'Gt': 'Lt', 'Lt': 'Gt', 'Ge': 'Le', 'Le': 'Ge', 'Ne': 'Ne', 'Eq': 'Eq'}[op])):
                if not truth:
                    o = {'Gt': 'Le', 'Ge': 'Lt', 'Lt': 'Ge', 'Le': 'Gt', 'Ne': 'Eq', 'Eq': 'Ne'}[o]
                if same_value(x, a_e, b) and re.fullmatch(r'-?\d+', k) and re.fullmatch(r'\d+', ct):
                    kk, cc = int(k), int(ct)
                    if (o == 'Gt' and kk + 1 >= cc) or (o == 'Ge' and kk >= cc) or (o == 'Ne' and kk == 0 and cc == 1):
                        return ('guard-dom', 'dominated by %s' % cond)
        # x != y together with x >= y (in any spelling: !(y > x), !(x < y), y <= x, ..) gives x > y >= 0, hence x >= 1
        if re.fullmatch(r'\d+', ct) and int(ct) == 1:
            ne, ge = set(), set()
            for cond in self.deep_conds(ob):
                m = re.fullmatch(r'\((.*) (Gt|Ge|Lt|Le|Ne|Eq) (.*)\)(!?=)\[0\]', cond)
                if not m:
                    continue
                l, op, r, neg = m.groups()
                if neg != '!=':
                    op = {'Gt': 'Le', 'Ge': 'Lt', 'Lt': 'Ge', 'Le': 'Gt', 'Ne': 'Eq', 'Eq': 'Ne'}[op]
                for x, y, o in ((l, r, op), (r, l, {'Gt': 'Lt', 'Lt': 'Gt', 'Ge': 'Le', 'Le': 'Ge', 'Ne': 'Ne', 'Eq': 'Eq'}[op])):
                    if x in (at, amt):
                        if o == 'Ne':
                            ne.add(y)
                        elif o in ('Ge', 'Gt'):
                            ge.add(y)
            both = ne & ge
            if both:
                return ('guard-dom', 'the minuend differs from and is not below %s (both checked before): it exceeds an unsigned value, so it is >= 1' % sorted(both)[0][:40])
        return None

    # --- unwraps
    def d_unwrap_option(self, ob):
        b = ob.body
        src = option_source(strip(b.expr(ob.term['args'][0]), transparent=False))
        return self.unwrap_source(ob, src)

    d_unwrap_result = d_unwrap_option

    def unwrap_source(self, ob, src):
        b = ob.body
        src0 = src
        # Option<&T>::cloned / as_ref / map(identity-ish) keep Some-ness
        while src[0] == 'call' and re.search(r'Option::<.*>::(cloned|copied|as_ref|as_mut|as_deref)$', src[1]) and src[2]:
            src = strip(src[2][0], transparent=False)
        if src[0] == 'call':
            path = src[1]
            if re.search(r'regex::(regex::string::)?Captures::<.*>::get$|Captures::get$', path):
                i = strip(src[2][1])
                if i[0] == 'const' and i[2] == 0:
                    return ('regex-get0', 'capture group 0 always exists')
            if re.search(r'Captures::<.*>::name$|Captures::name$', path):
                g = model.const_str(src[2][1])
                gl = self.group_language(b, g) if g else None
                if gl is None:
                    return None
                mand, subs = gl
                if mand:
                    return ('regex-mandatory', 'group %s is on every match path of every %s regex' % (g, '/'.join(self.family_of(b))))
                return None
            if re.search(r'core::cmp::PartialOrd(<.*>)?>::partial_cmp$|cmp::impls::<impl core::cmp::PartialOrd for (usize|u\d+|i\d+|isize)>::partial_cmp$', path):
                tys = [(opplace(a) or {}).get('ty', '') for a in src[3]['args']] if isinstance(src[3], dict) else []
                if all(re.fullmatch(r'&?&?(usize|u\d+|i\d+|isize)', t) for t in tys) or re.search(r'for (usize|u\d+|i\d+|isize)>', path):
                    return ('ord-total', 'partial_cmp on integers is always Some')
            if re.search(r'core::str::<impl str>::parse$', path):
                return self.parse_unwrap(ob, src)
            if re.search(r'Iterator::next$|Chars<.*> as .*Iterator>::next$|str::iter::Chars.*::next$', path):
                # chars().next() of a non-empty match
                inner = render(src)
                m = re.search(r'Captures::get\(.*?, 0\)', inner)
                rs = self.regexes(b)
                if rs and 'str::chars(' in inner.replace('<impl str>::', '') or (rs and 'chars(' in inner):
                    if m and all(h['minlen'] >= 1 for p, h in rs):
                        return ('regex-nonempty', 'every match of the %s family has at least one character' % '/'.join(self.family_of(b)))
                    g = re.search(r'Captures::name\([^"]*"(\w+)"\)', inner)
                    if g:
                        gl = self.group_language(b, g.group(1))
                        if gl and gl[0] and all(s['minlen'] >= 1 for s in gl[1]):
                            return ('regex-nonempty', 'group %s is mandatory and non-empty' % g.group(1))
            if re.search(r'tokinizer::tools::get_\w+$', path):
                return self.pattern_typed(ob, src)
            if re.search(r'BTreeMap::<.*>::get$', path):
                return self.map_get_guard(ob, src)
            if re.search(r'TimeZone::from_local_datetime$|TimeZone::from_local_date$', path):
                pass
        if src[0] == 'phi':
            g = self.phi_typed(ob, src)
            if g:
                return g
        # dominated by a check on the same value
        g = self.dom_check(ob, src0)
        if g:
            return g
        return None

    def phi_typed(self, ob, src):
        """unwrap of a match on the token of a captured field written in place (or in a spliced helper) - the typed getters
        spelled out: `match fields.get("f").token_type { Some(Kind(..)) => Some(..), Some(Variable(v)) => item of v, _ => None }`.
        The result is Some whenever the token of `f` is of a kind an arm builds Some for (path conditions of the Some
        alternatives: presence of captured fields, the token type being set, the kind, and for a variable the item it
        holds); discharged when every pattern of the rule binds `f` with a type whose tokens are all of such kinds - the
        same argument, with the same trust in variable_compare, as for tools::get_X("f", fields).unwrap()."""
        ctx = self.ctx
        b = ob.body
        rule = None
        for rn, fn_ in list(model.rule_functions(ctx).items()) + [('small_date', 'tokinizer::rule_tokinizer::rules::date_rules::small_date')]:
            if fn_ == b.path:
                rule = rn
        if rule is None:
            return None
        adt = ctx.facts.adts.get('types::TokenType')
        if not adt:
            return None
        by_discr = {v['discr']: v['name'] for v in adt['variants']}
        tn = model.token_type_names(ctx)
        PRES = re.compile(r'^discr\(BTreeMap::get\(fields, "([^"]+)"\)\)$')
        CONT = re.compile(r'^BTreeMap::contains_key\(fields, "([^"]+)"\)$')
        TSET = re.compile(r'^discr\(BTreeMap::get\(fields, "([^"]+)"\) as Some\.0\.token_type\)$')
        KIND = re.compile(r'^discr\(BTreeMap::get\(fields, "([^"]+)"\) as Some\.0\.token_type as Some\.0\)$')
        VDATA = re.compile(r'^discr\(BTreeMap::get\(fields, "([^"]+)"\) as Some\.0\.token_type as Some\.0 as Variable\.0\.data\)$')
        VITEM = re.compile(r'^discr\(downcast_ref\(DataItem::as_any\(BTreeMap::get\(fields, "([^"]+)"\) as Some\.0\.token_type as Some\.0 as Variable\.0\.data as Item\.0\)\)\)$')
        try:
            alts = alternatives(b, src)
        except Exception:
            return None
        kinds_some = {}          # field -> set of TokenType variant names an arm builds Some for
        present = set()
        n_some = 0
        for a, conds in alts:
            a = strip(a)
            if not (a[0] == 'aggr' and re.search(r'(Option::Some|Result::Ok)$', str(a[1]))):
                continue
            n_some += 1
            fld, kind, ok = None, None, True
            for d, v in conds:
                r = render(d)
                vals = set(v) if not isinstance(v, tuple) else None
                m = PRES.match(r)
                if m and vals == {1}:
                    present.add(m.group(1))
                    continue
                m = CONT.match(r)
                if m and ((vals is not None and vals == {1}) or (isinstance(v, tuple) and len(v) > 1 and set(v[1]) == {0})):
                    present.add(m.group(1))
                    continue
                m = TSET.match(r)
                if m and vals == {1}:
                    fld = fld or m.group(1)
                    ok = ok and fld == m.group(1)
                    continue
                m = KIND.match(r)
                if m and vals is not None and len(vals) == 1 and list(vals)[0] in by_discr:
                    fld = fld or m.group(1)
                    ok = ok and fld == m.group(1)
                    kind = by_discr[list(vals)[0]]
                    continue
                m = VDATA.match(r) or VITEM.match(r)
                if m and vals is not None and len(vals) == 1:
                    fld = fld or m.group(1)
                    ok = ok and fld == m.group(1)
                    continue
                ok = False
            if ok and fld and kind:
                kinds_some.setdefault(fld, set()).add(kind)
        if not n_some or len(kinds_some) != 1:
            return None
        name = list(kinds_some)[0]
        accn = {tn.get(k) for k in kinds_some[name]}
        pats = []
        for lang in ctx.config.languages:
            pats += [(lang, p) for rn, p, org in model.all_patterns(ctx, lang) if rn == rule]
        if not pats:
            return None
        from .data import abstract_tokens
        for lang, p in pats:
            bound = {t[2]: t[1] for t in abstract_tokens(p) if t[0] == 'field'}
            if name not in bound or not present <= set(bound):
                return None
            kinds = model.accepted_token_kinds(ctx, bound[name])
            if kinds is None or not kinds <= accn:
                return None
        return ('pattern-typed', 'every pattern of %s binds %r with a type whose tokens (%s) the match written here turns into Some' % (rule, name, ', '.join(sorted(kinds_some[name]))))

    def d_unwrap_localresult(self, ob):
        b = ob.body
        src = strip(b.expr(ob.term['args'][0]), transparent=False)
        if src[0] == 'call' and isinstance(src[3], dict):
            gen = src[3]['callee'].get('gen', [])
            if gen and re.search(r'FixedOffset$', gen[0]):
                return ('fixed-offset-single', 'a FixedOffset maps every local time to exactly one instant (LocalResult::Single)')
        return None

    def parse_unwrap(self, ob, src):
        """`text.parse::<T>().unwrap()`: the text's language (from the regex group it was captured by) must be inside T's grammar"""
        b = ob.body
        gen = src[3]['callee'].get('gen', []) if isinstance(src[3], dict) else []
        target = gen[0] if gen else '?'
        inner = strip(src[2][0], transparent=False)
        if b.kind == 'closure':
            # inside `opt.map_or(0, |m| m.as_str().parse().unwrap())` the text is the closure's parameter: the payload of `opt`
            from .interval import closure_arg_expr
            from .facts import rebuild
            pe = closure_arg_expr(b, 2)
            if pe is not None:
                inner = rebuild(inner, lambda n: pe[1] if n[0] == 'arg' and n[1] == 2 else n)
        txt = render(inner)
        m = re.fullmatch(r'.*Captures::name\([^"]*"(\w+)"\)\)?( as Some\.0)?\)*', txt)
        g = re.search(r'Captures::name\([^"]*"(\w+)"\)', txt)
        if not g or 'replace(' in txt.replace('::replace', 'replace') and target not in ('i32', 'u32', 'i64', 'u64'):
            pass
        if g and re.fullmatch(r'[iu](8|16|32|64|size)', target) and 'replace' not in txt:
            gl = self.group_language(b, g.group(1))
            if gl:
                mand, subs = gl
                ok = True
                mx = 0
                for s in subs:
                    lang = enumerate_language(s, limit=20000)
                    if lang is None:
                        ok = False
                        break
                    for w in lang:
                        if not re.fullmatch(r'[0-9]{1,9}', w):
                            ok = False
                        else:
                            mx = max(mx, int(w))
                if ok and subs:
                    self.env['parse:%s' % g.group(1)] = (0, mx)
                    return ('regex-digits', 'group %s only matches 1-9 ASCII digits (max value %d): parse::<%s> cannot fail' % (g.group(1), mx, target))
        return None

    def pattern_typed(self, ob, src):
        """get_X("name", fields).unwrap(): every pattern of the rule binds `name` with a type whose tokens the getter accepts.
        Variables are matched through variable_compare, which checks the stored item's type, so a Variable token under a
        typed field always holds an item of that type."""
        ctx = self.ctx
        b = ob.body
        getter = src[1].rsplit('::', 1)[1]
        name = [model.const_str(a) for a in src[2]]
        name = [x for x in name if x is not None]
        if not name:
            return None
        name = name[0]
        acc = model.getter_accepts(ctx).get(getter, set())
        tn = model.token_type_names(ctx)
        accn = {tn.get(k) for k in acc}
        rule = None
        for rn, fn_ in list(model.rule_functions(ctx).items()) + [('small_date', 'tokinizer::rule_tokinizer::rules::date_rules::small_date')]:
            if fn_ == b.path:
                rule = rn
        pats = []
        if rule:
            for lang in ctx.config.languages:
                pats += [(lang, p) for rn, p, org in model.all_patterns(ctx, lang) if rn == rule]
        elif b.path.endswith('dynamic_type_tokinizer::dynamic_type_tokinizer'):
            for fam, it in ctx.config.units():
                pats += [('unit', p) for p in it['parse']]
        else:
            return None
        if not pats:
            return None
        from .data import abstract_tokens
        for lang, p in pats:
            bound = {t[2]: t[1] for t in abstract_tokens(p) if t[0] == 'field'}
            if name not in bound:
                return None
            kinds = model.accepted_token_kinds(ctx, bound[name])
            if kinds is None or not kinds <= accn:
                return None
        return ('pattern-typed', 'every pattern of %s binds %r with a type %s accepts' % (rule or 'the unit literals', name, getter))

    def map_get_guard(self, ob, src):
        b = ob.body
        key = render(src[2][1])
        recv = render(src[2][0])
        if key == 'tokinizer.language' and self.rule_of(b) and recv.startswith('config.'):
            w = self.lang_keyed_witness(recv.split('.', 1)[1])
            if w:
                return ('lang-keyed-guard', w)
        for cond in self.deep_conds(ob):
            if re.search(r'BTreeMap::contains_key\(%s, %s\)!=\[0\]' % (re.escape(recv), re.escape(key)), cond):
                return ('guard-dom', 'dominated by contains_key on the same map and key')
            if re.search(r'BTreeMap::contains_key\(.*?, %s\)!=\[0\]' % re.escape(key), cond) and recv.split('.')[-1] in cond:
                return ('guard-dom', 'dominated by contains_key on the same key')
        return None

    def lang_keyed_witness(self, table):
        """rule functions only run when config.rule has the session language; load_from_json fills `rule` and `table`
        for exactly the languages of json_data.languages"""
        rt = self.facts.one(r'^tokinizer::rule_tokinizer::rule_tokinizer$')
        ok1 = False
        for i in rt.normal_blocks:
            t = rt.blocks[i]['term']
            if t['k'] == 'call' and t.get('callee') is None:
                ok1 = any(re.fullmatch(r'discr\(BTreeMap::get\(tokinizer\.config\.rule, tokinizer\.language\)\)=\[1\]', c) for c in rt.cond_text(i))
        lf = self.facts.body('config::SmartCalcConfig::load_from_json')
        keys = {}
        from .effects import fields_in
        for bid, t in lf.calls(r'BTreeMap::<.*>::insert$'):
            recv = lf.expr(t['args'][0])
            # the receiver place: &mut config.<field>
            fld = None
            p0 = opplace(t['args'][0])
            if p0:
                for d in lf.defs().get(p0['local'], []):
                    if d[1] == 'stmt' and d[2]['rv'] == 'ref':
                        pr = opplace(d[2]['ops'][0])['proj']
                        fs = [pe['field'] for pe in pr if isinstance(pe, dict) and 'field' in pe]
                        if fs and fs[-1].startswith('config::SmartCalcConfig.'):
                            fld = fs[-1].rsplit('.', 1)[1]
            if fld in ('rule', table):
                k = lf.expr(t['args'][1])
                keys['config.' + fld] = 'constants::JsonConstant.languages' in fields_in(k)
        if ok1 and keys.get('config.rule') and keys.get('config.' + table):
            return 'a rule function runs only when config.rule[language] exists; load_from_json fills rule and %s for the same language set' % table
        return None

    def dom_check(self, ob, src):
        """the unwrapped value was tested (is_some / is_ok / discriminant / is_err negated) on every path to the unwrap"""
        b = ob.body
        want = render(src)
        p = opplace(ob.term['args'][0])
        for cond in self.deep_conds(ob):
            m = re.fullmatch(r'discr\((.*)\)=\[(\d+)\]', cond)
            if m and m.group(2) in ('0', '1'):
                inner = m.group(1)
                if inner == want or inner == '$' + str(b.names.get(p['local'] if p else -1)):
                    # Option: Some = 1; Result: Ok = 0
                    is_opt = ob.kind == 'unwrap-option'
                    if (is_opt and m.group(2) == '1') or (not is_opt and m.group(2) == '0'):
                        return ('guard-dom', 'dominated by the %s arm of a match on the same value' % ('Some' if is_opt else 'Ok'))
            m = re.fullmatch(r'(Option::is_some|Result::is_ok)\((.*)\)!=\[0\]', cond)
            if m and (m.group(2) == want or m.group(2).lstrip('$') == str(b.names.get(p['local'] if p else -1))):
                return ('guard-dom', 'dominated by %s' % m.group(1))
            m = re.fullmatch(r'(Option::is_none|Result::is_err)\((.*)\)=\[0\]', cond)
            if m and (m.group(2) == want or m.group(2).lstrip('$') == str(b.names.get(p['local'] if p else -1))):
                return ('guard-dom', 'dominated by the negation of %s' % m.group(1))
        return None

    # --- index / positions
    def d_index(self, ob):
        b = ob.body
        t = ob.term
        gen = t['callee'].get('gen', [])
        if len(gen) > 1 and re.search(r'RangeFull$', gen[1]):
            return ('range-full', '`[..]` of a string / vector is total')
        return self.index_guard(ob)

    def deep_conds(self, ob):
        """conditions of the obligation's block with deep (fully expanded) and mutable-variable-stopped renderings"""
        b = ob.body
        out = []
        b._shallow = 'mut'
        try:
            cs = b.conditions(ob.bid)
        finally:
            b._shallow = False
        for (_, d, v) in cs:
            out.append(cond_str(d, v))
        for (_, d, v) in b.conditions(ob.bid):
            t = cond_str(d, v)
            if t not in out:
                out.append(t)
        # the same conditions with small crate-local accessors (line_count(), get_index(), ..) replaced by what they return
        from .facts import inline_calls
        for shallow in ('mut', False):
            b._shallow = shallow
            try:
                cs2 = b.conditions(ob.bid)
            finally:
                b._shallow = False
            for (_, d, v) in cs2:
                try:
                    t = cond_str(inline_calls(self.facts, d, depth=1, skip=ACCESSOR_SKIP), v)
                except RecursionError:
                    continue
                if t not in out:
                    out.append(t)
        # what the decisions imply: a flag that was merged from several definitions (a bool, an Option, a small enum such as
        # `Direction::Down`) and tested here stands for the conditions of the one definition that can have the tested value
        from .facts import implied, norm_cond
        for shallow in ('mut', False):
            b._shallow = shallow
            try:
                cs3 = b.conditions(ob.bid)
                for (_, d, v) in cs3:
                    try:
                        for d2, v2 in implied(b, *norm_cond(d, v)):
                            t = cond_str(d2, v2)
                            if t not in out:
                                out.append(t)
                    except RecursionError:
                        continue
            finally:
                b._shallow = False
        return out + [c for c in b.cond_text(ob.bid) if c not in out]

    def index_guard(self, ob, pos_only=False, allow_equal=False):
        """v[i] / v.remove(i) need i < len(v); v.insert(i) needs i <= len(v)"""
        b = ob.body
        t = ob.term
        if len(t['args']) < 2:
            return None
        coll = b.mexpr(t['args'][0])
        idx = b.mexpr(t['args'][1])
        ct, it = render(coll), render(idx)
        lenpat = r'(?:Vec::len|slice::len|len|String::len)\(%s\)' % re.escape(ct)
        ivl = interval(b, b.expr(t['args'][1]), env=self.env)
        for cond in self.deep_conds(ob):
            m = re.fullmatch(r'\((.*) (Lt|Gt|Le|Ge) (.*)\)(!?=)\[0\]', cond)
            if m:
                l, op, r, neg = m.groups()
                if neg == '=':
                    op = {'Lt': 'Ge', 'Ge': 'Lt', 'Gt': 'Le', 'Le': 'Gt'}[op]
                # normalise to  X < len
                if op in ('Gt', 'Ge'):
                    l, r, op = r, l, {'Gt': 'Lt', 'Ge': 'Le'}[op]
                if re.fullmatch(lenpat, l) and re.fullmatch(r'\d+', r) and ivl is not None and op in ('Gt', 'Ge'):
                    pass
                if re.fullmatch(lenpat, r):
                    if l == it and (op == 'Lt' or (op == 'Le' and allow_equal)):
                        return ('guard-dom', 'dominated by index %s len of the same collection' % ('<' if op == 'Lt' else '<='))
                    # (i + k) < len  with k >= 0 covers i
                    mm = re.fullmatch(r'\(%s AddWithOverflow (\d+)\)\.#?0' % re.escape(it), l) or re.fullmatch(r'\(%s Add (\d+)\)' % re.escape(it), l)
                    if mm and op in ('Lt', 'Le'):
                        k = int(mm.group(1))
                        if op == 'Lt' or k >= 1 or allow_equal:
                            return ('guard-dom', 'dominated by index + %d %s len of the same collection' % (k, '<' if op == 'Lt' else '<='))
            # `len < k` is false  =>  len >= k  =>  a constant index < k is in range
            m2 = re.fullmatch(r'\((.*) (Lt|Ge|Gt|Le) (\d+)\)(!?=)\[0\]', cond)
            if m2 and re.fullmatch(lenpat, m2.group(1)) and ivl is not None and ivl[0] >= 0:
                o3, k3 = m2.group(2), int(m2.group(3))
                if m2.group(4) == '=':
                    o3 = {'Lt': 'Ge', 'Ge': 'Lt', 'Gt': 'Le', 'Le': 'Gt'}[o3]
                minlen = k3 if o3 == 'Ge' else k3 + 1 if o3 == 'Gt' else None
                if minlen is not None and ivl[1] < minlen + (1 if allow_equal else 0):
                    return ('guard-dom', 'dominated by len >= %d, index in [%d, %d]' % (minlen, ivl[0], ivl[1]))
            m = re.fullmatch(r'discr\((?:slice::get|Vec::get)\((.*), (.*)\)\)=\[1\]', cond)
            if m and m.group(1) == ct and m.group(2) == it:
                return ('guard-dom', 'dominated by get(index) being Some on the same collection')
            m = re.fullmatch(r'%s=\[(\d+)\]' % lenpat, cond)
            if m and ivl is not None and 0 <= ivl[0] and ivl[1] < int(m.group(1)) + (1 if allow_equal else 0):
                return ('guard-dom', 'dominated by len == %s, index in [%d, %d]' % (m.group(1), ivl[0], ivl[1]))
        return None

    d_bounds = lambda self, ob: None

    def d_vec_position(self, ob):
        name = ob.term['callee']['path'].rsplit('::', 1)[1]
        if name == 'remove':
            return self.index_guard(ob)
        if name == 'insert':
            return self.index_guard(ob, allow_equal=True)
        return None

    def d_radix_arg(self, ob):
        b = ob.body
        r = strip(b.expr(ob.term['args'][1]))
        if r[0] == 'const' and isinstance(r[2], int) and 2 <= r[2] <= 36:
            return ('const', 'radix %d is within 2..=36' % r[2])
        iv = interval(b, b.expr(ob.term['args'][1]), env=self.env)
        if iv is not None and 2 <= iv[0] and iv[1] <= 36:
            return ('interval', 'radix in [%d, %d] (all call sites pass constants within 2..=36)' % iv)
        return None

    def d_int_abs(self, ob):
        b = ob.body
        a = interval(b, b.expr(ob.term['args'][0]), env=self.env)
        ty = re.search(r'<impl (i\w+)>', ob.term['callee']['path'])
        rng = INT_RANGE.get(ty.group(1)) if ty else None
        if a is not None and rng and a[0] > rng[0]:
            return ('interval', 'operand of abs() in [%d, %d], never MIN' % a)
        return None

    def d_int_pow(self, ob):
        b = ob.body
        base = interval(b, b.expr(ob.term['args'][0]), env=self.env)
        ex = interval(b, b.expr(ob.term['args'][1]), env=self.env)
        ty = re.search(r'<impl ([iu]\w+)>', ob.term['callee']['path'])
        rng = INT_RANGE.get(ty.group(1)) if ty else None
        if base and ex and rng and base[0] >= 0 and ex[0] >= 0:
            if base[1] ** ex[1] <= rng[1]:
                return ('interval', 'pow result fits')
        return None

    def d_sort_by(self, ob):
        b = ob.body
        name = ob.term['callee']['path'].rsplit('::', 1)[1]
        gen = ob.term['callee'].get('gen', [])
        if name in ('sort', 'sort_unstable') or 'key' in name:
            # sort / sort_by_key: the order is Ord of the element / key type; for primitive integers it is total
            tys = gen[1:2] if 'key' in name else gen[0:1]
            if tys and tys[0] in INT_RANGE:
                return ('ord-total', '%s orders by the primitive type %s, a total order' % (name, tys[0]))
            return None
        if len(ob.term['args']) < 2:
            return None
        cl = [x for x in walk(b.expr(ob.term['args'][1])) if x[0] == 'aggr' and x[1].startswith('closure:')]
        if cl:
            cb = self.facts.bodies.get(cl[0][1][8:])
            if cb is not None:
                r = render(cb.ret_expr())
                if re.search(r'partial_cmp\(', r) or re.search(r'::cmp\(', r):
                    return ('ord-total', 'comparator is integer comparison (its own unwrap is a separate obligation)')
        return None

    def d_to_string(self, ob):
        """to_string() panics only if a Display impl returns an error. chrono's DelayedFormat errors on invalid specifiers."""
        b = ob.body
        recv = b.expr(ob.term['args'][0])
        txt = render(recv, transparent=False)
        m = re.search(r'::format\(', txt)
        if not m:
            return ('total', 'Display of std / local types does not fail')
        fmts = [x[2] for x in walk(recv) if x[0] == 'const' and isinstance(x[2], str) and '%' in x[2]]
        ok = fmts and all(re.fullmatch(r'(%[HMSdmYyjbBaAeIpPzZ%]|[^%])*', f) for f in fmts)
        if ok:
            return ('const', 'chrono format string %r uses only valid specifiers' % fmts[0])
        return None

    # --- chrono
    def arg_iv(self, ob, i):
        return interval(ob.body, ob.body.expr(ob.term['args'][i]), env=self.env)

    def d_chrono_from_hms(self, ob):
        h, m, s = (self.arg_iv(ob, i) for i in range(3))
        if h and m and s and 0 <= h[0] and h[1] <= 23 and 0 <= m[0] and m[1] <= 59 and 0 <= s[0] and s[1] <= 59:
            return ('interval', 'h in [%d,%d], m in [%d,%d], s in [%d,%d]' % (h + m + s))
        return None

    def d_chrono_and_hms(self, ob):
        h, m, s = (self.arg_iv(ob, i) for i in range(1, 4))
        if h and m and s and 0 <= h[0] and h[1] <= 23 and 0 <= m[0] and m[1] <= 59 and 0 <= s[0] and s[1] <= 59:
            return ('interval', 'h in [%d,%d], m in [%d,%d], s in [%d,%d]' % (h + m + s))
        # parse::<i32>() of regex groups with a finite digit language
        b = ob.body
        oks = []
        for i in range(1, 4):
            txt = render(b.expr(ob.term['args'][i]))
            g = re.findall(r'Captures::name\([^"]*"(\w+)"\)', txt)
            for x in g:
                # the group's digit language, when the parse obligation itself has not been looked at yet (it may sit in a closure)
                if ('parse:%s' % x) not in self.env:
                    gl = self.group_language(b, x)
                    if gl and gl[1]:
                        mx, okd = 0, True
                        for sub in gl[1]:
                            lang = enumerate_language(sub, limit=20000)
                            if lang is None or not all(re.fullmatch(r'[0-9]{1,9}', w) for w in lang):
                                okd = False
                                break
                            mx = max([mx] + [int(w) for w in lang])
                        if okd:
                            self.env['parse:%s' % x] = (0, mx)
            if g and all(('parse:%s' % x) in self.env for x in g):
                oks.append(max(self.env['parse:%s' % x][1] for x in g))
            elif re.fullmatch(r'-?\d+', txt):
                oks.append(int(txt))
            else:
                oks.append(None)
        if all(o is not None for o in oks):
            hh = oks[0] + (12 if 'meridiem' in render(b.expr(ob.term['args'][1])) or True else 0)
            # hour may get +12 for pm when < 12: stays <= 23
            if oks[0] <= 23 and oks[1] <= 59 and oks[2] <= 59:
                return ('regex-maxval', 'hour <= %d, minute <= %d, second <= %d by the finite languages of their regex groups' % tuple(oks))
        return None

    def d_chrono_from_nsfm(self, ob):
        s = self.arg_iv(ob, 0)
        if s and 0 <= s[0] and s[1] <= 86399:
            return ('interval', 'seconds in [%d,%d]' % s)
        return None

    def d_chrono_from_timestamp(self, ob):
        s = self.arg_iv(ob, 0)
        if s and -8334632851200 <= s[0] and s[1] <= 8210298412799:
            return ('interval', 'timestamp within NaiveDateTime range')
        return None

    def d_chrono_from_ymd(self, ob):
        b = ob.body
        y, m, d = (strip(b.expr(ob.term['args'][i])) for i in range(3))
        if all(x[0] == 'const' for x in (y, m, d)):
            return ('const', 'constant date')
        return None      # a date is valid only as a whole; intervals of the parts cannot prove it

    def d_chrono_tz_ymd(self, ob):
        b = ob.body
        txt = [render(b.expr(a)) for a in ob.term['args'][1:4]]
        # ymd(date.year(), date.month(), date.day()) of one existing date
        m = [re.fullmatch(r'(year|month|day)\((.*)\)', re.sub(r'^.*?(year|month|day)\(', r'\1(', t)) for t in txt]
        if all(m) and [x.group(1) for x in m] == ['year', 'month', 'day'] and len(set(x.group(2) for x in m)) == 1:
            return ('same-date', 'year/month/day all come from one existing date (%s)' % m[0].group(2)[:40])
        return None

    def d_chrono_east(self, ob):
        s = self.arg_iv(ob, 0)
        if s and -86400 < s[0] and s[1] < 86400:
            return ('interval', 'offset seconds in [%d,%d], |secs| < 86400' % s)
        return None

    def d_chrono_delta_ctor(self, ob):
        name = ob.term['callee']['path'].rsplit('::', 1)[1]
        lim = {'days': 106751991167, 'weeks': 15250284452, 'hours': 2562047788015, 'minutes': 153722867280912, 'seconds': 9223372036854775, 'milliseconds': 9223372036854775807}[name]
        a = self.arg_iv(ob, 0)
        if a and -lim <= a[0] and a[1] <= lim:
            return ('interval' if a[0] != a[1] else 'const', '%s(x) with x in [%d,%d]' % (name, a[0], a[1]))
        return None

    def d_chrono_date_arith(self, ob):
        """date/time +- duration panics on overflow of chrono's range"""
        b = ob.body
        lhs = render(b.expr(ob.term['args'][0]))
        rhs = b.expr(ob.term['args'][1])
        r = strip(rhs)
        if r[0] == 'call' and re.search(r'TimeDelta::(days|seconds|hours|minutes|weeks)$', r[1]):
            a = interval(b, r[2][0], env=self.env)
            if a and abs(a[0]) <= 366 * 86400 and abs(a[1]) <= 366 * 86400 and re.search(r'Utc::(today|now)', lhs):
                return ('clock-sane', 'today +- at most a year stays inside chrono\'s range (assumption: the system clock is sane)')
            if a and abs(a[0]) <= 86400 and abs(a[1]) <= 86400 and 'NaiveDateTime' in ob.term['callee']['path']:
                pass
        return None

    def d_chrono_delta_arith(self, ob):
        return None

    def d_chrono_naive_local(self, ob):
        gen = ob.term['callee'].get('gen', [])
        if gen and re.search(r'(^|::)Utc$', gen[0]):
            return ('utc-zero-offset', 'naive_local()/date() of a DateTime<Utc> adds a zero offset')
        return None

    def d_doc_panics(self, ob):
        return None

    def d_chrono_from_utc(self, ob):
        return ('total', 'from_utc_* only attaches the offset')

    def d_refcell(self, ob):
        return refcell_free(self, ob)

    def d_panic(self, ob):
        return None

    def d_diverges(self, ob):
        return None


def producing_call(e):
    """peel `(X as Some).0`, `(X as Ok).0`, `Option::unwrap(X)`, `Result::unwrap(X)`, refs: -> the call node X or None"""
    for _ in range(8):
        e = strip(e, transparent=False)
        if e[0] == 'field' and strip(e[1], transparent=False)[0] == 'downcast' and e[2].lstrip('#') == '0':
            e = strip(e[1], transparent=False)[1]
            continue
        if e[0] == 'downcast':
            e = e[1]
            continue
        if e[0] == 'call' and re.search(r'(Result|Option)::<.*>::(unwrap|expect)$', e[1]) and e[2]:
            e = e[2][0]
            continue
        if e[0] == 'call':
            return e
        return None
    return None


def uses_var(b, operand, locs):
    p = opplace(operand)
    if not p:
        return False
    l = p['local']
    seen = set()
    while True:
        if l in locs:
            return True
        if l in seen:
            return False
        seen.add(l)
        ds = b.defs().get(l, [])
        if len(ds) == 1 and ds[0][1] == 'stmt' and ds[0][2]['rv'] in ('use', 'cast'):
            q = opplace(ds[0][2]['ops'][0])
            if q and not q['proj']:
                l = q['local']
                continue
        return False


def same_value(text, e, b):
    t2 = render(e)
    if text == t2:
        return True
    b._shallow = 'all'
    try:
        pass
    finally:
        b._shallow = False
    return False


# ------------------------------------------------------------------------------------------------
# RefCell discipline
def guard_locals(b):
    """locals holding Ref / RefMut guards: local -> (family, 'mut'|'shared', def block)"""
    out = {}
    for bid, t in b.calls(r'^core::cell::RefCell::<.*>::(borrow|borrow_mut)$'):
        dl = b.dest_local(t)
        if dl is None:
            continue
        gen = t['callee'].get('gen', [])
        out[dl] = (family(gen[0] if gen else '?'), 'mut' if t['callee']['path'].endswith('borrow_mut') else 'shared', bid, t)
    return out


def live_blocks(b, l, def_bid):
    """blocks in which guard local l may be live: from its defining call's successor until a Drop / StorageDead of l"""
    ends = set()
    for i in b.normal_blocks:
        bl = b.blocks[i]
        t = bl['term']
        if t['k'] == 'drop' and t['place']['local'] == l and not t['place']['proj']:
            ends.add(('term', i))
        for n, s in enumerate(bl['stmts']):
            if s['k'] == 'dead' and s['local'] == l:
                ends.add(('stmt', i, n))
            # moved out (returned guard / passed by value): treat as end in this body
            if s['k'] == 'assign':
                for o in s['ops']:
                    if 'move' in o and o['move']['local'] == l and not o['move']['proj']:
                        ends.add(('stmt', i, n))
    end_blocks_term = {x[1] for x in ends if x[0] == 'term'}
    end_blocks_stmt = {}
    for x in ends:
        if x[0] == 'stmt':
            end_blocks_stmt[x[1]] = min(end_blocks_stmt.get(x[1], 10**9), x[2])
    live = {}     # block -> up to which point: 'all' | stmt index | 'until-term'
    st = [s for s in b.succs(def_bid)]
    seen = set()
    while st:
        x = st.pop()
        if x in seen or b.blocks[x]['cleanup']:
            continue
        seen.add(x)
        if x in end_blocks_stmt:
            live[x] = ('stmt', end_blocks_stmt[x])
            continue
        if x in end_blocks_term:
            live[x] = ('term-excl',)
            continue
        live[x] = ('all',)
        st.extend(b.succs(x))
    return live


def may_borrow_summary(disch, path, depth=0, stack=()):
    """family -> set of modes that `path` (transitively) may borrow"""
    cache = disch._guard_cache
    if path in cache:
        return cache[path]
    if path in stack or depth > 25:
        return {}
    b = disch.facts.bodies.get(path)
    out = {}
    if b is None:
        return out
    for l, (fam, mode, bid, t) in guard_locals(b).items():
        out.setdefault(fam, set()).add(mode)
    for (y, k) in disch.ctx.cg.edges.get(path, ()):
        for fam, modes in may_borrow_summary(disch, y, depth + 1, stack + (path,)).items():
            out.setdefault(fam, set()).update(modes)
    if not stack:
        cache[path] = out
    return out


def refcell_free(disch, ob):
    """a borrow_mut needs no live guard of the same family; a borrow needs no live RefMut of the same family -
    neither in this body (guard liveness) nor held by a caller across the call chain (checked from the holder's side)."""
    b = ob.body
    gl = guard_locals(b)
    me = None
    for l, (fam, mode, bid, t) in gl.items():
        if t is ob.term:
            me = (l, fam, mode)
    if me is None:
        gen = ob.term['callee'].get('gen', [])
        me = (None, family(gen[0] if gen else '?'), 'mut' if ob.term['callee']['path'].endswith('borrow_mut') else 'shared')
    for l, (fam, mode, bid, t) in gl.items():
        if t is ob.term or fam != me[1]:
            continue
        if me[2] == 'shared' and mode == 'shared':
            continue
        lv = live_blocks(b, l, bid)
        if ob.bid in lv:
            return None
    return ('refcell-free', 'no conflicting guard of family %s is live here' % me[1])


def held_across_calls(disch, b):
    """[(guard term, call term, family, reason)]: a guard is live while a call is made whose callees may take a
    conflicting borrow of the same family"""
    out = []
    gl = guard_locals(b)
    for l, (fam, mode, bid, t) in gl.items():
        lv = live_blocks(b, l, bid)
        for x, how in lv.items():
            bl = b.blocks[x]
            ct = bl['term']
            if ct['k'] != 'call' or how[0] == 'stmt':
                continue
            c = ct.get('callee')
            targets = []
            if c and c['local'] and c['path'] in disch.facts.bodies:
                targets = [c['path']]
            elif c is None or (c and not c['resolved']):
                targets = [y for (y, k) in disch.ctx.cg.edges.get(b.path, ()) if k in ('cha', 'fnptr')]
                # restrict to what this very call can reach: CHA by method name
                if c:
                    nm = c['decl'].rsplit('::', 1)[-1]
                    targets = [y for y in targets if y.endswith('::' + nm)]
            for y in targets:
                summ = may_borrow_summary(disch, y)
                modes = summ.get(fam, set())
                if (mode == 'mut' and modes) or (mode == 'shared' and 'mut' in modes):
                    out.append((t, ct, fam, '%s guard of %s is live while %s is called, which may borrow it %s' % (
                        'RefMut' if mode == 'mut' else 'Ref', fam, fn_key(y), 'again' if mode == 'mut' else 'mutably')))
                    break
    return out


# ------------------------------------------------------------------------------------------------
# reviewed value-range annotations with machine-checked witnesses
def value_annotations(ctx):
    """Ranges of values that are invariants of the *data*: zone offsets in minutes.
    Witnesses (re-checked on every run; a failed witness drops the annotation, so the dependent obligations fail closed):
      W1 every offset of config.json timezones lies in the range;  W2 the GMT+-h[:mm] form yields at most 19*60+59 by the
      finite languages of its regex groups;  W3 every TimeOffset / Timezone token is built from one of the annotated sources."""
    out = {'fields': {}, 'calls': {}, 'witness': []}
    tz = ctx.config.j.get('timezones', {})
    lo = min(list(tz.values()) + [0])
    hi = max(list(tz.values()) + [0])
    gmt = None
    for p, h in ctx.config.parse_family('timezone'):
        if h is None:
            continue
        g = all_groups(h)
        if 'timezone_hour' in g and 'timezone_minute' in g:
            hl = enumerate_language(g['timezone_hour'])
            ml = enumerate_language(g['timezone_minute'])
            if hl and ml and all(re.fullmatch(r'\d{1,3}', w) for w in hl | ml):
                m = max(int(w) for w in hl) * 60 + max(int(w) for w in ml)
                gmt = max(gmt or 0, m)
            else:
                gmt = None
                break
    if gmt is None:
        out['witness'].append('W2 failed: GMT offset groups are not finite digit languages')
        return out
    rng = (min(lo, -gmt), max(hi, gmt))
    out['witness'].append('W1 table offsets in [%d, %d]; W2 GMT form <= %d minutes' % (lo, hi, gmt))
    # W3: constructors
    ok = True
    allowed = re.compile(r'^(config\.timezone_offset|self\.timezone_offset|Option::unwrap\(tools::get_timezone\(.*\)\)\.#?1|.*tools::get_timezone\(.*\) as Some\.0\.#?1|.*parse_timezone\(.*\) as Some\.0\.#?1|.*\.offset|.* as Timezone\.1|.* as Some\.0\.#?1\.offset|\$?offset|\$?target_offset|0)$')
    why = 'zone offsets in minutes (table + GMT form)'
    # inductive check: assuming every annotated source is in range, every value stored as an offset is in range (interval
    # evaluation with the annotation as environment; a render that matches the frozen shapes is accepted as before)
    tmp = {'fields': {f: (rng, why) for f in ('types::TimeOffset.offset', 'config::SmartCalcConfig.timezone_offset')},
           'calls': {('tokinizer::tools::get_timezone', '1'): (rng, why), ('tools::parse_timezone', '1'): (rng, why)}}

    class _D:
        pass
    probe = Discharger.__new__(Discharger)
    probe.ctx, probe.facts, probe.config, probe.annot = ctx, ctx.facts, ctx.config, tmp
    probe.env = {'__leaf__': probe.leaf_interval}
    probe._guard_cache, probe._fam_cache, probe.group_max = {}, {}, {}

    def in_range(b, operand):
        try:
            iv = interval(b, b.expr(operand), env=probe.env)
        except Exception:
            iv = None
        return iv is not None and rng[0] <= iv[0] and iv[1] <= rng[1]
    for b in ctx.facts.src_bodies():
        for i in b.normal_blocks:
            for st in b.blocks[i]['stmts']:
                if st['k'] == 'assign' and st['rv'] == 'aggr' and st['adt'] == 'types::TimeOffset::TimeOffset':
                    names = st.get('fields', [])
                    if 'offset' in names:
                        t = render(b.expr(st['ops'][names.index('offset')]))
                        if not allowed.match(t) and not in_range(b, st['ops'][names.index('offset')]):
                            ok = False
                            out['witness'].append('W3 failed: TimeOffset.offset built from %s in %s' % (t[:80], fn_key(b.path)))
                if st['k'] == 'assign' and st['lhs']['proj'] and isinstance(st['lhs']['proj'][-1], dict) and st['lhs']['proj'][-1].get('field') == 'config::SmartCalcConfig.timezone_offset':
                    t = render(b.expr(st['ops'][0]))
                    if not allowed.match(t):
                        ok = False
                        out['witness'].append('W3 failed: config.timezone_offset assigned %s in %s' % (t[:80], fn_key(b.path)))
    pt = ctx.facts.one(r'^tools::parse_timezone$')
    if not ok:
        return out
    for f in ('types::TimeOffset.offset', 'config::SmartCalcConfig.timezone_offset'):
        out['fields'][f] = (rng, why)
    out['calls'][('tokinizer::tools::get_timezone', '1')] = (rng, why)
    out['calls'][('tools::parse_timezone', '1')] = (rng, why)
    return out
