"""E6b - tabulation of extracted value DAGs over small finite leaf domains.

A gated use-def expression (facts.Body.expr) whose leaves range over a small finite set (a month 1..12, a count 1..12,
a sign, an hour 0..23) is a *term*; this module evaluates such a term for given leaf values with Rust's integer
semantics (truncating division, wrapping casts) and resolves gamma/phi nodes by evaluating the branch predicates that
select them. Nothing of smartcalc is executed: the input is the DAG, the output a decision table that rules compare with
the table quoted from the property statement. Anything the evaluator does not understand yields None (= not extractable,
the caller fails closed)."""
import re

from .facts import strip, phi_branch_conditions

BITS = {'i8': 8, 'i16': 16, 'i32': 32, 'i64': 64, 'isize': 64, 'i128': 128, 'u8': 8, 'u16': 16, 'u32': 32, 'u64': 64, 'usize': 64, 'u128': 128}


def wrap(v, ty):
    n = BITS.get(ty)
    if n is None or not isinstance(v, int):
        return v
    v &= (1 << n) - 1
    if ty.startswith('i') and v >= 1 << (n - 1):
        v -= 1 << n
    return v


def tdiv(a, b):
    q = abs(a) // abs(b)
    return q if (a >= 0) == (b >= 0) else -q


def fdiv(a, b):
    """IEEE-754 binary64 division (Python raises on a zero divisor)"""
    import math
    if math.isnan(a) or math.isnan(b):
        return math.nan
    if b == 0.0:
        if a == 0.0:
            return math.nan
        neg = (math.copysign(1.0, a) < 0) != (math.copysign(1.0, b) < 0)
        return -math.inf if neg else math.inf
    try:
        return a / b
    except OverflowError:
        return math.inf if (a > 0) == (b > 0) else -math.inf


class Unknown(Exception):
    pass


class Multi(Unknown):
    """a merged value with several feasible definitions: the values it may have (a comparison that comes out the same for
    all of them is still decided)"""
    def __init__(self, values):
        Unknown.__init__(self, 'phi with %d feasible values' % len(values))
        self.values = values


def ev(body, e, leaf, depth=0):
    """value of expression e; `leaf(body, e)` may return a value for any node (checked first), or None"""
    if depth > 200:
        raise Unknown('depth')
    r = leaf(body, e)
    if r is not None:
        return r
    k = e[0]
    rec = lambda x: ev(body, x, leaf, depth + 1)
    if k == 'const':
        v = e[2]
        if isinstance(v, bool):
            return int(v)
        if e[1] == 'char' and isinstance(v, str) and len(v) == 1:
            return ord(v)             # a switch on a char compares scalar values
        if isinstance(v, (int, float, str)):
            return v
        raise Unknown('const %r' % (e[3],))
    if k in ('ref', 'deref'):
        return rec(e[1])
    if k == 'cast':
        v = rec(e[3])
        to = e[2]
        if isinstance(v, float) and to in BITS:
            lo = -(1 << (BITS[to] - 1)) if to.startswith('i') else 0
            hi = (1 << (BITS[to] - (1 if to.startswith('i') else 0))) - 1
            if v != v:
                return 0
            return max(lo, min(hi, int(v)))
        if isinstance(v, int) and to in ('f64', 'f32'):
            return float(v)
        if isinstance(v, int):
            return wrap(v, to)
        return v
    if k == 'field':
        base = e[1]
        if base[0] == 'binop' and base[1].endswith('WithOverflow'):
            v = rec(('binop', base[1][:-len('WithOverflow')], base[2], base[3]))
            return v if e[2].lstrip('#') == '0' else 0
        v = rec(base)
        if isinstance(v, tuple) and v and v[0] == 'tuple':
            idx = int(e[2].lstrip('#'))
            if v[1][idx] is None:
                raise Unknown('tuple component')
            return v[1][idx]
        if isinstance(v, dict):
            if e[2] in v:
                return v[e[2]]
            if base[0] == 'downcast' and base[2] in ('Some', 'Ok') and str(e[2]).lstrip('#') == '0':
                return v           # Some(x) evaluates to x itself: its payload is the same value
            raise Unknown('field %s' % e[2])
        return v
    if k == 'downcast':
        return rec(e[1])
    if k == 'aggr':
        if e[1] == 'tuple':
            vals = []
            for a in e[2]:          # a component that is not a term of the domain (a Duration, a String) stays unknown
                try:
                    vals.append(rec(a))
                except Unknown:
                    vals.append(None)
            return ('tuple', vals)
        if e[1].endswith('Option::Some') and e[2]:
            return rec(e[2][0])
        owner, _, vname = str(e[1]).rpartition('::')
        adt = body.facts.adts.get(owner)
        if adt and adt.get('kind') == 'enum' and not owner.startswith(('core::', 'alloc::')):
            for vv in adt['variants']:
                if vv['name'] == vname and isinstance(vv.get('discr'), int):
                    d = {'__discr__': vv['discr']}          # a variant of a crate-local enum built in place
                    for i, a in enumerate(e[2]):
                        try:
                            d[str(i)] = rec(a)
                        except Unknown:
                            d[str(i)] = None
                    return d
        if adt and adt.get('kind') == 'struct' and not owner.startswith(('core::', 'alloc::')) and len(adt.get('variants', [])) == 1:
            d = {}                                   # a crate-local struct / newtype built in place: its fields by position and name
            names = [f_['name'] for f_ in adt['variants'][0].get('fields', [])]
            for i, a in enumerate(e[2]):
                try:
                    v_ = rec(a)
                except Unknown:
                    v_ = None
                d[str(i)] = v_
                if i < len(names):
                    d[names[i]] = v_
            return d
        raise Unknown('aggr %s' % e[1])
    if k == 'binop':
        op = e[1].replace('Unchecked', '')
        try:
            a = rec(e[2])
            As = None
        except Multi as m:
            As = m.values
        try:
            b = rec(e[3])
            Bs = None
        except Multi as m:
            Bs = m.values
        if As is not None or Bs is not None:
            res = []
            for x in (As if As is not None else [a]):
                for y in (Bs if Bs is not None else [b]):
                    lf = lambda bb, ee, x=x, y=y: x if ee is e[2] else (y if ee is e[3] else leaf(bb, ee))
                    v = ev(body, ('binop', e[1], e[2], e[3]), lf, depth + 1) if False else None
                    # evaluate the operator on the two concrete operands
                    v = ev(body, ('binop', e[1], ('const', '', x, ''), ('const', '', y, '')), leaf, depth + 1)
                    if v not in res:
                        res.append(v)
            if len(res) == 1:
                return res[0]
            raise Multi(res)
        if not isinstance(a, (int, float)) or not isinstance(b, (int, float)):
            raise Unknown('binop operands')
        if op == 'Add':
            return a + b
        if op == 'Sub':
            return a - b
        if op == 'Mul':
            return a * b
        if op == 'Div':
            if isinstance(a, float) or isinstance(b, float):
                return fdiv(float(a), float(b))
            if b == 0:
                raise Unknown('div0')
            return tdiv(a, b)
        if op == 'Rem':
            if b == 0:
                raise Unknown('rem0')
            return a - b * tdiv(a, b) if isinstance(a, int) and isinstance(b, int) else None
        if op == 'Lt':
            return int(a < b)
        if op == 'Le':
            return int(a <= b)
        if op == 'Gt':
            return int(a > b)
        if op == 'Ge':
            return int(a >= b)
        if op == 'Eq':
            return int(a == b)
        if op == 'Ne':
            return int(a != b)
        raise Unknown('binop %s' % op)
    if k == 'unop':
        a = rec(e[2])
        if e[1] == 'Neg':
            return -a
        if e[1] == 'Not':
            return 1 - a if a in (0, 1) else ~a
        raise Unknown('unop %s' % e[1])
    if k == 'phi':
        b2 = body.facts.bodies.get(e[5], body) if len(e) > 5 and e[5] else body
        sub = e[6] if len(e) > 6 else None
        feasible = []

        def holds(d, v):
            """True / False / None (unknown) for one branch decision"""
            if sub is not None:
                from .facts import subst_args
                d = subst_args(d, sub)
            from .facts import norm_cond
            d, v = norm_cond(d, v)       # `?` / ok() / map() wrappers: the decision on the underlying Option / Result
            try:
                dv = ev(body, d, leaf, depth + 1)
            except Unknown:
                return None
            if dv is None or not isinstance(dv, int):
                return None
            if isinstance(v, tuple):
                return dv not in v[1]
            return dv in v
        for br, where in zip(e[2], e[4]):
            dnf = None
            if not (isinstance(where, tuple) and where and where[0] == 'cond'):
                dnf = b2.path_dnf(where) if not b2.loops() else b2.branch_dnf(where)
            if dnf is None:
                dnf = [phi_branch_conditions(b2, where)]
            # the branch is infeasible only when every path to it has a decision known to be false
            if any(all(holds(d, v) is not False for (_, d, v) in conj) for conj in dnf):
                feasible.append(br)
        vals = []
        for br in feasible:
            if br[0] == 'loop':
                continue
            vals.append(rec(br))
        uniq = []
        for v in vals:
            if v not in uniq:
                uniq.append(v)
        if len(uniq) == 1:
            return uniq[0]
        raise Multi(uniq)
    if k == 'discr':
        x = e[1]
        while x[0] in ('ref', 'deref'):
            x = x[1]
        if x[0] == 'phi':                  # discriminant of a merged value: the discriminant of the branch taken
            return ev(body, ('phi', x[1], [('discr', br) for br in x[2]]) + tuple(x[3:]), leaf, depth + 1)
        if x[0] == 'aggr':
            tail = '::'.join(str(x[1]).split('::')[-2:])
            if tail in ('Option::None', 'Option::Some', 'Result::Ok', 'Result::Err'):
                return {'Option::None': 0, 'Option::Some': 1, 'Result::Ok': 0, 'Result::Err': 1}[tail]
            adt = body.facts.adts.get(str(x[1]).rsplit('::', 1)[0])
            if adt:
                for vv in adt['variants']:
                    if vv['name'] == str(x[1]).rsplit('::', 1)[1]:
                        return vv['discr']
        v = rec(e[1])
        if isinstance(v, dict) and '__discr__' in v:
            return v['__discr__']
        raise Unknown('discr')
    if k == 'call':
        path = e[1]
        if re.search(r'::abs$', path) and e[2]:
            return abs(rec(e[2][0]))
        mq = re.search(r'(Option)::<.*>::(is_some|is_none)$|(Result)::<.*>::(is_ok|is_err)$', path)
        if mq and e[2]:
            dv = ev(body, ('discr', e[2][0]), leaf, depth + 1)          # the question is the discriminant
            if isinstance(dv, int):
                how = mq.group(2) or mq.group(4)
                return int(dv == {'is_some': 1, 'is_none': 0, 'is_ok': 0, 'is_err': 1}[how])
        m = re.search(r'ops::(?:arith::)?(Add|Sub|Mul|Div|Rem)(?:<[^>]*>)?>::(add|sub|mul|div|rem)$', path)
        if m and len(e[2]) == 2:
            return ev(body, ('binop', m.group(1), e[2][0], e[2][1]), leaf, depth + 1)
        if re.search(r'ops::(?:arith::)?Neg>::neg$', path) and e[2]:
            return -rec(e[2][0])
        if re.search(r'f64>?::copysign$|::copysign$', path) and len(e[2]) == 2:
            import math
            return math.copysign(rec(e[2][0]), rec(e[2][1]))
        m = re.search(r'f64>?::(is_infinite|is_nan|is_finite)$', path)
        if m and e[2]:
            import math
            v = rec(e[2][0])
            if not isinstance(v, (int, float)):
                raise Unknown('classify operand')
            return int({'is_infinite': math.isinf, 'is_nan': math.isnan, 'is_finite': math.isfinite}[m.group(1)](float(v)))
        if re.search(r'f64>?::(round|trunc|floor|ceil)$', path) and e[2]:
            import math
            v = rec(e[2][0])
            return float({'round': lambda x: math.floor(abs(x) + 0.5) * (1 if x >= 0 else -1), 'trunc': math.trunc, 'floor': math.floor, 'ceil': math.ceil}[path.rsplit('::', 1)[1]](v))
        if re.search(r'(Into<.*>>::into|From<.*>>::from|::clone|Deref>::deref|::borrow|::to_owned)$', path) and e[2]:
            return rec(e[2][0])
        if re.search(r'Option::<.*>::unwrap$|Result::<.*>::unwrap$', path) and e[2]:
            return rec(e[2][0])
        from .facts import inlinable, subst_args
        hb = inlinable(body.facts, path)
        if hb is not None and len(e[2]) == hb.argc and depth < 150:
            # a crate-local loop-free function (an accessor such as Session::line_count): its value is its return term
            return ev(body, subst_args(hb.ret_expr(), list(e[2])), leaf, depth + 1)
        raise Unknown('call %s' % path)
    raise Unknown(k)


def try_ev(body, e, leaf):
    try:
        return ev(body, e, leaf)
    except Unknown as ex:
        return None
    except (TypeError, ValueError, ZeroDivisionError):
        return None


def walk_cfg(body, leaf, watch=None, max_steps=400):
    """Follow the one path of a loop-free body that the given leaf values select: switch discriminants and asserts are
    evaluated as terms (ev) with `leaf`. Returns {'calls': [(callee path, [arg values or None], loc)] for calls matching
    `watch`, 'ret': statement that last assigned the return slot on the path (or None), 'ok': False when a discriminant
    could not be evaluated}. Nothing is executed: calls are leaves."""
    import re as _re
    cur = 0
    calls = []
    ret = None
    seen = set()
    last = {}                  # local -> the statement / call that assigned it last on this path (whole-local assignments)
    for _ in range(max_steps):
        if cur in seen:
            return {'calls': calls, 'ret': ret, 'ok': False, 'why': 'cycle', 'last': last}
        seen.add(cur)
        bl = body.blocks[cur]
        for st in bl['stmts']:
            if st['k'] == 'assign' and not st['lhs']['proj']:
                last[st['lhs']['local']] = st
            if st['k'] == 'assign' and st['lhs']['local'] == 0 and not st['lhs']['proj']:
                ret = st
        t = bl['term']
        k = t['k']
        if k == 'call':
            c = t.get('callee')
            if c and watch and _re.search(watch, c['path']):
                vals = []
                for a in t['args']:
                    vals.append(try_ev(body, body.expr(a), leaf))
                calls.append((c['path'], vals, t['loc']))
            if not t['dest']['proj']:
                last[t['dest']['local']] = t
            if not t['dest']['proj'] and t['dest']['local'] == 0:
                ret = t
            if t.get('target', -1) is None or t.get('target', -1) < 0:
                return {'calls': calls, 'ret': ret, 'ok': True, 'diverged': True}
            cur = t['target']
        elif k in ('goto', 'drop', 'assert'):
            cur = t['target']
        elif k == 'switch':
            v = try_ev(body, body.expr(t['discr']), leaf)
            if isinstance(v, dict):
                v = v.get('__discr__')
            if not isinstance(v, int):
                return {'calls': calls, 'ret': ret, 'ok': False, 'why': 'switch at bb%d not evaluable' % cur}
            nxt = t['otherwise']
            for val, tgt in t['vals']:
                if val == v:
                    nxt = tgt
            cur = nxt
        elif k == 'return':
            return {'calls': calls, 'ret': ret, 'ok': True, 'last': last}
        else:
            return {'calls': calls, 'ret': ret, 'ok': False, 'why': k}
    return {'calls': calls, 'ret': ret, 'ok': False, 'why': 'steps'}


def feasible_values(body, e, leaf, limit=256):
    """values the term `e` can take under the leaf assignment: its top-level alternatives (gamma expansion) whose branch
    decisions are not known to be false, each evaluated with ev. Returns [(value or None when not evaluable, alternative)]."""
    from .facts import alternatives
    out = []
    for a, conds in alternatives(body, e, limit):
        ok = True
        for d, v in conds:
            dv = try_ev(body, d, leaf)
            if isinstance(dv, dict):
                dv = dv.get('__discr__')
            if not isinstance(dv, int) or isinstance(dv, bool) and False:
                continue
            if isinstance(v, tuple):
                if dv in v[1]:
                    ok = False
                    break
            elif dv not in v:
                ok = False
                break
        if ok:
            out.append((try_ev(body, a, leaf), a))
    return out


def feasible_alternatives(body, e, leaf, max_depth=16):
    """Like feasible_values, but a branch of a merged value is judged by its *path condition relative to the merge*
    (Body.branch_dnf / path_dnf: a disjunction over the paths, so an or-pattern arm `"a" | "b" => X` is infeasible exactly when
    both tests fail) instead of by the conjunction that dominates it. Returns [(value or None, alternative expression)]."""
    from .facts import _spine_phi, _replace_spine, _phi_key, subst_args, norm_cond
    out = []

    def holds(b2, sub, d, v):
        if sub is not None:
            d = subst_args(d, sub)
        d, v = norm_cond(d, v)
        dv = try_ev(body, d, leaf)
        if isinstance(dv, dict):
            dv = dv.get('__discr__')
        if dv is None or not isinstance(dv, int):
            return None
        return (dv not in v[1]) if isinstance(v, tuple) else (dv in v)

    def rec(x, depth):
        ph = _spine_phi(x)
        if ph is None or depth > max_depth:
            out.append((try_ev(body, x, leaf), x))
            return
        b2 = body.facts.bodies.get(ph[5], body) if len(ph) > 5 and ph[5] else body
        sub = ph[6] if len(ph) > 6 else None
        key = _phi_key(ph)
        for k, (br, where) in enumerate(zip(ph[2], ph[4])):
            if br[0] == 'loop':
                continue
            dnf = None
            if not (isinstance(where, tuple) and where and where[0] == 'cond'):
                dnf = b2.path_dnf(where) if not b2.loops() else b2.branch_dnf(where)
            if dnf is None:
                dnf = [phi_branch_conditions(b2, where)]
            if any(all(holds(b2, sub, d, v) is not False for (_, d, v) in conj) for conj in dnf):
                rec(_replace_spine(x, key, k), depth + 1)
    rec(e, 0)
    return out
