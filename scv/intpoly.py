"""Integer expressions as polynomials with floor-division / remainder symbols, normalised with the
identity  a = (a div b) * b + (a mod b).  Used for duration arithmetic (C10) and date arithmetic (C09).
Normalisation of extracted expressions only; nothing is executed."""
import re
from fractions import Fraction

from .ratfun import Poly
from .facts import strip, render


class NotInteger(Exception):
    pass


class IntNorm:
    def __init__(self, leaf):
        self.leaf = leaf            # expr -> symbol name or None
        self.divs = {}              # (sym text of a, b) -> (div symbol, rem symbol, Poly of a)

    def poly(self, e, depth=0):
        e = strip(e)
        if depth > 80:
            raise NotInteger('too deep')
        s = self.leaf(e)
        if s is not None:
            return Poly.sym(s)
        k = e[0]
        if k == 'const':
            if isinstance(e[2], bool) or not isinstance(e[2], (int, float)):
                raise NotInteger('constant %s' % e[3])
            return Poly.const(Fraction(e[2]))
        if k == 'field' and e[2] in ('#0', '0') and e[1][0] == 'binop' and e[1][1].endswith('WithOverflow'):
            b = e[1]
            return self.poly(('binop', b[1][:-len('WithOverflow')], b[2], b[3]), depth + 1)
        if k == 'cast' and re.match(r'^(Int|Float)', e[1]) and re.match(r'^[iu](8|16|32|64|128|size)$', e[2]):
            return self.poly(e[3], depth + 1)
        if k == 'binop':
            op = e[1]
            if op in ('Add', 'Sub', 'Mul', 'AddUnchecked', 'SubUnchecked', 'MulUnchecked'):
                a, b = self.poly(e[2], depth + 1), self.poly(e[3], depth + 1)
                return a + b if op.startswith('Add') else a - b if op.startswith('Sub') else a * b
            if op in ('Div', 'Rem'):
                a = self.poly(e[2], depth + 1)
                bp = self.poly(e[3], depth + 1)
                if list(bp.t.keys()) != [()]:
                    raise NotInteger('division by a non-constant')
                b = bp.t[()]
                key = (repr(a), b)
                if key not in self.divs:
                    n = len(self.divs)
                    self.divs[key] = ('div%d' % n, 'rem%d' % n, a)
                d, r, _ = self.divs[key]
                return Poly.sym(d if op == 'Div' else r)
            raise NotInteger('operator %s' % op)
        if k == 'unop' and e[1] == 'Neg':
            return -self.poly(e[2], depth + 1)
        if k == 'call' and re.search(r'::abs$', e[1]):
            # |x| as its own symbol
            return Poly.sym('abs(%s)' % render(e[2][0]))
        raise NotInteger('node %s: %s' % (k, render(e)[:60]))

    def normalise(self, p):
        """apply a = b*div(a,b) + rem(a,b) wherever both symbols occur linearly with matching coefficients"""
        changed = True
        while changed:
            changed = False
            for (atext, b), (d, r, ap) in list(self.divs.items()):
                kd, kr = ((d, 1),), ((r, 1),)
                cd, cr = p.t.get(kd, 0), p.t.get(kr, 0)
                if cd != 0 and cr != 0 and cd == cr * b:
                    t = dict(p.t)
                    del t[kd]
                    del t[kr]
                    p = Poly(t) + ap * Poly.const(cr)
                    changed = True
        return p

    def describe(self, p):
        names = {}
        for (atext, b), (d, r, ap) in self.divs.items():
            names[d] = '(%r div %s)' % (ap, b)
            names[r] = '(%r mod %s)' % (ap, b)
        s = repr(p)
        for k in sorted(names, key=len, reverse=True):
            s = s.replace(k, names[k])
        return s
