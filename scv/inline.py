"""E0b - helper splicing ("extract method" made transparent).

The rules of this checker are anchored on the functions of the reference tree (scv/tables/functions.txt: every function
path of /repo at the commit the rules were confirmed on). A function of the *current* tree that is not in that inventory
is a candidate helper: when it is only ever used through resolved direct calls (no fn pointer, no trait dispatch, not
recursive), its exported MIR is spliced into each calling body - blocks and locals renumbered, arguments assigned to the
parameter locals, every `return` replaced by an assignment to the call's destination and a jump to the call's target -
and the helper body itself is dropped from the fact base. Every rule then sees the code as if the helper had been
written inline: the same CFG paths, use-def chains and call sites, once per call site.

This is a syntactic transformation of the exported IR (what rustc's own MIR inliner does, restricted to functions the
reference tree does not know); nothing is executed. On the reference tree the set of candidates is empty and the fact base
is untouched. A helper that cannot be spliced (recursive, used as a value, a trait method) stays a function of its own
and the rules treat it like any other callee.
"""
import copy
import os

HERE = os.path.dirname(os.path.abspath(__file__))
REF = os.path.join(HERE, 'tables', 'functions.txt')
MAX_BLOCKS = 400
MAX_RESULT_BLOCKS = 2500


REF_ARGC = {}
REF_SIG = {}


def signature(body):
    """parameter and result types of a body, as written in the fact base"""
    return '(%s) -> %s' % (', '.join(str(body.locals.get(i, '?')) for i in range(1, body.argc + 1)), body.locals.get(0, '?'))


def reference():
    """set of reference function paths (lines `path<TAB>argc`; argc is used to recognise a moved function)"""
    if not os.path.exists(REF):
        return None
    out = set()
    with open(REF, encoding='utf-8') as f:
        for l in f:
            l = l.rstrip('\n')
            if not l.strip() or l.startswith('#'):
                continue
            parts = l.split('\t')
            out.add(parts[0])
            if len(parts) > 1 and parts[1].isdigit():
                REF_ARGC[parts[0]] = int(parts[1])
            if len(parts) > 2:
                REF_SIG[parts[0]] = parts[2]
    return out


def _shift(x, lo, bo):
    """deep copy of a fact fragment with locals shifted by lo and block ids by bo"""
    if isinstance(x, dict):
        out = {}
        for k, v in x.items():
            if k in ('local', 'index') and type(v) is int:
                out[k] = v + lo
            elif k in ('target', 'otherwise', 'unwind') and type(v) is int:
                out[k] = v + bo if v >= 0 else v
            elif k == 'vals' and isinstance(v, list):
                out[k] = [[a, t + bo] for a, t in v]
            else:
                out[k] = _shift(v, lo, bo)
        return out
    if isinstance(x, list):
        return [_shift(v, lo, bo) for v in x]
    return x


def _uses_as_value(rec, path):
    """is the function `path` used in this body other than as the callee of a direct call?"""
    def scan(x):
        if isinstance(x, dict):
            if x.get('fn') == path or (isinstance(x.get('fn'), dict) and x['fn'].get('path') == path):
                return True
            if 'reify' in x and isinstance(x['reify'], dict) and x['reify'].get('path') == path:
                return True
            return any(scan(v) for k, v in x.items() if k != 'callee')
        if isinstance(x, list):
            return any(scan(v) for v in x)
        return False
    return scan(rec['blocks'])


def _direct_calls(rec, helpers):
    out = []
    for bl in rec['blocks']:
        t = bl['term']
        if t['k'] == 'call' and not bl['cleanup']:
            c = t.get('callee')
            if c and c.get('local') and c.get('resolved') and c['path'] in helpers:
                out.append((bl['id'], c['path']))
    return out


def splice_into(rec, helpers):
    """splice every direct call to a helper (path -> final helper record) into rec; returns the number of splices"""
    n = 0
    for _ in range(50):
        calls = _direct_calls(rec, helpers)
        if not calls:
            break
        bid, hp = calls[0]
        h = helpers[hp]
        if len(rec['blocks']) + len(h['blocks']) > MAX_RESULT_BLOCKS:
            break
        by_id = {b['id']: b for b in rec['blocks']}
        bl = by_id[bid]
        t = bl['term']
        lo = max(l['id'] for l in rec['locals']) + 1
        bo = max(b['id'] for b in rec['blocks']) + 1
        hl = {l['id']: l['ty'] for l in h['locals']}
        if len(t['args']) != h['argc']:
            helpers = {k: v for k, v in helpers.items() if k != hp}
            continue
        for k, a in enumerate(t['args'], 1):
            bl['stmts'].append({'k': 'assign', 'lhs': {'local': lo + k, 'proj': [], 'ty': hl.get(k, '?')}, 'rv': 'use', 'ops': [a],
                                'loc': t['loc'], 'exp': t.get('exp', False), 'spliced': hp})
        target = t.get('target')
        dest = t['dest']
        bl['term'] = {'k': 'goto', 'target': bo, 'loc': t['loc'], 'exp': t.get('exp', False), 'spliced_call': hp}
        for l in h['locals']:
            rec['locals'].append({'id': l['id'] + lo, 'ty': l['ty']})
        for d in h.get('debug', []):
            rec['debug'].append(_shift(d, lo, bo))
        for hb in h['blocks']:
            nb = _shift(hb, lo, bo)
            nb['id'] = hb['id'] + bo
            if nb['term']['k'] == 'return':
                nb['stmts'].append({'k': 'assign', 'lhs': copy.deepcopy(dest), 'rv': 'use',
                                    'ops': [{'move': {'local': lo, 'proj': [], 'ty': hl.get(0, '?')}}], 'loc': nb['term'].get('loc', t['loc']),
                                    'exp': False, 'spliced': hp})
                if target is None or target < 0:
                    nb['term'] = {'k': 'unreachable', 'loc': t['loc'], 'exp': False}
                else:
                    nb['term'] = {'k': 'goto', 'target': target, 'loc': t['loc'], 'exp': False}
            rec['blocks'].append(nb)
        n += 1
    return n


def _rename_strings(x, old, new):
    """deep copy with the def path `old` (and its children `old::{closure#k}`, promoted paths, `closure:old..`) renamed"""
    if isinstance(x, dict):
        return {k: _rename_strings(v, old, new) for k, v in x.items()}
    if isinstance(x, list):
        return [_rename_strings(v, old, new) for v in x]
    if isinstance(x, str) and old in x:
        out = []
        i = 0
        while True:
            j = x.find(old, i)
            if j < 0:
                out.append(x[i:])
                break
            before = x[j - 1] if j > 0 else ''
            after = x[j + len(old): j + len(old) + 1]
            ok_before = not (before.isalnum() or before == '_') and not (before == ':' and j >= 2 and x[j - 2] == ':' and (j < 3 or x[j - 3].isalnum() or x[j - 3] == '_'))
            ok_after = not (after.isalnum() or after == '_')
            out.append(x[i:j])
            out.append(new if ok_before and ok_after else old)
            i = j + len(old)
        return ''.join(out)
    return x


def alias_moved_functions(facts, body_cls, ref):
    """A function of the reference inventory that no longer exists, while exactly one new function of the same name exists
    elsewhere, was moved (to another module, into an impl block): the new path is renamed back to the reference path in every
    fact, so that rules, known-finding keys and anchors keep addressing it. Returns [(new path, reference path)]."""
    cur = {p for p, b in facts.bodies.items() if b.kind in ('fn', 'method')}
    missing = [m for m in ref if m not in cur]
    new = [p for p in cur if p not in ref and facts.bodies[p].file.startswith('src/') and not (' as ' in p and '>::' in p)]
    if not missing or not new:
        return []

    def last(p):
        return p.rsplit('::', 1)[-1]
    out = []
    for p in sorted(new):
        olds = [m for m in missing if last(m) == last(p) and not (' as ' in m and '>::' in m)]
        rivals = [q for q in new if last(q) == last(p)]
        if len(olds) == 1 and len(rivals) == 1 and facts.bodies[p].argc == facts.ref_argc.get(olds[0], facts.bodies[p].argc):
            out.append((p, olds[0]))
    # renamed in place: a reference function is gone, no function of its name exists any more, and in the same module / impl
    # exactly one new function has exactly its signature (parameter and result types) - and it is the only missing function of
    # that module with that signature. The rules keep addressing it under the reference name.
    def parent(p):
        return p.rsplit('::', 1)[0] if '::' in p else ''
    taken_new = {p for p, _ in out}
    taken_old = {o for _, o in out}
    sigs = getattr(facts, 'ref_sig', {})
    for m in sorted(missing):
        if m in taken_old or (' as ' in m and '>::' in m) or m not in sigs:
            continue
        if any(last(q) == last(m) for q in cur):
            continue
        cands = [p for p in new if p not in taken_new and parent(p) == parent(m) and signature(facts.bodies[p]) == sigs[m]]
        rivals = [m2 for m2 in missing if m2 not in taken_old and parent(m2) == parent(m) and sigs.get(m2) == sigs[m]]
        if len(cands) == 1 and len(rivals) == 1:
            out.append((cands[0], m))
            taken_new.add(cands[0])
            taken_old.add(m)
    if not out:
        return []
    recs = {q: b.rec for q, b in facts.bodies.items()}
    for p, old in out:
        recs = {(_rename_strings(q, p, old)): _rename_strings(r, p, old) for q, r in recs.items()}
    facts.bodies = {q: body_cls(r, facts) for q, r in recs.items()}
    return out


# ---------------------------------------------------------------------------------------------
# literal tables walked with find_map / find: the else-if chain they stand for
def _new_local(rec, ty):
    i = max(l['id'] for l in rec['locals']) + 1
    rec['locals'].append({'id': i, 'ty': ty})
    return i


def _new_block(rec):
    i = max(b['id'] for b in rec['blocks']) + 1
    bl = {'id': i, 'cleanup': False, 'stmts': [], 'term': {'k': 'unreachable', 'loc': '', 'exp': False}}
    rec['blocks'].append(bl)
    return bl


def _inline_at(rec, bl, h, args, dest, target, loc, tag):
    """append to block `bl` the evaluation of body `h` on operand list `args`, result into place `dest`, then continue at
    block id `target` (same mechanics as splice_into)"""
    lo = max(l['id'] for l in rec['locals']) + 1
    bo = max(b['id'] for b in rec['blocks']) + 1
    hl = {l['id']: l['ty'] for l in h['locals']}
    for k, a in enumerate(args, 1):
        bl['stmts'].append({'k': 'assign', 'lhs': {'local': lo + k, 'proj': [], 'ty': hl.get(k, '?')}, 'rv': 'use', 'ops': [a], 'loc': loc, 'exp': False, 'spliced': tag})
    bl['term'] = {'k': 'goto', 'target': bo, 'loc': loc, 'exp': False, 'spliced_call': tag}
    for l in h['locals']:
        rec['locals'].append({'id': l['id'] + lo, 'ty': l['ty']})
    for hb in h['blocks']:
        nb = _shift(hb, lo, bo)
        nb['id'] = hb['id'] + bo
        if nb['term']['k'] == 'return':
            nb['stmts'].append({'k': 'assign', 'lhs': copy.deepcopy(dest), 'rv': 'use', 'ops': [{'move': {'local': lo, 'proj': [], 'ty': hl.get(0, '?')}}],
                                'loc': loc, 'exp': False, 'spliced': tag})
            nb['term'] = {'k': 'goto', 'target': target, 'loc': loc, 'exp': False}
        rec['blocks'].append(nb)


def desugar_table_searches(facts, body_cls):
    """`TABLE.iter().find_map(|row| ..)` / `.find(|row| ..)` over a constant item that is a literal array of at most 16 rows
    is the else-if chain `if let Some(v) = f(&TABLE[0]) { Some(v) } else if let Some(v) = f(&TABLE[1]) ..`: the call is
    replaced by that chain in the exported MIR (the table's initialiser is spliced in once, the closure body once per row),
    so every rule sees the per-row branches a hand-written chain would have. Returns [(function, table, rows)]."""
    import re as _re
    out = []
    for q, b in list(facts.bodies.items()):
        if b.kind not in ('fn', 'method', 'closure') or not b.file.startswith('src/'):
            continue
        sites = []
        for i in b.normal_blocks:
            t = b.blocks[i]['term']
            c = t.get('callee') if t['k'] == 'call' else None
            if c and _re.search(r'Iterator>?::(find_map|find)$', c['path']) and len(t['args']) == 2:
                sites.append(i)
        if not sites:
            continue
        rec = None
        for i in sites:
            cur = facts.bodies[q]
            t = cur.blocks[i]['term']
            which = t['callee']['path'].rsplit('::', 1)[1]
            it = cur.expr(t['args'][0])
            x = it
            for _ in range(12):
                if x[0] in ('ref', 'deref'):
                    x = x[1]
                elif x[0] == 'cast':
                    x = x[3]
                elif x[0] == 'call' and x[2] and _re.search(r'::(iter|into_iter)$', x[1]):
                    x = x[2][0]
                else:
                    break
            if x[0] != 'const' or not x[3] or not x[3].startswith('const '):
                continue
            tpath = x[3][len('const '):]
            tb = facts.bodies.get(tpath)
            if tb is None or tb.kind != 'const' or tb.loops():
                continue
            r = tb.ret_expr()
            while r[0] in ('ref', 'deref'):
                r = r[1]
            if r[0] != 'aggr' or r[1] != 'array' or not (1 <= len(r[2]) <= 16):
                continue
            nrows = len(r[2])
            clo_op = t['args'][1]
            cp = clo_op.get('move') or clo_op.get('copy')
            if not cp or cp['proj']:
                continue
            ce = cur.expr(clo_op)
            while ce[0] in ('ref', 'deref'):
                ce = ce[1]
            if ce[0] != 'aggr' or not str(ce[1]).startswith('closure:'):
                continue
            cb = facts.bodies.get(ce[1][8:])
            if cb is None or cb.argc != 2 or len(cb.blocks) > 60:
                continue
            if rec is None:
                rec = copy.deepcopy(cur.rec)
            bl = next(bb for bb in rec['blocks'] if bb['id'] == i)
            t = bl['term']
            loc = t['loc']
            target = t.get('target')
            if target is None or target < 0:
                continue
            dest = t['dest']
            tty = tb.locals.get(0, '?')
            row_ty = _re.sub(r'^\[(.*); \d+\]$', r'\1', tty)
            T = _new_local(rec, tty)
            nxt = _new_block(rec)
            _inline_at(rec, bl, tb.rec, [], {'local': T, 'proj': [], 'ty': tty}, nxt['id'], loc, tpath)
            ret_ty = cb.locals.get(0, '?')
            env_ty = cb.locals.get(1, '?')
            item_ty = cb.locals.get(2, '?')
            for k in range(nrows):
                cur_bl = nxt
                ref_l = _new_local(rec, item_ty)
                env_l = _new_local(rec, env_ty)
                tmp_l = _new_local(rec, ret_ty)
                cur_bl['stmts'].append({'k': 'assign', 'lhs': {'local': ref_l, 'proj': [], 'ty': item_ty}, 'rv': 'ref',
                                        'ops': [{'copy': {'local': T, 'proj': [{'cidx': k}], 'ty': row_ty}}], 'mut': False, 'loc': loc, 'exp': False})
                cur_bl['stmts'].append({'k': 'assign', 'lhs': {'local': env_l, 'proj': [], 'ty': env_ty}, 'rv': 'ref',
                                        'ops': [{'copy': copy.deepcopy(cp)}], 'mut': True, 'loc': loc, 'exp': False})
                test = _new_block(rec)
                _inline_at(rec, cur_bl, cb.rec, [{'move': {'local': env_l, 'proj': [], 'ty': env_ty}}, {'move': {'local': ref_l, 'proj': [], 'ty': item_ty}}],
                           {'local': tmp_l, 'proj': [], 'ty': ret_ty}, test['id'], loc, cb.path)
                hit = _new_block(rec)
                nxt = _new_block(rec)
                if which == 'find_map':
                    d_l = _new_local(rec, 'isize')
                    test['stmts'].append({'k': 'assign', 'lhs': {'local': d_l, 'proj': [], 'ty': 'isize'}, 'rv': 'discr',
                                          'ops': [{'copy': {'local': tmp_l, 'proj': [], 'ty': ret_ty}}], 'loc': loc, 'exp': False})
                    test['term'] = {'k': 'switch', 'discr': {'move': {'local': d_l, 'proj': [], 'ty': 'isize'}}, 'vals': [[1, hit['id']]], 'otherwise': nxt['id'], 'loc': loc, 'exp': False}
                    hit['stmts'].append({'k': 'assign', 'lhs': copy.deepcopy(dest), 'rv': 'use', 'ops': [{'move': {'local': tmp_l, 'proj': [], 'ty': ret_ty}}], 'loc': loc, 'exp': False})
                else:       # find: the predicate's bool selects the row reference itself
                    test['term'] = {'k': 'switch', 'discr': {'move': {'local': tmp_l, 'proj': [], 'ty': 'bool'}}, 'vals': [[0, nxt['id']]], 'otherwise': hit['id'], 'loc': loc, 'exp': False}
                    r2 = _new_local(rec, item_ty)
                    hit['stmts'].append({'k': 'assign', 'lhs': {'local': r2, 'proj': [], 'ty': item_ty}, 'rv': 'ref',
                                         'ops': [{'copy': {'local': T, 'proj': [{'cidx': k}], 'ty': row_ty}}], 'mut': False, 'loc': loc, 'exp': False})
                    hit['stmts'].append({'k': 'assign', 'lhs': copy.deepcopy(dest), 'rv': 'aggr', 'ops': [{'move': {'local': r2, 'proj': [], 'ty': item_ty}}],
                                         'adt': 'core::option::Option::Some', 'fields': ['core::option::Option.0'], 'loc': loc, 'exp': False})
                hit['term'] = {'k': 'goto', 'target': target, 'loc': loc, 'exp': False}
            nxt['stmts'].append({'k': 'assign', 'lhs': copy.deepcopy(dest), 'rv': 'aggr', 'ops': [], 'adt': 'core::option::Option::None', 'fields': [], 'loc': loc, 'exp': False})
            nxt['term'] = {'k': 'goto', 'target': target, 'loc': loc, 'exp': False}
            out.append((q, tpath, nrows))
            facts.bodies[q] = body_cls(rec, facts)
    return out


PRIM = r'(?:[iu](?:8|16|32|64|128|size)|f32|f64)'


def lower_primitive_operator_calls(facts, body_cls):
    """`a / b` with b: &i64 is the trait call `<i64 as Div<&i64>>::div(a, b)`, `r %= u` with u: &i64 is
    `<i64 as RemAssign<&i64>>::rem_assign(&mut r, u)`: the std impls for primitives forward to the primitive operator on the
    dereferenced operands. Rewritten to the primitive `binop` statement the by-value spelling gives, so that the rules see one
    form. Returns the number of calls rewritten."""
    import re
    rx = re.compile(r"^<(&?)(%s) as core::ops::(?:arith::)?(Add|Sub|Mul|Div|Rem)(Assign)?<(&?)(%s)>>::(\w+)$" % (PRIM, PRIM))
    n = 0
    for q, b in list(facts.bodies.items()):
        rec = b.rec
        hit = False
        for bl in rec['blocks']:
            t = bl['term']
            if t.get('k') != 'call' or not t.get('callee'):
                continue
            m = rx.match(t['callee'].get('path', ''))
            if not m or len(t['args']) != 2 or t.get('target') is None or t.get('target', -1) < 0:
                continue
            lref, lty, op, assign, rref, rty, _name = m.groups()
            if lty != rty:
                continue

            def val(o, is_ref):
                pl = o.get('copy') or o.get('move')
                if pl is None:
                    return copy.deepcopy(o) if not is_ref else None
                if not is_ref:
                    return {'copy': copy.deepcopy(pl)}
                return {'copy': {'local': pl['local'], 'proj': list(pl['proj']) + ['deref'], 'ty': lty}}
            if assign:
                dst = t['args'][0].get('copy') or t['args'][0].get('move')
                if dst is None:
                    continue
                lhs = {'local': dst['local'], 'proj': list(dst['proj']) + ['deref'], 'ty': lty}
                a = {'copy': copy.deepcopy(lhs)}
            else:
                lhs = copy.deepcopy(t['dest'])
                a = val(t['args'][0], bool(lref))
            bv = val(t['args'][1], bool(rref))
            if a is None or bv is None:
                continue
            bl['stmts'].append({'k': 'assign', 'lhs': lhs, 'rv': 'binop', 'op': op, 'ops': [a, bv], 'loc': t.get('loc', ''), 'exp': t.get('exp', False), 'lowered_from': t['callee']['path']})
            bl['term'] = {'k': 'goto', 'target': t['target'], 'loc': t.get('loc', ''), 'exp': t.get('exp', False)}
            hit = True
            n += 1
        if hit:
            facts.bodies[q] = body_cls(rec, facts)
    return n


def resolve_into_calls(facts, body_cls):
    """`x.into()` is `Dst::from(x)` (the blanket impl of Into): where the exporter left the call on `Into::into` and the crate
    has `impl From<Src> for Dst` for the argument's type, the call is redirected to that function. Returns the number of calls."""
    import re
    n = 0
    for q, b in list(facts.bodies.items()):
        rec = b.rec
        hit = False
        for bl in rec['blocks']:
            t = bl['term']
            c = t.get('callee') if t.get('k') == 'call' else None
            if not c or c.get('path') != 'core::convert::Into::into' or len(t['args']) != 1:
                continue
            gen = c.get('gen') or []
            pl = t['args'][0].get('copy') or t['args'][0].get('move') or t['args'][0].get('const') or {}
            src = str(pl.get('ty', ''))
            if re.fullmatch(r'[A-Z][A-Za-z0-9]*', src) and 'local' in pl and not pl.get('proj'):
                # a type parameter of a spliced generic helper: the type of what the caller assigned to that parameter
                cur_l = pl['local']
                for _hop in range(8):
                    srcs = []
                    for bl2 in rec['blocks']:
                        for st in bl2['stmts']:
                            if st.get('k') == 'assign' and st['lhs']['local'] == cur_l and not st['lhs']['proj'] and st.get('rv') == 'use':
                                o = st['ops'][0]
                                srcs.append(o.get('copy') or o.get('move') or o.get('const') or {})
                    if len(srcs) != 1:
                        break
                    ty2 = str(srcs[0].get('ty', ''))
                    if not re.fullmatch(r'[A-Z][A-Za-z0-9]*', ty2):
                        src = ty2
                        break
                    if 'local' not in srcs[0] or srcs[0].get('proj'):
                        break
                    cur_l = srcs[0]['local']
            if len(gen) != 2 or not src:
                continue
            target = '<%s as core::convert::From<%s>>::from' % (gen[1], src)
            if target in facts.bodies:
                t['callee'] = dict(c, path=target, decl=target, inst=target, local=True, resolved=True, trait='core::convert::From')
                hit = True
                n += 1
        if hit:
            facts.bodies[q] = body_cls(rec, facts)
    return n


def splice_new_helpers(facts, body_cls):
    """see module docstring; returns [(helper path, [callers])] for the evidence"""
    ref = reference()
    if ref is None:
        return []
    facts.ref_argc = dict(REF_ARGC)
    facts.ref_sig = dict(REF_SIG)
    facts.moved = alias_moved_functions(facts, body_cls, ref)
    cand = {}
    for p, b in facts.bodies.items():
        if b.kind not in ('fn', 'method') or p in ref or not b.file.startswith('src/'):
            continue
        if ' as ' in p and '>::' in p and not (' as core::convert::From<' in p and p.endswith('>>::from')):
            continue                             # trait impl method: reached by dispatch (a From impl is called by name)
        if len(b.blocks) > MAX_BLOCKS:
            continue
        cand[p] = b
    if not cand:
        return []
    trait_methods = set()
    for im in facts.impls:
        if im.get('trait'):
            for m in im['methods']:
                trait_methods.add(m['path'])
    # uses: direct calls vs anything else
    callers = {p: set() for p in cand}
    for q, b in facts.bodies.items():
        for (bid, hp) in _direct_calls(b.rec, cand):
            callers[hp].add(q)
    ok = {}
    for p, b in cand.items():
        is_from = ' as core::convert::From<' in p and p.endswith('>>::from')
        if (p in trait_methods and not is_from) or not callers[p] or p in callers[p]:
            continue
        if is_from and any(t_.get('k') == 'call' and (t_.get('callee') or {}).get('path') == 'core::convert::Into::into' and ((t_.get('callee') or {}).get('gen') or [None, None])[1] == p[1:].split(' as ')[0]
                           for ob in facts.bodies.values() for t_ in (bl_['term'] for bl_ in ob.rec['blocks'])):
            continue              # an `.into()` to this type is still unresolved somewhere: it may reach this impl
        if any(_uses_as_value(ob.rec, p) for ob in facts.bodies.values()):
            continue
        # unresolved calls that may reach it (generic / dyn) cannot exist for an inherent fn; fn-pointer use is excluded above
        ok[p] = b
    # bottom-up: helpers calling helpers are completed first; cycles are left alone
    final = {}
    pending = dict(ok)
    for _ in range(len(pending) + 1):
        progressed = False
        for p in sorted(pending):
            deps = {hp for _, hp in _direct_calls(pending[p].rec, ok)}
            if deps <= set(final):
                rec = copy.deepcopy(pending[p].rec)
                splice_into(rec, {d: final[d] for d in deps})
                final[p] = rec
                del pending[p]
                progressed = True
                break
        if not progressed:
            break
    if not final:
        return []
    report = []
    touched = {}
    for q, b in list(facts.bodies.items()):
        if q in final:
            continue
        if _direct_calls(b.rec, final):
            rec = copy.deepcopy(b.rec)
            n = splice_into(rec, final)
            if n and not _direct_calls(rec, final):
                touched[q] = rec
    # a helper disappears only when every caller was rewritten
    for p in sorted(final):
        cs = sorted(c for c in callers[p] if c not in final)
        inner = sorted(c for c in callers[p] if c in final)
        if all(c in touched for c in cs):
            report.append((p, cs + inner))
    gone = {p for p, _ in report}
    for q, rec in touched.items():
        facts.bodies[q] = body_cls(rec, facts)
    for p in gone:
        facts.spliced[p] = facts.bodies.pop(p)
    return report


def freeze(repo='/repo'):
    """write the reference inventory from the current tree of `repo` (all build configurations)"""
    from . import build
    from .facts import Facts
    paths = {}
    for cfg in ('dev', 'release', 'debug-rules'):
        path, digest, secs = build.build_facts(cfg, repo)
        f = Facts(path, splice=False)
        paths.update({p: (b.argc, signature(b)) for p, b in f.bodies.items() if b.kind in ('fn', 'method')})
    with open(REF, 'w', encoding='utf-8') as out:
        out.write('# function inventory of the reference tree: path<TAB>number of parameters<TAB>signature (python3 -m scv.inline --freeze); see scv/inline.py\n')
        for p in sorted(paths):
            out.write('%s\t%d\t%s\n' % (p, paths[p][0], paths[p][1]))
    print('%d functions written to %s' % (len(paths), REF))


if __name__ == '__main__':
    import sys
    if '--freeze' in sys.argv:
        freeze()
