"""Rules on top of the lexical competition model (scv/lexmodel.py): the literals a property's statement names must come out
of the first tokenizer stages as the tokens their reader needs - whatever another family's regex, table or alias says.
Sample lines are *generated from the configuration itself* (every unit spelling, every month name, every currency code,
every zone abbreviation, every duration word, the separator conventions of the statement), so a data edit that makes two
families compete for one word is caught for the word it concerns."""
import re

from .lexmodel import LexModel
from .facts import AnchorLost


def lex(ctx):
    c = ctx.__dict__.setdefault('_model_cache', {})
    if 'lex' not in c:
        c['lex'] = LexModel(ctx)
    return c['lex']


def shape(tokens):
    return [(c['kind'], c['text']) for c in tokens]


def run_samples(ctx, rid, samples, site='src/json/config.json parse / tables'):
    """samples: [(line, lang, expected [(kind, text)], key, what the literal is)]"""
    L = lex(ctx)
    by_lang = {}
    for line, lang, want, key, what in samples:
        by_lang.setdefault(lang, []).append(line)
    for lang, lines in by_lang.items():
        L.prefetch(sorted(set(lines)), lang)
    n = 0
    for line, lang, want, key, what in samples:
        got = L.typed(line, lang)
        n += 1
        if shape(got) == list(want):
            ctx.ok(rid, '%r [%s] -> %s' % (line, lang, L.describe(got)), 'lex-model', site=site, sample=(n % 97 == 1))
        else:
            thief = ''
            for c in got:
                if c.get('aliased'):
                    thief = ' (alias %r -> %r re-types the %s token)' % (c['aliased'][0], c['aliased'][1], c['aliased'][2])
            ctx.finding(rid, key, '%s: the line %r (%s) is tokenised as %s; expected %s%s' % (
                what, line, lang, L.describe(got) or 'nothing', ' '.join('%s(%r)' % w for w in want), thief), site=site)
    return n


# ------------------------------------------------------------------ sample generators
CONVENTIONS = [(',', '.'), ('.', ','), (',', ''), ('.', ''), (',', ' ')]


def deep(ctx):
    return ctx.tier == 'thorough' and ctx.cfg_name == 'dev'


def number_samples():
    out = []
    for dec, thou in CONVENTIONS:
        lits = ['7', '2%s50' % dec, '12%s30' % dec, '3%s14' % dec, '0%s5' % dec, '23%s59' % dec, '2k', '1%s5M' % dec]
        if thou and thou != ' ':
            lits += ['1%s234%s5' % (thou, dec), '1%s234%s567%s5' % (thou, thou, dec), '12%s345' % thou]
        for lit in lits:
            key = 'number/%s' % re.sub(r'[0-9]', '9', lit).replace(' ', '_')
            out.append((lit, 'en', [('Number', lit)], key, 'a decimal literal in the convention decimal=%r thousands=%r' % (dec, thou)))
            out.append(('%s * 4' % lit, 'en', [('Number', lit), ('Operator', '*'), ('Number', '4')], key + '/in-expression', 'a decimal literal in the convention decimal=%r thousands=%r' % (dec, thou)))
    return out


def based_samples():
    out = []
    for lit in ('0x1E5', '0x2e10', '0xFF', '0x10B1', '0xABCDE5', '0X1f', '0x9E9', '0b101', '0B11', '0o17', '0O7', '0x0', '0b0', '0o0', '0xDEC', '0xBEEF', '0xFACE'):
        out.append((lit, 'en', [('Number', lit)], 'based/%s' % lit, 'a based integer literal'))
        out.append(('%s + 1' % lit, 'en', [('Number', lit), ('Operator', '+'), ('Number', '1')], 'based/%s/in-expression' % lit, 'a based integer literal'))
    return out


def money_samples(ctx):
    cfg = ctx.config.j
    out = []
    codes = sorted(cfg.get('currencies', {}))
    for code in codes:
        for lit in ('50 %s' % code, '50 %s' % code.upper()):
            out.append((lit, 'en', [('Money', lit)], 'money/code/%s' % code, 'an amount with the ISO code %s' % code.upper()))
    for al in sorted(cfg.get('currency_alias', {})):
        lit = '50 %s' % al
        out.append((lit, 'en', [('Money', lit)], 'money/alias/%s' % al, 'an amount with the currency alias %r' % al))
    syms = sorted(set(v.get('symbol', '') for v in cfg.get('currencies', {}).values() if isinstance(v, dict)))
    for lit, want in (('$10', [('Money', '$10')]), ('10$', [('Money', '10$')]), ('10 $', [('Money', '10 $')]), ('10k usd', [('Money', '10k'), ('Text', 'usd')]),
                      ('10$ 5$', [('Money', '10$'), ('Money', '5$')]), ('10 $ 5 $', [('Money', '10 $'), ('Money', '5 $')]),
                      ('20 € 10 usd', [('Money', '20 €'), ('Money', '10 usd')]), ('200 $ 10%', [('Money', '200 $'), ('Percent', '10%')]),
                      ('10% of 50 usd', [('Percent', '10%'), ('Text', 'of'), ('Money', '50 usd')])):
        out.append((lit, 'en', want, 'money/shape/%s' % lit.replace(' ', '_'), 'money literals next to each other'))
    return out


def unit_samples(ctx):
    out = []
    from .data import abstract_tokens
    seen = set()
    for fam, it in ctx.config.units():
        for p in it['parse']:
            words = [t[3] for t in abstract_tokens(p) if t[0] == 'field' and t[1] == 'TEXT' and t[3]] + [t[1] for t in abstract_tokens(p) if t[0] == 'word']
            for w in words:
                for spelled in (w, w.upper()):
                    if (spelled) in seen:
                        continue
                    seen.add(spelled)
                    lit = '3 %s' % spelled
                    out.append((lit, 'en', [('Number', '3'), ('Text', spelled)], 'unit/%s/%s' % (fam, spelled), 'a quantity in the unit %r (%s)' % (w, fam)))
                    if deep(ctx):
                        # thorough tier: the same word inside an expression, after a decimal amount and glued to the number
                        out.append(('2 * 3 %s' % spelled, 'en', [('Number', '2'), ('Operator', '*'), ('Number', '3'), ('Text', spelled)], 'unit/%s/%s/in-expression' % (fam, spelled), 'a quantity in the unit %r (%s) inside an expression' % (w, fam)))
                        out.append(('1,5 %s' % spelled, 'en', [('Number', '1,5'), ('Text', spelled)], 'unit/%s/%s/decimal' % (fam, spelled), 'a decimal quantity in the unit %r (%s)' % (w, fam)))
    return out


def month_samples(ctx):
    out = []
    L = lex(ctx)
    for lang in sorted(ctx.config.languages):
        l = ctx.config.languages[lang]
        keep = {}
        for which in ('long_months', 'short_months'):
            for name, m in sorted(l[which].items()):
                keep[(which, m)] = name           # the last spelling per month survives loading (L2 reports the dropped ones)
        for (which, m), name in sorted(keep.items()):
            for spelled in (name, name.capitalize() if name.isascii() else name):
                lit = '12 %s 2021' % spelled
                out.append((lit, lang, [('Number', '12'), ('Month', spelled), ('Number', '2021')], 'month/%s/%s' % (lang, spelled), 'a date with the month name %r' % name))
                if deep(ctx):
                    out.append(('12 %s' % spelled, lang, [('Number', '12'), ('Month', spelled)], 'month/%s/%s/no-year' % (lang, spelled), 'a date without a year with the month name %r' % name))
                    out.append(('%s 12 2021' % spelled, lang, [('Month', spelled), ('Number', '12'), ('Number', '2021')], 'month/%s/%s/month-first' % (lang, spelled), 'a month-first date with the month name %r' % name))
    return out


def zone_samples(ctx):
    out = []
    for z in sorted(ctx.config.j.get('timezones', {})):
        if not re.fullmatch(r'[A-Za-z]{2,4}', z):
            continue
        lit = '15:00 %s' % z
        out.append((lit, 'en', [('Time', '15:00'), ('Timezone', z)], 'zone/%s' % z, 'a time in the zone %s' % z))
        if deep(ctx):
            out.append(('09:05:07 %s' % z, 'en', [('Time', '09:05:07'), ('Timezone', z)], 'zone/%s/seconds' % z, 'a time with seconds in the zone %s' % z))
            out.append(('15:00 %s' % z.lower(), 'en', [('Time', '15:00'), ('Timezone', z.lower())], 'zone/%s/lower-case' % z, 'a time in the zone %s written in lower case' % z))
    for z in ('GMT+3', 'GMT-3:30', 'GMT+11:00', 'GMT'):
        lit = '15:00 %s' % z
        out.append((lit, 'en', [('Time', '15:00'), ('Timezone', z)], 'zone/%s' % z, 'a time in the zone %s' % z))
    for lit, want in (('7:05', [('Time', '7:05')]), ('23:59:58', [('Time', '23:59:58')]), ('11:30 pm', [('Time', '11:30 pm')]), ('11:30 AM', [('Time', '11:30 AM')])):
        out.append((lit, 'en', want, 'time/%s' % lit.replace(' ', '_'), 'a clock time'))
    return out


def duration_samples(ctx):
    out = []
    for lang in sorted(ctx.config.languages):
        l = ctx.config.languages[lang]
        for w in sorted(l['word_group'].get('duration_group', [])):
            lit = '3 %s' % w
            out.append((lit, lang, [('Number', '3'), ('Text', w)], 'duration/%s/%s' % (lang, w), 'a duration in %r' % w))
    return out


def percent_samples(ctx):
    out = []
    for lit in ('10%', '%10', '12,5%', '-10%'):
        out.append((lit, 'en', [('Percent', lit)], 'percent/%s' % lit, 'a percentage'))
    for code in sorted(ctx.config.j.get('currencies', {})):
        lit = '10%% of 50 %s' % code
        out.append((lit, 'en', [('Percent', '10%'), ('Text', 'of'), ('Money', '50 %s' % code)], 'percent-of-money/%s' % code, "'p%% of X' with X in %s" % code.upper()))
    return out


def keyword_samples(ctx):
    """connective keywords of the rule patterns must reach the rules as plain words"""
    out = []
    from .data import abstract_tokens
    from . import model
    for lang in sorted(ctx.config.languages):
        words = set()
        for rn, p, org in model.all_patterns(ctx, lang):
            for t in abstract_tokens(p):
                if t[0] == 'word':
                    words.add(t[1])
        for w in sorted(words):
            lit = '5 %s 7' % w
            out.append((lit, lang, [('Number', '5'), ('Text', w), ('Number', '7')], 'keyword/%s/%s' % (lang, w), 'the keyword %r of a rule pattern' % w))
    return out
