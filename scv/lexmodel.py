"""E7b - lexical competition model: which tokenizer family claims which characters of a sample line.

The first tokenizer stages of smartcalc are a *competition*: the month parser (on a lower-cased copy of the line), then the
regex families of config.json "parse" in the order of TOKEN_REGEX_PARSER, each pattern scanning the whole line and each match
claiming its span unless an earlier claim overlaps it (Tokinizer::add_token_location), then the alias stage which re-types any
token whose text an alias key matches. Whether "3 ft" is a length, "0x1E5" a hexadecimal literal, "2.50" a number or
"12 oct 2021" a date is decided here, by data (the regexes, the zone / currency / month / alias tables) and by one piece of
code (the order of the families). This module evaluates that competition for sample lines: the configured patterns are run with
the `regex` crate itself (datatool `find` mode - data evaluated on chosen strings; no smartcalc code is run), the order comes
from the code facts (model.regex_parsers), and the acceptance condition of each family is the few lines transcribed below from
its parser (checked against the code by the rules that own those parsers: M4, Z3, Z7, R3, L2, W1, H2, H4).

Model of the acceptance conditions (file: what is claimed):
  comment, whitespace  the whole match, typeless
  money      PRICE..(NOTATION end if present else CURRENCY end), when read_currency(CURRENCY) finds an alias or a code
  percent    the whole match
  timezone   the whole match of the pattern on the UPPER-cased line, when timezone_1 is a key of the zone table or timezone_2
             (GMT+h[:mm]) took part
  time       match start..end of the last of minute / second / meridiem
  number     match start..end of the digits, or of a recognised magnitude suffix
  text, operator  the whole match
  field, atom     the whole match (samples with {..} / [..] only)
"""
import json
import re
import subprocess

from .build import DATATOOL
from .facts import AnchorLost

SUFFIXES = ('k', 'K', 'M', 'G', 'T', 'P', 'Z', 'Y')


class LexModel:
    def __init__(self, ctx):
        from . import model
        self.ctx = ctx
        self.cfg = ctx.config.j
        self.order = [fam for fam, _ in model.regex_parsers(ctx)]
        # the producers of the two tokenizer stages in execution order, read from the code: [(stage, family or 'month')]
        try:
            from .rules.C16 import producers
            _b, prod = producers(ctx, r"^tokinizer::Tokinizer::<'a>::tokinize$")
            self.sequence = [(stage, 'month' if str(who).endswith('month_parser') else str(who)) for stage, who, _loc in prod]
        except AnchorLost:
            self.sequence = [('language_tokinizer', 'comment'), ('language_tokinizer', 'month')] + [('regex_tokinizer', f) for f in self.order]
        self.cache = {}
        self.zones = set(k.upper() for k in self.cfg.get('timezones', {}))
        self.cur_alias = {k.lower(): v for k, v in self.cfg.get('currency_alias', {}).items()}
        self.cur_codes = set(k.lower() for k in self.cfg.get('currencies', {}))
        self._months = {}

    # ------------------------------------------------------------------ regex evaluation (real engine, on data)
    def find_all(self, items):
        todo = [it for it in items if it not in self.cache]
        if todo:
            uniq = list(dict.fromkeys(todo))
            out = subprocess.run([DATATOOL, 'find'], input=json.dumps([{'pattern': p, 'hay': h} for p, h in uniq]), stdout=subprocess.PIPE, text=True, check=True).stdout
            for key, r in zip(uniq, json.loads(out)):
                self.cache[key] = r['matches'] if r.get('ok') else None
        return [self.cache[it] for it in items]

    def prefetch(self, lines, lang='en'):
        """evaluate every pattern on every sample line in one call of the regex engine"""
        parse = self.cfg['parse']
        batch = []
        for line in lines:
            batch += [(p, line) for p in parse.get('comment', [])] + [(p, line.lower()) for p, _ in self.month_patterns(lang)]
            for fam in self.order:
                hay = line.upper() if fam == 'timezone' else line
                batch += [(p, hay) for p in parse.get(fam, [])]
        self.find_all(batch)

    def month_patterns(self, lang):
        """[(pattern, month number)] the way load_from_json builds them (one long and one short name survive per month)"""
        if lang in self._months:
            return self._months[lang]
        from .rules.C19 import month_template
        pieces, fields, loc = month_template(self.ctx)
        l = self.cfg['languages'].get(lang)
        out = []
        if l:
            longs, shorts = {}, {}
            for name, m in sorted(l['long_months'].items()):
                longs[m] = name
            for name, m in sorted(l['short_months'].items()):
                shorts[m] = name
            for m in sorted(set(longs) | set(shorts)):
                vals = {'long': longs.get(m, ''), 'short': shorts.get(m, '')}
                it = iter(fields)
                out.append((''.join(p if p is not None else vals[next(it)] for p in pieces), m))
        self._months[lang] = out
        return out

    def alias_keys(self, lang):
        out = [(k, v) for k, v in self.cfg.get('alias', {}).items()]
        out += [(k, v) for k, v in self.cfg['languages'].get(lang, {}).get('alias', {}).items()]
        return out

    # ------------------------------------------------------------------ the competition
    @staticmethod
    def collides(claims, start, end):
        for c in claims:
            if (c['start'] <= start and c['end'] > start) or (c['start'] < end and c['end'] >= end):
                return True
        return False

    def claims(self, line, lang='en'):
        """tokens of the line after the month stage, the regex stage and the alias stage:
        [{'start', 'end', 'family', 'kind', 'text', 'info'}] sorted by start (typeless claims included, kind None)"""
        claims = []
        raw = line.encode('utf-8')

        def sub(a, b):
            return raw[a:b].decode('utf-8', errors='replace')

        def add(start, end, family, kind, text, info=None, orig=None):
            if self.collides(claims, start, end):
                return False
            # `orig` is TokenInfo.original_text, which the alias stage matches: the whole match for most families, the PRICE
            # text for money
            claims.append({'start': start, 'end': end, 'family': family, 'kind': kind, 'text': text, 'info': info, 'orig': text if orig is None else orig})
            return True
        parse = self.cfg['parse']
        # stage 0/1: language_tokinizer - comments first, then the month names on the lower-cased copy
        batch = [(p, line) for p in parse.get('comment', [])] + [(p, line.lower()) for p, _ in self.month_patterns(lang)]
        # stage 2: every family on its haystack
        for fam in self.order:
            hay = line.upper() if fam == 'timezone' else line
            batch += [(p, hay) for p in parse.get(fam, [])]
        self.find_all(batch)
        def run_family(fam):
            hay = line.upper() if fam == 'timezone' else line
            for p in parse.get(fam, []):
                ms = self.cache[(p, hay)]
                if ms is None:
                    continue                     # a pattern that does not compile is dropped at load time
                for m in ms:
                    g = m['groups']
                    s, e, text = m['start'], m['end'], sub(m['start'], m['end'])
                    if fam in ('comment', 'whitespace'):
                        add(s, e, fam, None, text)
                    elif fam == 'money':
                        cur = g.get('CURRENCY')
                        if not cur or not g.get('PRICE'):
                            continue
                        c = cur[2].lower()
                        if c not in self.cur_alias and c not in self.cur_codes:
                            continue
                        end = g['NOTATION'][1] if g.get('NOTATION') else cur[1]       # a NOTATION group that took part, even empty
                        add(s, end, fam, 'Money', sub(s, end), self.cur_alias.get(c, c), orig=g['PRICE'][2])
                    elif fam == 'percent':
                        add(s, e, fam, 'Percent', text)
                    elif fam == 'timezone':
                        z1, z2 = g.get('timezone_1'), g.get('timezone_2')
                        if z1 and z1[2] != '':
                            if z1[2].upper() not in self.zones:
                                continue
                            add(s, e, fam, 'Timezone', text, z1[2].upper())
                        elif z2 and z2[2] != '':
                            add(s, e, fam, 'Timezone', text, z2[2])
                    elif fam == 'time':
                        end = 0
                        for name in ('minute', 'second', 'meridiem'):
                            if g.get(name):
                                end = g[name][1]
                        add(s, end, fam, 'Time', sub(s, end), orig=text)
                    elif fam == 'number':
                        end = 0
                        for name in ('BINARY', 'HEX', 'OCTAL', 'DECIMAL'):
                            if g.get(name):
                                end = g[name][1]
                                break
                        if g.get('DECIMAL') and not any(g.get(n) for n in ('BINARY', 'HEX', 'OCTAL')) and g.get('NOTATION') and g['NOTATION'][2] in SUFFIXES:
                            end = g['NOTATION'][1]
                        add(s, end, fam, 'Number', sub(s, end), [n for n in ('BINARY', 'HEX', 'OCTAL', 'DECIMAL') if g.get(n)][:1], orig=text)
                    elif fam == 'text':
                        if text.strip():
                            add(s, e, fam, 'Text', text)
                    elif fam == 'operator':
                        add(s, e, fam, 'Operator', text)
                    else:
                        add(s, e, fam, fam.capitalize(), text)

        def run_month():
            for p, month in self.month_patterns(lang):
                for m in self.cache[(p, line.lower())] or []:
                    add(m['start'], m['end'], 'month', 'Month', sub(m['start'], m['end']), month)
        prev = None
        for stage, who in self.sequence:
            if prev is not None and stage != prev:
                claims[:] = [c for c in claims if c['kind']]          # type-less claims are forgotten at the end of a stage
            prev = stage
            if who == 'month':
                run_month()
            elif who in parse or who in self.order:
                run_family(who)
        # stage 3: aliases re-type any token whose (lower-cased) text an alias key matches
        keys = self.alias_keys(lang)
        if keys:
            pats = [('\\b%s\\b' % k, c['orig'].lower()) for c in claims if c['kind'] for k, _ in keys]
            self.find_all(pats)
            for c in claims:
                if not c['kind']:
                    continue
                for k, v in keys:
                    ms = self.cache.get(('\\b%s\\b' % k, c['orig'].lower()))
                    if ms:
                        c['aliased'] = (k, v, c['kind'])
                        c['kind'] = 'Alias'
                        c['info'] = v
                        break
        return sorted(claims, key=lambda c: (c['start'], c['end']))

    def typed(self, line, lang='en'):
        return [c for c in self.claims(line, lang) if c['kind']]

    @staticmethod
    def describe(tokens):
        return ' '.join('%s(%r)' % (c['kind'] if c['kind'] != 'Alias' else 'Alias->%s' % c['info'], c['text']) for c in tokens)
