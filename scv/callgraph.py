"""E1 - call graph over the exported bodies.

Edges (deliberately over-approximating; more edges only add obligations):
  direct     resolved call to a crate-local body
  cha        unresolved trait-method call (type parameter or dyn): every local impl of that method
  fnptr      call through a fn pointer: every function reified to a pointer of the same type
  closure    closure construction -> closure body
  fnitem     function item used as a value (passed to map/sort_by/...)
  promoted   body -> its promoted constants
  extgen     call to an external generic fn whose generic args / operand types mention a local type:
             every local impl method of a std trait (PartialEq, Clone, Debug, ...) on that type
"""
import re
import collections
from .facts import opplace

STD_TRAITS = re.compile(r'^(core|std|alloc)::(cmp::(PartialEq|PartialOrd|Ord|Eq)|clone::Clone|fmt::(Debug|Display)|'
                        r'string::ToString|default::Default|ops::(Drop|Deref|DerefMut|Index|IndexMut)|'
                        r'ops::drop::Drop|ops::deref::Deref|iter::(traits::iterator::)?Iterator|hash::Hash|'
                        r'convert::(From|Into|AsRef)|borrow::Borrow)')


EQ = r'cmp::(PartialEq|Eq)'
ORD = r'cmp::(PartialEq|Eq|PartialOrd|Ord)'
CALLEE_TRAITS = [
    (r'::(eq|ne|contains|starts_with|ends_with|dedup|position|rposition)$', EQ),
    (r'(BTreeMap|BTreeSet|btree_map|btree::map).*::(get|get_mut|insert|remove|contains_key|entry|index|get_key_value|range)$|'
     r'::(sort|sort_unstable|binary_search|cmp|partial_cmp|max|min|lt|le|gt|ge|clamp)$', ORD),
    (r'::(clone|cloned|to_vec|to_owned|clone_from|extend_from_slice|make_mut|resize)$', r'clone::Clone'),
    (r'::(new_debug|new_debug_noop)$|fmt::Debug', r'fmt::Debug'),
    (r'::(new_display|to_string)$|fmt::Display', r'fmt::Display|string::ToString'),
    (r'::(default|unwrap_or_default|or_default|take)$', r'default::Default'),
    (r'::(deref|deref_mut)$', r'ops::(deref::)?(Deref|DerefMut)'),
    (r'::(next|nth|count|last|collect|map|filter|fold|sum|for_each|enumerate|skip|any|all|find)$', r'iter::'),
    (r'::(index|index_mut)$', r'ops::(Index|IndexMut)'),
    (r'::(from|into|as_ref|borrow)$', r'convert::|borrow::Borrow'),
    (r'::hash$', r'hash::Hash'),
]


def traits_for_callee(path):
    """std traits of a local type that an external generic callee of this name can invoke"""
    pats = [tr for (cp, tr) in CALLEE_TRAITS if re.search(cp, path)]
    if not pats:
        pats = [ORD, r'clone::Clone']
    return re.compile('|'.join(pats))


def norm_fnptr(t):
    t = re.sub(r"for<[^>]*>\s*", '', t)
    t = re.sub(r"'[a-z_0-9]+\s*", '', t)
    return t.replace(' ', '')


class CallGraph:
    def __init__(self, facts):
        self.facts = facts
        self.edges = collections.defaultdict(set)       # caller path -> {(callee path, kind)}
        self.ext_calls = collections.defaultdict(list)  # caller path -> [(block, term)] external callee
        self.open_edges = collections.defaultdict(list) # caller -> unresolved sites (dyn RuleTrait, unknown fn ptr)
        self.reified = []                               # (in_body, fn path, ptr type)
        self._build()

    def _build(self):
        F = self.facts
        # trait method -> impl methods (CHA)
        self.trait_impls = collections.defaultdict(list)   # 'trait path::method' -> [impl method path]
        self.type_impls = collections.defaultdict(list)    # local ADT path -> [(trait, method path)]
        for im in F.impls:
            for m in im['methods']:
                if im['trait']:
                    self.trait_impls[im['trait'] + '::' + m['name']].append(m['path'])
                    for adt in F.adts:
                        if re.search(r'(^|[^A-Za-z0-9_:])' + re.escape(adt) + r'($|[^A-Za-z0-9_])', im['self_ty']):
                            self.type_impls[adt].append((im['trait'], m['path']))
        # reified functions
        for b in F.bodies.values():
            for i, bl in b.blocks.items():
                for s in bl['stmts']:
                    if s['k'] == 'assign' and s['rv'] == 'cast' and s.get('reify'):
                        self.reified.append((b.path, s['reify']['path'], norm_fnptr(s['to']), s['reify']))
        by_ptr = collections.defaultdict(set)
        for (_, fn, ty, _) in self.reified:
            by_ptr[ty].add(fn)
        self.by_ptr = by_ptr
        adt_names = sorted(F.adts, key=len, reverse=True)
        for b in F.bodies.values():
            E = self.edges[b.path]
            for pb in F.promoted(b.path):
                E.add((pb.path, 'promoted'))
            for i, bl in b.blocks.items():
                if bl['cleanup']:
                    continue
                for s in bl['stmts']:
                    if s['k'] != 'assign':
                        continue
                    if s['rv'] == 'aggr' and s['adt'].startswith('closure:'):
                        E.add((s['adt'][8:], 'closure'))
                    if s['rv'] == 'cast' and s.get('reify') and s['reify']['local']:
                        E.add((s['reify']['path'], 'fnitem'))
                    for o in s['ops']:
                        c = o.get('const')
                        if c and 'fn' in c:
                            self._fn_value_edge(E, c['fn'])
                t = bl['term']
                if t['k'] != 'call':
                    continue
                for o in t['args']:
                    c = o.get('const')
                    if c and 'fn' in c:
                        self._fn_value_edge(E, c['fn'])
                c = t.get('callee')
                if c is None:
                    ty = norm_fnptr(t['fty'])
                    targets = by_ptr.get(ty)
                    if targets:
                        for fn in targets:
                            if fn in F.bodies:
                                E.add((fn, 'fnptr'))
                    else:
                        self.open_edges[b.path].append((i, t, 'fn pointer of type %s has no reified function' % t['fty']))
                    continue
                if c['local'] and c['resolved'] and c['path'] in F.bodies:
                    E.add((c['path'], 'direct'))
                elif c['local'] or (c.get('trait') and (c['trait'] + '::' + c['decl'].rsplit('::', 1)[-1]) in self.trait_impls and not c['resolved']):
                    # unresolved / virtual call of a trait method: CHA over local impls
                    key = (c.get('trait') or '') + '::' + c['decl'].rsplit('::', 1)[-1]
                    impls = self.trait_impls.get(key, [])
                    if c['path'] in F.bodies:   # trait default method body
                        E.add((c['path'], 'direct'))
                    if impls:
                        for m in impls:
                            if m in F.bodies:
                                E.add((m, 'cha'))
                    elif c['path'] not in F.bodies:
                        self.open_edges[b.path].append((i, t, 'trait method %s has no local impl (user code)' % c['path']))
                else:
                    self.ext_calls[b.path].append((i, t))
                    # edges through external generic code
                    text = ' '.join(c['gen'])
                    for o in t['args']:
                        p = opplace(o)
                        if p:
                            text += ' ' + p['ty']
                    if '::' not in text:
                        continue
                    wanted = traits_for_callee(c['path'])
                    for adt in adt_names:
                        if adt in text and re.search(r'(^|[^A-Za-z0-9_:])' + re.escape(adt) + r'($|[^A-Za-z0-9_])', text):
                            for (tr, m) in self.type_impls.get(adt, []):
                                if STD_TRAITS.search(tr) and wanted.search(tr) and m in F.bodies:
                                    E.add((m, 'extgen'))

    def _fn_value_edge(self, E, fn):
        F = self.facts
        if fn['local'] and fn['path'] in F.bodies:
            E.add((fn['path'], 'fnitem'))
        elif fn['local'] and not fn['resolved']:
            key = (fn.get('trait') or '') + '::' + fn['decl'].rsplit('::', 1)[-1]
            for m in self.trait_impls.get(key, []):
                if m in F.bodies:
                    E.add((m, 'cha'))

    def reachable(self, entries, skip_kinds=()):
        """returns dict path -> predecessor path (None for entries): reachability tree"""
        pred = {}
        st = []
        for e in entries:
            if e in self.facts.bodies:
                pred[e] = None
                st.append(e)
        while st:
            x = st.pop()
            for (y, k) in sorted(self.edges.get(x, ())):
                if k in skip_kinds:
                    continue
                if y not in pred:
                    pred[y] = x
                    st.append(y)
        return pred

    def path_to(self, pred, target):
        out = []
        x = target
        while x is not None:
            out.append(x)
            x = pred.get(x)
        return list(reversed(out))

    def owner_step(self, path):
        """One step up the ownership relation used for finding keys: a closure belongs to the function that creates it; a
        function whose only callers (direct calls only - no fn-pointer or trait dispatch) are one other function is a private
        helper of that function (what `extract method` produces). Returns None when the body has no single owner."""
        b = self.facts.bodies.get(path)
        if b is None:
            return None
        if b.kind == 'closure':
            return b.rec.get('parent') if b.rec.get('parent') in self.facts.bodies else None
        if b.kind not in ('fn', 'method') or re.search(r' as .*>::', path):
            return None
        if not hasattr(self, '_rev'):
            self._rev = collections.defaultdict(set)
            for c, es in self.edges.items():
                for (y, kind) in es:
                    self._rev[y].add((c, kind))
        callers = set()
        for c, kind in self._rev.get(path, ()):
            if c == path:
                continue
            if kind not in ('direct',):
                return None
            cb = self.facts.bodies.get(c)
            while cb is not None and cb.kind == 'closure' and cb.rec.get('parent') in self.facts.bodies:
                c = cb.rec['parent']
                cb = self.facts.bodies.get(c)
            callers.add(c)
        callers.discard(path)
        return next(iter(callers)) if len(callers) == 1 else None

    def callers_of(self, path):
        return sorted(c for c, es in self.edges.items() if any(y == path for (y, _) in es))

    def sccs(self, nodes):
        """Tarjan over the sub-graph induced by `nodes`; returns list of SCCs with >1 node or a self loop"""
        index = {}
        low = {}
        onst = set()
        st = []
        out = []
        counter = [0]
        nodes = set(nodes)

        def succ(v):
            return sorted(y for (y, _) in self.edges.get(v, ()) if y in nodes)

        for root in sorted(nodes):
            if root in index:
                continue
            work = [(root, iter(succ(root)))]
            index[root] = low[root] = counter[0]
            counter[0] += 1
            st.append(root)
            onst.add(root)
            while work:
                v, it = work[-1]
                adv = False
                for w in it:
                    if w not in index:
                        index[w] = low[w] = counter[0]
                        counter[0] += 1
                        st.append(w)
                        onst.add(w)
                        work.append((w, iter(succ(w))))
                        adv = True
                        break
                    elif w in onst:
                        low[v] = min(low[v], index[w])
                if adv:
                    continue
                work.pop()
                if work:
                    u = work[-1][0]
                    low[u] = min(low[u], low[v])
                if low[v] == index[v]:
                    comp = []
                    while True:
                        w = st.pop()
                        onst.discard(w)
                        comp.append(w)
                        if w == v:
                            break
                    if len(comp) > 1 or v in succ(v):
                        out.append(sorted(comp))
        return out
