"""debug aid: pretty-print exported MIR of functions whose path contains the argument"""
import sys
from .facts import Facts, place_str, opplace, render


def op(o):
    if 'const' in o:
        return o['const']['text']
    p = opplace(o)
    return ('move ' if 'move' in o else '') + place_str(p) if p else '?'


def show(b, cleanup=False):
    print('fn', b.path, ' args=', b.argc, ' names:', {k: v for k, v in b.names.items()})
    for i, bl in sorted(b.blocks.items()):
        if bl['cleanup'] and not cleanup:
            continue
        print(' bb%d:%s' % (i, ' (cleanup)' if bl['cleanup'] else ''))
        for s in bl['stmts']:
            if s['k'] == 'assign':
                extra = s.get('op') or s.get('cast') or s.get('adt') or ''
                print('    %s = %s %s(%s)   @%s' % (place_str(s['lhs']), s['rv'], extra, ', '.join(op(o) for o in s['ops']), s['loc'].split(':', 1)[1]))
            elif s['k'] in ('live', 'dead'):
                pass
        t = bl['term']
        if t['k'] == 'call':
            print('    %s = CALL %s(%s) -> bb%s   @%s' % (place_str(t['dest']), (t['callee'] or {}).get('path', t['fty'])[-70:], ', '.join(op(o) for o in t['args']), t['target'], t['loc'].split(':', 1)[1]))
        elif t['k'] == 'switch':
            print('    SWITCH %s %s else bb%d' % (op(t['discr']), t['vals'], t['otherwise']))
        elif t['k'] == 'assert':
            print('    ASSERT %s %s(%s) -> bb%d' % (t['akind'], t['bop'], ', '.join(op(o) for o in t['ops']), t['target']))
        elif t['k'] == 'drop':
            print('    DROP %s -> bb%d' % (place_str(t['place']), t['target']))
        else:
            print('    ' + t['k'].upper(), t.get('target', ''))


if __name__ == '__main__':
    f = Facts(sys.argv[1])
    for p in sys.argv[2:]:
        for b in f.find(p, kinds=('fn', 'method', 'closure', 'promoted')):
            show(b)
            print()
