"""Generates /verif/MANIFEST.json from the claim table below (python3 -m scv.manifest)."""
import json
import os

from .build import VERIF

NOTE = ('Trusted base: rustc nightly MIR construction and trait resolution; regex-syntax 0.8 HIR translation; the frozen '
        'tables under scv/tables (oracles quoted from the property statements, external-callee classification, reviewed '
        'discharges); std/chrono/regex/serde behave as documented inside their domains. Assumed: no allocation failure, '
        'no stack exhaustion, user RuleTrait code is outside the analysis. The check decides the structural clauses '
        'listed in level_claimed.text, not the behaviour as a whole. Functions that are not in the reference inventory '
        '(scv/tables/functions.txt) and are only called directly are spliced into their callers before the rules run (DESIGN.md E0b).')

CLAIMS = {
    'C01': dict(
        technique='MIR panic-obligation analysis over the evaluation call graph with interval / guard / regex-structure discharges; loop ranking templates; CFG shape rules; E6c walk discharge (bounded tables with overflow flags, bounds checks and unwraps evaluated) for position obligations in format_number and the byte-to-character map',
        ref='DESIGN.md section 5 C01',
        text='Static. Decided clauses: (P) every construct that can unwind in a body reachable from execute/execute_session '
             '(MIR Assert terminators; calls to a frozen table of panicking std/chrono/regex callees; diverging calls) is an obligation that '
             'must be discharged by a machine-checked reason (constant folding, intervals, dominating guards, regex group mandatoriness/digit '
             'languages from regex-syntax, pattern-typed field getters, RefCell guard liveness, data facts) or by a reviewed entry; (T) every natural loop and '
             'call-graph SCC in reach matches a ranking template whose side conditions are re-checked (iterator loops, counter loops, the '
             'three rewrite loops with the >= 2-token data premise, parser cursor loops); (S) one slot per line: split regex literal, push-per-iteration, '
             'cursor increment. Calls to external functions outside the frozen table are obligations when their own rustdoc has a Panics clause or they are std slicing / splitting APIs; the variable-substitution loop additionally needs that a Variable token matches no field pattern (field_compare answers false for it on every path). Not decided: stack exhaustion on deep nesting, allocation failure, panics inside regex/chrono/serde on documented-domain inputs. Position obligations inside format_number and the byte-to-character map are discharged by the E6c walks (every walk returns with overflow flags, bounds checks and unwraps evaluated; bounded by the tabulated lengths); an unwrap of a token match written in place is discharged by the pattern typing of the field, like the typed getters. Position obligations of the pattern scan are discharged by the matcher table walk, never an unwrap of a field getter (that is decided by the patterns in the data).'),
    'C02': dict(
        technique='value-DAG (gated use-def) extraction of parser ladder, fold shape, operator tables; must-pass-through on the CFG; lexical competition model (E7b): generated sample lines evaluated on the configured regexes, family order and alias tables',
        ref='DESIGN.md section 5 C02',
        text='Static. Decided clauses: precedence ladder wiring and operator arrays; left fold in parse_binary; char->OperationType->arithmetic tables with operand order; '
             'guarded division (the returned term tabulated over finite, +-inf, NaN and overflowing quotients); the two suffix tables agree with 1000^k; implicit + / leading 0 insertion and its guard; every peek..return Ok(non-None) path in src/syntax consumes the token; '
             'stage order of tokinize. G9 a detached prefix sign negates (tabulated on positive, negative and fractional literals), variables / percentages / money get exactly one PrefixUnary wrapper, every numeric DataItem::unary negates on Minus and keeps the value on Plus. G10 token_cleaner drops Text tokens from position 0 or from behind the first "=" and from nowhere else (a magnitude suffix in front of a parenthesis is dropped like any other); G11 per suffix letter the Number token ends behind the suffix (evaluated from the value term of the reader), or no unit spelling equals the letter; G5 is judged on the evaluated value term of both literal readers (match, const table or helper alike). Not decided: independence from spacing over all strings, exact f64 results. G12 (E7b) decimal literals in every separator convention and magnitude-suffixed literals come out of the lexical stages as one Number token, alone and inside an expression. G13 the number reader carries no state from one literal of the line to the next (no loop-carried variable in the value term). G3 and G9 are tables by evaluation per operator character / sign.'),
    'C03': dict(
        technique='dominance / who-may-write / use-def rules over MIR; path-following abstract interpretation of the substitution search over order types (E6c)',
        ref='DESIGN.md section 5 C03',
        text='Static. Decided clauses: the only write of VariableInfo.data is dominated by successful evaluation and stores the evaluation result (value, not the expression); '
             'Session.variables is written only by add_variable, called only from the assignment parser after the right-hand side parsed; both key constructions lower-case; '
             'no DataItem implementor has interior mutability; V7 the search for the next variable touches match positions and name lengths only through copies and comparisons, and for every order type of up to three candidate matches, in every map order, '
             'the drained span and the inserted binding are those of the closest, then longest match. Not decided: more than three simultaneous matches as such (the fold is tabulated, not proved inductively); what find_location matches; histories as such.'),
    'C04': dict(
        technique='ownership/effect rules: interior-mutable cell writes by receiver origin, who-may-call for ambient inputs, coupled-state rule for the session cursor',
        ref='DESIGN.md section 5 C04',
        text='Static. Decided clauses: evaluation entry points take &self; every write to an interior-mutable cell reachable from the configuration type has a receiver derived from the '
             'evaluating tokenizer\'s own token list; insertions into that list are fresh Rc::new values; no mutable static; ambient callees in reach are limited to the UTC clock; execute allocates a fresh Session; '
             'every body assigning Session.text_parts also resets Session.position. V4 (shared with C03) the key a binding is stored under and the key an assignment looks it up under are built alike, so a re-used session keeps one binding per name. Not decided: equality of results across histories as such. F5 also requires that set_text puts the cursor on the first line on every path to its return; the lines and the cursor of a Session are located by type.'),
    'C05': dict(
        technique='value-DAG extraction + rational-function normalisation of the percent formulas; pattern/field-name cross-check against config.json; lexical competition model (E7b): generated sample lines evaluated on the configured regexes, family order and alias tables; E6c matcher table (rule_tokinizer / find_match / unit-literal scan walked over lines of up to four tokens against a reference scan)',
        ref='DESIGN.md section 5 C05',
        text='Static. Decided clauses: the six formulas as identities over Q(X,p,A,B) (modulo field identities, so algebraic rewrites stay silent); money result iff a currency was found, same value in both arms; '
             'rule name -> function -> keyword routing per language; every field a rule function reads is bound by every pattern of that rule with an accepted type; both percent spellings. Q7 the phrase table is closed: every rule that consumes a PERCENT field is one of the phrases of the statement, a checked pass-through or provably inert (its function requires a field no pattern binds); Q8 no pattern names two fields alike. Not decided: f64 rounding. Q9 (E7b) percent literals and the phrase p% of X with X in every configured currency keep their Percent and Money tokens. Q10 the matcher table (shared with C18 Y7). Q11 the percent reader carries no state from one literal of the line to the next.'),
    'C06': dict(
        technique='value-DAG extraction of the conversion formula (two siblings), who-may-write on the rate table, decision table of MoneyItem::calculate, data cross-checks; lexical competition model (E7b): generated sample lines evaluated on the configured regexes, family order and alias tables; E6c matcher table (rule_tokinizer / find_match / unit-literal scan walked over lines of up to four tokens against a reference scan)',
        ref='DESIGN.md section 5 C06',
        text='Static. Decided clauses: convert_money and MoneyItem::convert_currency compute amount / rate(from) * rate(to); currency_rate is written only by load_from_json and update_currency with the resolved key and the rate parameter; '
             'arithmetic table of MoneyItem::calculate (currency kept, money/money -> number, operand conversion into self\'s currency); money regex groups; read_currency alias-then-code order; alias/rate keys exist. The scale-suffix tables of the number and money readers agree with 1000^k for every suffix (shared with C02 G5). M3 also: on every path under the MONEY arm the right operand of + - * / is convert_currency(self, config, other); M6 no pattern names two fields alike. Not decided: f64 exactness. M7 (E7b) an amount with every ISO code, every currency alias and the symbol forms of the statement is one Money token; neighbouring money literals pair with their own symbol. M8 the matcher table (shared). M9 the money reader carries no state from one literal of the line to the next; the reader core requires the configured separators on every arm of a merged value.'),
    'C07': dict(
        technique='string-provenance rule on lengths used as indices, argument-wiring and decision-table extraction (format templates decoded from MIR constants), dependence analysis of float->int casts; E6c tables of the assembled text (format_number over symbolic renderings, PercentItem / MoneyItem printers)',
        ref='DESIGN.md section 5 C07',
        text='Static, narrow. Decided clauses: N1 a length measured on one rendering is used as an index only into that rendering; N2 each of the four printers hands format_number the value, separators, digit count and flags from the fields the statement names (unit options with their documented defaults), percent prefixes %, units substitute {value}; '
             'N3 each public setter writes exactly its fields from the same-named parameters and the three per-unit options keep their names at every construction site; N4 the minus sign is pushed iff number < 0, first, and the digits are those of |number|; N5 no saturating float->int cast is applied to a magnitude-dependent value inside the formatter; '
             'N6 the printed shape of money for each (symbol_on_left, space_between) combination; N7 grouping modulus 3 and the role / order of the two separators. N8 fract_information reports a zero fraction only under an exact == 0.0 and the fraction is printed iff (fract_part > 0 or zero fractions are kept) and a fraction exists (8 truth assignments walked on the CFG). N9 the printed text is assembled by position from the rendering: for every length of the integer part (1..13, thorough 1..40), 0/1/2/5 fraction digits, either sign and every setting of the two zero-fraction flags the result is [-] + the integer digits in groups of three from the right + [decimal separator + fraction digits], tabulated by walking the exported MIR over symbolic renderings (E6c; independent of how the loops are written); N7 and the omission table of N8 defer to it, N1 falls back on the provenance of positions recorded in these walks. Not decided: correct rounding of the value and the text of the renderings themselves (numerical behaviour, not reachable by this family); integer parts longer than the tabulated bound. N3 also requires that every setter stores its argument on every path (no guard that silently keeps the old value).'),
    'C08': dict(
        technique='effect analysis: field-read sets + call-graph layering (non-interference by absence of reads)',
        ref='DESIGN.md section 5 C08',
        text='Static. Decided clauses: the bodies reading the separator fields are exactly the three literal readers and the four printers; no compute-layer body (calculate/get_number/unary impls, rule functions, interpreter, unit conversion) reaches one of them; '
             'the three readers apply the same transformation in the same order. A4 sample literals with thousands groups and a fraction are accepted by the number and percent regexes in every separator convention (shared with C15). Not decided: that every literal of a convention is matched by the regexes. R6 the literal readers skip a match only for a missing group or a parse error (the vocabulary of their head calls); any other skip decision is reported. R7 no literal reader carries state between captures.'),
    'C09': dict(
        technique='finite-domain tabulation of the extracted month/year step terms (month 1..12 x count 1..12) against calendar arithmetic; argument wiring; gamma decision tables; scan-shape rule over the parser registries; lexical competition model (E7b): generated sample lines evaluated on the configured regexes, family order and alias tables',
        ref='DESIGN.md section 5 C09',
        text='Static. Decided clauses: D1 the date DateItem::calculate hands to its final +/- step, tabulated from the result term of the function over Add/Sub x year/month step x every (month, count) cell, equal calendar arithmetic with the day unchanged (failure classes invalid-month / wrong-year / wrong-month are separate findings); D2 small_date builds the date with the checked constructor from the fields named year / month / day, rejects None, defaults the year to the current year, and every date pattern binds day and month with accepted types; '
             'D3 A to B is the larger minus the smaller of the two stored values, for dates and for times; D4 today / tomorrow / yesterday are today +0 / +1 / -1 days and every language names them; D5 every literal parser iterates over all matches; D6 month table numbering (index+1, stored at number-1, emitted by the parser, printed from month-1); D7 the duration is split by YEAR and MONTH with exact remainders and the remainder is applied with the operation\'s own operator. '
             'L2 every configured month spelling is recognised by the regexes built at load time (shared with C19). D8 no date pattern names two fields alike. Not decided: leap days, day-of-month overflow (31 Jan + 1 month), 30-day months versus calendar months for counts given in days. D1 also walks day 31 for the cells whose target date exists and reports a nested invalid from_ymd as unwinding. D9 (E7b) every month name of every language is a Month token between two numbers. D1 also walks leap-day cells (steps that start or arrive on 29 February, incl. a year divisible by 400).'),
    'C10': dict(
        technique='evaluated constants, gamma decision tables, CFG chain shape, data tables; lexical competition model (E7b): generated sample lines evaluated on the configured regexes, family order and alias tables; E6c tables of the format selection (duration_formatter) and of the sum (combine_durations); E6c matcher table (rule_tokinizer / find_match / unit-literal scan walked over lines of up to four tokens against a reference scan)',
        ref='DESIGN.md section 5 C10',
        text='Static. Decided clauses: MINUTE..YEAR constants; duration_parse table (unit -> constructor/factor); combine_durations sums every field, calculate table; the print chain divides and reduces by the same constant in strictly descending order (sum-preserving by construction); '
             'singular/plural tables; as_duration flooring table with matching divisor and constructor. DU7 the pattern scan never restarts a pattern on the token that failed it (scan index only 0 / +1, never borrowed), which is what makes `D1 D2 as unit` floor the whole duration although as_duration is tried before combine_durations. DU8 no duration pattern names two fields alike (a repeated name silently drops a matched duration). Not decided: overflow for huge counts (C01), spelling recognition. DU5 the format used is the exact-count entry of the unit, else its generic entry, else the bare number (E6c table over format tables of up to three entries); DU3 combine_durations returns the formal sum of all captured durations (E6c, 2..4 fields). DU9 (E7b) every duration word of every language follows its number as a plain word. DU10 the matcher table (shared; DU7 defers to it when the counters it names are gone). DU6 also requires that no result of as_duration is selected by the size of the duration.'),
    'C11': dict(
        technique='call-chain signatures of the zone conversions (with the resolved time-zone type of every chrono call), unit rule at every FixedOffset constructor, finite-domain tabulation of the GMT offset formula and of as_time, who-may-call rule for the host zone, gamma tables; lexical competition model (E7b): generated sample lines evaluated on the configured regexes, family order and alias tables',
        ref='DESIGN.md section 5 C11',
        text='Static. Decided clauses: Z1 reading a time anchors the wall time in east(default*60) and stores its UTC instant with the default zone; re-anchoring reads the instant in the current zone and anchors the same wall time in east(target*60); conversion keeps the stored instant and swaps the display zone; printing shows east(offset*60).from_utc_datetime(instant); '
             'Z2 every FixedOffset constructor in the crate is east(<offset in minutes> * 60); Z3 all table offsets are multiples of 15 minutes within [-720, 840], UTC/GMT are 0, GMT+/-h[:mm] = sign*(h*60+m) on every (hour, minute, sign) cell, regex bounds h <= 19, m <= 59; Z4 as_time(d) = ((|d|/3600) mod 24, (|d| mod 3600)/60, |d| mod 60) on boundary durations of both signs; '
             'Z5 no evaluation-reachable call goes through chrono::Local; Z6 set_timezone stores the upper-cased name and offset parse_timezone returned; Z7 and_hms takes hour / minute / second from the groups of those names, pm adds 12 below 12, regex bounds; Z8 TimeItem::calculate adds / subtracts seconds-from-midnight of the operand; Z9 T1 to T2 is the larger minus the smaller stored instant. '
             'Not decided: real-world correctness of the 191 offsets; 12:xx am/pm (excluded by the statement). Z11 (E7b) a time followed by every zone abbreviation of the table and the GMT forms is Time Timezone. Direct reads of a token payload are canonicalised to the typed getter before the chains are compared. Z12 the time reader carries no state from one literal to the next.'),
    'C12': dict(
        technique='exact rational arithmetic over the unit tables of config.json; gamma-expanded value DAGs of calculate_unit/convert/calculate; lexical competition model (E7b): generated sample lines evaluated on the configured regexes, family order and alias tables; E6c matcher table (rule_tokinizer / find_match / unit-literal scan walked over lines of up to four tokens against a reference scan)',
        ref='DESIGN.md section 5 C12',
        text='Static. Decided clauses: K1 adjacent steps are inverse (exact rationals); K2 every step and bridge equals the definition quoted in the property; K5 all code strings are positive linear maps (K1+K5 => linear, invertible, transitive over the reals); '
             'K4 walk shape of calculate_unit (which code, which direction, step 1) and bridge-code selection; K3 bridges connect one kind and the family searched after a bridge depends on the bridge record; K6 arithmetic table; K7 literal patterns. K6 also requires that every operand entering the arithmetic under the DYNAMIC_TYPE arm is the result of convert(..); K4b the result of calculate_unit is the accumulated amount itself and convert does no arithmetic of its own. Z10 no pattern names two fields alike. K9 no unit spelling is a currency code or alias that a money regex accepts (the money reader runs first); K10 no pattern names two fields alike. Not decided: f64 rounding; separator dependence (C08). K4b every early return of calculate_unit is conditioned on the units, not on the amount. K11 (E7b) a quantity in every unit spelling (both letter cases) is Number Text. K12 the matcher table incl. the unit-literal scan (which token the amount is read from). K13 unit names are compared by equality only (no prefix / substring test).'),
    'C13': dict(
        technique='table agreement between reader (regex classes, radix constants) and printer (format traits, cast width) from MIR constants and regex-syntax; lexical competition model (E7b): generated sample lines evaluated on the configured regexes, family order and alias tables',
        ref='DESIGN.md section 5 C13',
        text='Static. Decided clauses: (group, prefix class, digit class, radix constant, NumberType, format trait) rows agree for bases 2/8/16; reader integer type and printer cast width agree; number_type_convert rounds and its word table equals the configured word group; results keep self.1. '
             'Not decided: round trip for every integer as such. B3 also requires that the arms of the base conversion test the operand type only (no guard on the value). B7 (E7b) based literals come out as one Number token. B8 the number reader carries no state from one literal to the next.'),
    'C14': dict(
        technique='use-def wiring of the epoch API pair; cast-width rule',
        ref='DESIGN.md section 5 C14',
        text='Static. Decided clauses: from_unixtime builds the UTC value with from_timestamp(N as i64, 0), to_unixtime reads .timestamp() of the stored UTC value or of midnight, with no offset arithmetic in between; Raw numbers print with a 64-bit cast; patterns bind the fields read. The word table of B3 is evaluated per target word from the result term; B6 no pattern names two fields alike. Z3 (shared with C11) the zone table and the GMT+/-h[:mm] formula that give "N to date" its zone; X6 no pattern names two fields alike. Not decided: calendar correctness of chrono. D2 (shared with C09) the date spelling reader: the year is the year written.'),
    'C15': dict(
        technique='reader/printer table agreement: printed shapes (format strings of config.json, format templates and literals found as MIR constants, symbol placement table) checked for membership in the reader\'s tables and in the regex-syntax HIR of the reader\'s regexes, per kind and language; lexical competition model (E7b): generated sample lines evaluated on the configured regexes, family order and alias tables',
        ref='DESIGN.md section 5 C15',
        text='Static, table level. Decided clauses: A1 every word of a duration format of language L is a duration word of L of the same kind and in L\'s duration word group, L configures the reading and combining rules, and the duration printer emits counts, words and blanks only; A2 each date format of L has the token-class sequence and field names of one of L\'s date patterns and month names come from L\'s month table; '
             'A3 HH:MM:SS is in the language of a time regex, zone names are in the zone regex, L has the rule that reads a time followed by a zone; A4 printed number / percent samples in every separator configuration of the quantifier are in the reader\'s regexes, the percent sign position agrees; '
             'A5 for the currencies nameable through the alias table the printed symbol is inside the CURRENCY class of a money regex with the same placement and resolves back to the same currency; A6 the word of every unit format is a word its parse patterns accept, number first; A7 based-integer prefix / digit alphabet and regex order (shared with C13). '
             'A8 (shared) the date reader takes the year exactly as written (C09 D2) and the number printer cuts its rendering with lengths measured on that rendering (C07 N1). N2 (shared with C07) every printer hands format_number the configured separators the readers normalise with. Not decided: that the re-read value prints identically (depends on rounding, C07, and on regex competition between families). A9 (E7b) the zone, money and alias samples of the neighbouring properties, as far as a printed result contains them. A4 and N2 / N6 read the printed assembly off an E6c walk of the printers. A10 the parser hands back the result of the expression ladder unchanged (no error of its own for left-over tokens, which printed forms such as the Danish amount have).'),
    'C16': dict(
        technique='origin-scoped comparison rule (case normalisation of both operands), table-case data rules, argument wiring of the noise parsers, per-stage producer-order rule over the parser registries, finite enumeration of interval orderings for the claim predicate; lexical competition model (E7b): generated sample lines evaluated on the configured regexes, family order and alias tables',
        ref='DESIGN.md section 5 C16',
        text='Static. Decided clauses: W1 every comparison whose operand is a Text/Symbol/Group payload lower-cases both sides; currency, month, zone, alias-word and variable-name lookups normalise the user\'s text and their tables are stored (or configured) in the normalised case; '
             'W2 comment and whitespace parsers claim exactly group 0 of their match with no token type, cleanup keeps typed tokens only, the parser input is built from typed tokens; W3 the comment parser is the first token producer of every stage (type-less claims are forgotten between stages); '
             'W4 add_token_location rejects every interval ordering in which an end point of a later span lies in a claimed one; W5 the whitespace regex is one-or-more blanks. Not decided: invariance under extra blanks over all lines; duration-unit words and day keywords are matched case-sensitively (not among the classes the statement lists; NOTE). W6 (E7b) connective keywords of the rule patterns reach the rules as plain words in any letter case.'),
    'C17': dict(
        technique='unit/offset-domain dataflow (bytes vs chars as an interprocedural fixpoint over fields, parameters and results), string-identity (haystack provenance) analysis, finite enumeration of interval orderings for the collision predicate, dominance rules; E6c table of the byte-to-character map; narrowing-cast rule on unit-carrying values',
        ref='DESIGN.md section 5 C17',
        text='Static. Decided clauses: H1 values stored into UiToken.start/end are character offsets, no comparison / field / parameter in the crate mixes byte and character offsets, the per-byte map is indexed with byte offsets only and get_position returns characters on every path; '
             'H2 a regex match offset is used as a line offset only when the haystack is the tokenizer\'s identity copy of the line, and that copy and the byte->char map are built from the same string; H3 tokens are appended only after the collision test, the collision predicate rejects every one of the interval orderings that share a character (all orderings of the four end points enumerated), sort dominates every merge, a merge replaces a run by one token with the outer bounds; '
             'H4 number / operator / comment parsers report their own kind on the group they tokenised, after the internal token was accepted. H5 the byte offset of the k-th character becomes the character position k and the byte length of the line the number of its characters: tabulated by walking UiTokenCollection::new and get_position (E6c on symbolic strings, callees entered) for every line of up to three characters of 1..4 bytes and every character boundary, whatever data structure the map uses; H1 takes the unit of the result of get_position from this table. Not decided: well-formedness for all lines as such (depends on regex behaviour and on the known haystack findings). H6 no value carrying a byte or character unit is cast to a narrower integer and the element type of the character map is usize. H7 a new span is accepted exactly when it overlaps no token of the collection, in any push order (E6c, collections of up to two tokens); H5 also walks offsets behind the end of the line (they must stay within it).'),
    'C18': dict(
        technique='write-shape rules on the rule list / type table, sibling agreement of the three rewrite arms, panic obligations fed by user data; E6c matcher table (rule_tokinizer / find_match / unit-literal scan walked over lines of up to four tokens against a reference scan)',
        ref='DESIGN.md section 5 C18',
        text='Static. Decided clauses: add_rule appends exactly one API entry and fails only on unknown language without a write; delete_rule removes the first API entry of that name and nothing else; no other writer of the rule list outside setup; the three rewrite arms follow one protocol; field names reach the rule unchanged; duplicate family/item paths return false before any write; '
             'user-supplied patterns/indices cannot panic the evaluator. Y5 registrations are history-free: the calculator has no state besides its configuration and every stored token list is, on every path, the result of token_infos on a session created for that one pattern; Y6 the three-part field regex accepts letters of any case, digits and non-ASCII letters in NAME and EXTRA. Not decided: user RuleTrait code; histories as such. Y7 the pattern scan, tabulated (matcher table): for internal rules, user rules and unit literals the rule function is called with every named field bound to the token that matched it in the completed attempt, the scan goes on behind a token that ended an attempt, and the matched run is replaced by one token at its start.'),
    'C19': dict(
        technique='per-language table parity on config.json + wiring of the session language to the printers; lexical competition model (E7b): generated sample lines evaluated on the configured regexes, family order and alias tables',
        ref='DESIGN.md section 5 C19',
        text='Static, table level. Decided clauses: every language has all months (long+short), all duration kinds, constant kinds 1..11, every referenced word group; every configured month spelling is recognisable; printers look up the session language and pass it on; word-free rules have identical patterns in all languages. L7 every alias key, compiled between two word boundaries, is bounded by them (no top-level alternation). Not decided: value equality of translated lines. L8 the first letter of a month or weekday name is taken by character (E4 units), and (E7b) month names with a multi-byte first letter are Month tokens. D6 (shared with C09) the row index of the month table is the month number minus one. Y5 (shared with C18) a rule, date pattern or unit registered for a language is tokenised in that language.'),
}


def main():
    have = sorted(p[:-3] for p in os.listdir(os.path.join(VERIF, 'scv', 'rules')) if p.startswith('C') and p.endswith('.py'))
    checks = []
    na = []
    for pid in ['C%02d' % i for i in range(1, 20)]:
        c = CLAIMS[pid]
        if pid in have:
            checks.append({
                'property_id': pid,
                'quick_cmd': './check %s --tier quick' % pid,
                'thorough_cmd': './check %s --tier thorough' % pid,
                'evidence_file': 'evidence/%s.json' % pid,
                'replay_cmd_template': './check --explain {path}',
                'engine': 'scv',
                'level_claimed': {'category': 'other', 'text': c['text'], 'design_ref': c['ref']},
                'level_note': NOTE,
                'technique': 'static analysis: ' + c['technique'],
            })
        else:
            na.append({'property_id': pid, 'reason': 'check not built yet in this revision (planned: %s)' % c['technique']})
    m = {
        'version': 1,
        'setup_cmd': './setup.sh',
        'hooks': {
            'guard': 'none (no hooks: the analysis reads /repo\'s source through a compiler wrapper and needs no instrumentation)',
            'enable': 'n/a - checks run `cargo +nightly check --lib --offline` on /repo with RUSTC_WORKSPACE_WRAPPER=/verif/.work/driver-target/debug/scv-driver',
            'baseline_off_cmd': 'cd /repo && cargo test --workspace --no-fail-fast --offline',
            'source_commits': [],
            'add_only': True,
        },
        'engines': [
            {'name': 'E0 exporter', 'path': 'driver/', 'serves_properties': have, 'kind_free_text': 'rustc_private driver: MIR/ADT/impl/const facts of the current tree as JSON lines'},
            {'name': 'E1-E6, E8 analyses', 'path': 'scv/', 'serves_properties': have, 'kind_free_text': 'Python 3.11 stdlib: call graph, dominators, loops, gated use-def value DAGs, intervals, panic obligations, protocol rules'},
            {'name': 'E7 datatool', 'path': 'datatool/', 'serves_properties': have, 'kind_free_text': 'regex-syntax HIR export of every configured regex (same parser as the runtime)'},
        ],
        'checks': checks,
        'not_applicable': na,
        'notes': 'Technique family: static analysis only. All verdicts are computed from /repo\'s current source (Rust + embedded config.json) without running smartcalc. '
                 'Genuine defects of the pinned tree are listed in known_findings.json (KNOWN-FINDING lines); see DESIGN.md.',
    }
    with open(os.path.join(VERIF, 'MANIFEST.json'), 'w') as fh:
        json.dump(m, fh, indent=1)
    print('MANIFEST.json: %d checks, %d not_applicable' % (len(checks), len(na)))


if __name__ == '__main__':
    main()
