"""E6c - path-following abstract interpretation of MIR fragments over small finite domains.

Where a piece of code touches some of its values *only through copies and comparisons* (a position, a length, an identity),
its behaviour depends on those values only through their relative order: finitely many order types. This module walks the
exported MIR of a function along the one path that a given assignment of *representatives* of such order types selects,
with every callee replaced by a model (a dozen std identities plus rule-specific leaves such as "this iterator yields these
candidates"). Callers tabulate an observation (arguments of a call further down the path) over all order types and compare
it with the table quoted from the property statement.

Nothing of smartcalc is compiled or executed: the input is the fact base (MIR as JSON), values are abstract
representatives, callees are models, and anything the machine does not understand raises Unknown (the caller fails closed,
naming the construct). The premise "only copies and comparisons" is checked while walking: arithmetic on a representative
inside the blocks the caller marks as `order_only` raises Unknown.
"""
import re

from .facts import opplace

MAXU = 18446744073709551615


class Unknown(Exception):
    pass


class Rep(int):
    """representative of an order type: may be copied and compared; arithmetic is refused inside order-only regions"""
    def __repr__(self):
        return 'Rep(%d)' % int(self)


class Tagged(int):
    """an integer that remembers what it was measured on (a set of tags): `s.len()`, and whatever is computed from it or
    bounded by it. Lets a rule ask whether a position taken in one sequence was derived from the length of another."""
    def __new__(cls, v, tags=()):
        o = int.__new__(cls, v)
        o.tags = frozenset(tags)
        return o

    def __repr__(self):
        return 'Tagged(%d, %s)' % (int(self), sorted(self.tags))


def tags_of(v):
    return getattr(v, 'tags', frozenset())


class Sym(tuple):
    """opaque value: ('sym', text)"""


def sym(text):
    return ('sym', text)


def is_sym(v):
    return isinstance(v, tuple) and len(v) == 2 and v[0] == 'sym'


def is_ptr(v):
    return isinstance(v, tuple) and len(v) == 3 and v[0] == 'ptr'


STD_DISCR = {'Option::None': 0, 'Option::Some': 1, 'Result::Ok': 0, 'Result::Err': 1, 'ControlFlow::Continue': 0, 'ControlFlow::Break': 1}

CMP = {'lt': lambda a, b: a < b, 'le': lambda a, b: a <= b, 'gt': lambda a, b: a > b, 'ge': lambda a, b: a >= b,
       'eq': lambda a, b: a == b, 'ne': lambda a, b: a != b}
BINCMP = {'Lt': 'lt', 'Le': 'le', 'Gt': 'gt', 'Ge': 'ge', 'Eq': 'eq', 'Ne': 'ne'}

IDENTITY_CALLS = re.compile(
    r'(^|::)(Borrow|BorrowMut|AsRef|Into|From|Deref|DerefMut)::(borrow|borrow_mut|as_ref|into|from|deref|deref_mut)$|'
    r'(Deref|DerefMut)>::deref(_mut)?$|Borrow<.*>>::borrow$|BorrowMut<.*>>::borrow_mut$|RefCell::<.*>::borrow(_mut)?$|'
    r'AsRef<.*>>::as_ref$|Into<.*>>::into$|From<.*>>::from$|String::as_str$|Option::<.*>::as_ref$|'
    r'IntoIterator>::into_iter$|core::hint::must_use$|Rc::<.*>::new$|RefCell::<.*>::new$|Cell::<.*>::new$|Box::<.*>::new$|Option::<.*>::as_deref$')
VALUE_CALLS = re.compile(r'::clone$|ToOwned>::to_owned$|ToString>::to_string$|::to_string$|Option::<.*>::(cloned|copied)$')


class Machine:
    def __init__(self, body, model=None, order_only=(), max_steps=4000):
        self.b = body
        self.env = {}
        self.model = model
        self.order_only = set(order_only)
        self.max_steps = max_steps
        self.cur = None
        self.trace = []
        self.heap_n = 0
        self.events = []
        self.fid = 0                 # frame id: 0 is the function the rule walks; callees entered with invoke() get their own
        self.shared = {'frames': 0}
        self.depth = 0
        self.enter = None            # predicate(path) -> bool: crate-local callees to walk into instead of treating them as opaque

    def k(self, local):
        """environment key of a MIR local of the current frame"""
        return local if self.fid == 0 else (self.fid, local)

    def invoke(self, body, argvals):
        """walk a crate-local callee (or closure body) on the given argument values and hand back what it returns; the
        environment is shared, so pointers into the caller stay valid"""
        if self.depth > 10:
            raise Unknown('call depth')
        sub = Machine(body, self.model, max_steps=self.max_steps)
        sub.env = self.env
        sub.events = self.events
        sub.shared = self.shared
        self.shared['frames'] += 1
        sub.fid = self.shared['frames']
        sub.depth = self.depth + 1
        sub.enter = self.enter
        sub.ctrl_tags = getattr(self, 'ctrl_tags', frozenset())
        for i, v in enumerate(argvals, 1):
            sub.env[sub.k(i)] = v
        why = sub.run(0)
        if why != 'return':
            raise Unknown('%s ended with %s' % (body.path.rsplit('::', 1)[-1], why))
        self.ctrl_tags = getattr(sub, 'ctrl_tags', frozenset())
        return sub.load(sub.k(0))

    def apply_fn(self, f, params):
        """call a function value (closure aggregate or fn item) on parameter values; None when it is not a known crate-local body"""
        fv = self.deref_value(f)
        if isinstance(fv, dict) and str(fv.get('__adt__', '')).startswith('closure:'):
            body = self.b.facts.bodies.get(fv['__adt__'][8:])
            if body is not None:
                return self.invoke(body, [f if is_ptr(f) else fv] + list(params))
        if is_sym(fv) and fv[1].startswith('fn:'):
            body = self.b.facts.bodies.get(fv[1][3:])
            if body is not None and body.argc == len(params):
                return self.invoke(body, list(params))
            # a tuple-variant constructor used as a function value (`.map(TokenType::Duration)`)
            path = re.sub(r'::<.*>$', '', fv[1][3:])
            owner, _, vname = path.rpartition('::')
            rec = self.b.facts.adts.get(owner)
            if rec and any(v['name'] == vname for v in rec['variants']):
                return self.make_adt(path, list(params), [])
        return None

    # ------------------------------------------------------------------ values
    def alloc(self, v, name=None):
        self.shared['heap'] = self.shared.get('heap', 0) + 1        # one counter for all frames: they share the environment
        k = name or ('h%d' % self.shared['heap'])
        self.env[k] = v
        return ('ptr', k, ())

    def load(self, local):
        if local in self.env:
            return self.env[local]
        if isinstance(local, int) and self.fid == 0 and 1 <= local <= self.b.argc:
            return sym('arg:%s' % self.b.arg_names.get(local))
        return sym('undef:_%s' % (local,))

    def proj_read(self, v, pe):
        if pe == 'deref':
            if is_ptr(v):
                return self.read(v[1], v[2])
            return v                                  # smart pointers (Rc, Box, Ref) are transparent
        if isinstance(pe, dict) and 'field' in pe:
            name = pe['field'].rsplit('.', 1)[-1]
            if is_ptr(v):                             # auto-deref of a transparent smart pointer
                v = self.read(v[1], v[2])
            if is_sym(v):
                return sym('%s.%s' % (v[1], name))
            if isinstance(v, tuple) and v and v[0] == 'tuple':
                i = int(name.lstrip('#'))
                if i >= len(v[1]):
                    raise Unknown('tuple index %s' % name)
                return v[1][i]
            if isinstance(v, dict):
                key = name.lstrip('#')
                if key in v:
                    return v[key]
                if name in v:
                    return v[name]
                if v.get('__open__'):
                    return sym('%s.%s' % (v.get('__adt__', '?'), name))      # a part of the input the rule leaves open
                raise Unknown('field %s of %s' % (name, v.get('__adt__')))
            raise Unknown('field %s of %r' % (name, v))
        if isinstance(pe, dict) and 'downcast' in pe:
            if isinstance(v, dict) and v.get('__variant__') not in (None, pe['downcast']):
                raise Unknown('downcast to %s of a %s' % (pe['downcast'], v.get('__variant__')))
            return v
        if isinstance(pe, dict) and ('index' in pe or 'cidx' in pe):
            # `place[i]` on a slice / array / vector the machine holds
            i = pe['cidx'] if 'cidx' in pe else self.deref_value(self.load(self.k(pe['index'])))
            if is_ptr(v):
                v = self.read(v[1], v[2])
            if isinstance(v, tuple) and len(v) >= 2 and v[0] in ('vec', 'tuple', 'str') and isinstance(i, int) and not isinstance(i, Rep):
                if not 0 <= i < len(v[1]):
                    raise Unknown('index %d into a sequence of %d' % (i, len(v[1])))
                return v[1][i]
            raise Unknown('index %r into %r' % (i, v if not isinstance(v, tuple) else v[0]))
        raise Unknown('projection %r' % (pe,))

    def read(self, local, proj=()):
        v = self.load(local)
        for pe in proj:
            v = self.proj_read(v, pe)
        return v

    def _update(self, v, proj, new):
        if not proj:
            return new
        pe = proj[0]
        if pe == 'deref':
            if is_ptr(v):
                self.write(v[1], tuple(v[2]) + tuple(proj[1:]), new)
                return v
            return self._update(v, proj[1:], new)
        if isinstance(pe, dict) and 'field' in pe:
            name = pe['field'].rsplit('.', 1)[-1]
            if is_ptr(v):
                self.write(v[1], tuple(v[2]) + tuple(proj), new)
                return v
            if isinstance(v, tuple) and v and v[0] == 'tuple':
                i = int(name.lstrip('#'))
                vals = list(v[1])
                vals[i] = self._update(vals[i], proj[1:], new)
                return ('tuple', vals)
            if isinstance(v, dict):
                d = dict(v)
                key = name.lstrip('#')
                d[key] = self._update(d.get(key, sym('undef')), proj[1:], new)
                return d
            if is_sym(v):
                return v                              # a write into an opaque object is not tracked
            raise Unknown('write to field %s of %r' % (name, v))
        if isinstance(pe, dict) and 'downcast' in pe:
            return self._update(v, proj[1:], new)
        raise Unknown('write projection %r' % (pe,))

    def write(self, local, proj, new):
        if not proj:
            self.env[local] = new
        else:
            self.env[local] = self._update(self.load(local), tuple(proj), new)

    def operand(self, o):
        if 'const' in o:
            c = o['const']
            if 'fn' in c:
                return sym('fn:' + c['fn']['path'])
            v = c.get('str', c.get('val'))
            if isinstance(v, bool):
                return int(v)
            if v is None:
                txt = c.get('text') or ''
                # a promoted constant (`&['=', '(']`) or a `const ITEM`: what its body returns
                m = re.fullmatch(r'const (.*)::promoted\[(\d+)\]', txt)
                kb = None
                if m:
                    kb = self.b.facts.bodies.get('%s::{promoted#%s}' % (m.group(1), m.group(2))) or self.b.facts.bodies.get('%s::{promoted#%s}' % (self.b.path, m.group(2)))
                    if kb is None:
                        for hp in getattr(self.b.facts, 'spliced', {}):
                            if m.group(1).endswith(hp.rsplit('::', 1)[-1]):
                                kb = self.b.facts.bodies.get('%s::{promoted#%s}' % (hp, m.group(2)))
                elif txt.startswith('const '):
                    kb = self.b.facts.bodies.get(txt[6:])
                    if kb is not None and kb.kind != 'const':
                        kb = None
                if kb is not None and not kb.loops() and len(kb.blocks) <= 40 and self.depth < 8:
                    key = ('constval', kb.path)
                    if key not in self.shared:
                        self.shared[key] = self.invoke(kb, [])
                    return self.shared[key]
                return sym('const:' + txt[:60])
            return v
        p = opplace(o)
        if p is None:
            raise Unknown('operand')
        return self.read(self.k(p['local']), p['proj'])

    def deref_value(self, v, depth=0):
        """the value behind any number of references"""
        while is_ptr(v) and depth < 20:
            v = self.read(v[1], v[2])
            depth += 1
        return v

    def discr_of(self, v):
        v = self.deref_value(v)
        if isinstance(v, dict) and '__discr__' in v:
            return v['__discr__']
        raise Unknown('discriminant of %r' % (v,))

    def make_adt(self, adt, vals, names):
        if adt == 'tuple':
            return ('tuple', list(vals))
        if adt == 'array':
            return ('tuple', list(vals))
        if adt.startswith('closure:'):
            d = {'__adt__': adt, '__caps__': list(vals)}
            for i, v in enumerate(vals):
                d[str(i)] = v
            return d
        d = {'__adt__': adt.rsplit('::', 1)[0], '__variant__': adt.rsplit('::', 1)[1]}
        tail = '::'.join(adt.split('::')[-2:])
        if tail in STD_DISCR:
            d['__discr__'] = STD_DISCR[tail]
        else:
            rec = self.b.facts.adts.get(d['__adt__'])
            if rec:
                for vv in rec['variants']:
                    if vv['name'] == d['__variant__']:
                        d['__discr__'] = vv.get('discr')
        for i, v in enumerate(vals):
            d[str(i)] = v
            if i < len(names):
                d[names[i]] = v
        return d

    def in_order_only(self):
        return self.cur in self.order_only

    def binop(self, op, a, b):
        base = op.replace('WithOverflow', '').replace('Unchecked', '')
        a, b = self.deref_value(a), self.deref_value(b)
        if base in BINCMP:
            if isinstance(a, (int, float)) and isinstance(b, (int, float)):
                self.check_const_compare(a, b)
                return int(CMP[BINCMP[base]](a, b))
            raise Unknown('comparison of %r and %r' % (a, b))
        if not isinstance(a, (int, float)) or not isinstance(b, (int, float)):
            if is_sym(a) or is_sym(b):
                r = sym('(%s %s %s)' % (a[1] if is_sym(a) else a, base, b[1] if is_sym(b) else b))
                return ('tuple', [r, 0]) if op.endswith('WithOverflow') else r
            raise Unknown('arithmetic on %r, %r' % (a, b))
        if (isinstance(a, Rep) or isinstance(b, Rep)) and self.in_order_only():
            raise Unknown('a selection value is used arithmetically (%s) inside the selection: the order-type argument does not apply' % base)
        if base == 'Add':
            r = a + b
        elif base == 'Sub':
            r = a - b
        elif base == 'Mul':
            r = a * b
        elif base in ('Div', 'Rem'):
            if b == 0:
                raise Unknown('division by zero')
            q = abs(a) // abs(b) * (1 if (a >= 0) == (b >= 0) else -1) if isinstance(a, int) and isinstance(b, int) else a / b
            r = q if base == 'Div' else a - b * q
        elif base == 'BitAnd':
            r = a & b
        elif base == 'BitOr':
            r = a | b
        else:
            raise Unknown('binop %s' % op)
        tg = tags_of(a) | tags_of(b)
        if tg and isinstance(r, int):
            r = Tagged(r, tg)
        return ('tuple', [r, 0]) if op.endswith('WithOverflow') else r

    def adt_equal(self, a, b, depth=0):
        """structural equality of two enum values (what #[derive(PartialEq)] and the std impls for Option / Result compute);
        None when a payload is not comparable here"""
        if depth > 6:
            return None
        if a.get('__discr__') != b.get('__discr__'):
            return False
        i = 0
        while str(i) in a or str(i) in b:
            x, y = self.deref_value(a.get(str(i))), self.deref_value(b.get(str(i)))
            if isinstance(x, dict) and isinstance(y, dict) and '__discr__' in x and '__discr__' in y:
                r = self.adt_equal(x, y, depth + 1)
                if r is None or r is False:
                    return r
            elif isinstance(x, (int, float, str)) and isinstance(y, (int, float, str)) and not isinstance(x, Rep) and not isinstance(y, Rep):
                if x != y:
                    return False
            elif x == ('tuple', []) and y == ('tuple', []):
                pass
            else:
                return None
            i += 1
        return True

    def check_const_compare(self, a, b):
        """a representative compared with a literal: only the bounds 0 (<= every index) and usize::MAX (> every index) have
        an answer that holds for every value of the order type"""
        for x, y in ((a, b), (b, a)):
            if isinstance(x, Rep) and not isinstance(y, Rep):
                if y not in (MAXU,):
                    raise Unknown('a selection value is compared with the literal %r' % (y,))

    # ------------------------------------------------------------------ statements
    def rvalue(self, s):
        rv = s['rv']
        ops = s['ops']
        if rv == 'use':
            return self.operand(ops[0])
        if rv in ('ref', 'rawptr'):
            p = opplace(ops[0])
            # a reference to (*ptr).f is the pointer's target plus the projection
            local, pre = self.k(p['local']), []
            for pe in p['proj']:
                cur = self.read(local, pre)
                if is_ptr(cur) and (pe == 'deref' or (isinstance(pe, dict) and 'field' in pe)):
                    local, pre = cur[1], list(cur[2])         # follow the pointer; a field of a pointer auto-derefs
                    if pe == 'deref':
                        continue
                elif isinstance(pe, dict) and 'index' in pe:
                    i = self.deref_value(self.load(self.k(pe['index'])))
                    seq = self.read(cur[1], cur[2]) if is_ptr(cur) else cur
                    if not (isinstance(seq, tuple) and len(seq) >= 2 and seq[0] in ('vec', 'tuple') and isinstance(i, int) and 0 <= i < len(seq[1])):
                        raise Unknown('reference to element %r' % (i,))
                    item = seq[1][i]
                    if is_ptr(item):
                        local, pre = item[1], list(item[2])        # the element is itself a reference / Rc: point at its target
                    else:
                        if is_ptr(cur):
                            local, pre = cur[1], list(cur[2])
                        pre.append({'cidx': i})
                    continue
                elif pe == 'deref':
                    if s.get('mut') is False and rv == 'ref' and isinstance(cur, (dict, tuple)) and not is_sym(cur) and isinstance(local, (int, tuple)) and not (isinstance(local, tuple) and local and local[0] == 'ptr'):
                        # a shared reference through a by-value stand-in of a reference held in a local (the item a slice iterator
                        # handed out): the referent is what the local holds *now* - a later assignment of the local must not
                        # change what this reference sees
                        ptr = self.alloc(cur)
                        local, pre = ptr[1], []
                    continue                                   # transparent smart pointer
                pre.append(pe)
            return ('ptr', local, tuple(pre))
        if rv == 'binop':
            r = self.binop(s['op'], self.operand(ops[0]), self.operand(ops[1]))
            if s['op'].endswith('WithOverflow') and isinstance(r, tuple) and r and r[0] == 'tuple' and isinstance(r[1][0], int) and not isinstance(r[1][0], Rep):
                # the overflow flag of checked arithmetic on an unsigned type: a difference below zero
                tys = [(o.get('copy') or o.get('move') or o.get('const') or {}).get('ty', '') for o in ops]
                if any(re.fullmatch(r'u(8|16|32|64|128|size)', str(t)) for t in tys) and r[1][0] < 0:
                    return ('tuple', [r[1][0], 1])
            return r
        if rv == 'unop':
            a = self.deref_value(self.operand(ops[0]))
            if s['op'] == 'Not':
                if a in (0, 1):
                    return 1 - a
                raise Unknown('Not of %r' % (a,))
            if s['op'] == 'Neg' and isinstance(a, (int, float)) and not isinstance(a, Rep):
                return -a
            if s['op'] == 'PtrMetadata':
                if isinstance(a, tuple) and len(a) >= 2 and a[0] in ('vec', 'str', 'tuple') and isinstance(a[1], list):
                    return len(a[1])                   # the length of a slice the machine holds
                return sym('len')
            raise Unknown('unop %s' % s['op'])
        if rv == 'cast':
            return self.operand(ops[0])
        if rv == 'discr':
            p = opplace(ops[0])
            return self.discr_of(self.read(self.k(p['local']), p['proj']))
        if rv == 'aggr':
            return self.make_adt(s['adt'], [self.operand(o) for o in ops], s.get('fields', []))
        if rv == 'repeat':
            return sym('repeat')
        raise Unknown('rvalue %s' % rv)

    def call(self, t):
        c = t.get('callee')
        path = c['path'] if c else '<indirect>'
        args = [self.operand(a) for a in t['args']]
        if self.model is not None:
            r = self.model(self, path, args, t)
            if r is not NotImplemented:
                return r
        if c and path in self.b.facts.bodies and self.b.facts.bodies[path].kind == 'closure' and len(args) == 2:
            # a closure called where it was made (`let f = || ..; f()`): the call is resolved to the closure body and its
            # arguments arrive as one tuple (rust-call ABI)
            tup = self.deref_value(args[1])
            callee = self.b.facts.bodies[path]
            if isinstance(tup, tuple) and tup and tup[0] == 'tuple' and callee.argc == 1 + len(tup[1]):
                return self.invoke(callee, [args[0]] + list(tup[1]))
        if self.enter is not None and c and path in self.b.facts.bodies and self.enter(path):
            callee = self.b.facts.bodies[path]
            if callee.argc == len(args):
                return self.invoke(callee, args)
        return self.std_call(path, args, t)

    def std_call(self, path, args, t):
        if IDENTITY_CALLS.search(path) and args:
            a = args[0]
            if is_ptr(a):
                inner = self.read(a[1], a[2])
                return inner if is_ptr(inner) else a
            return a
        if VALUE_CALLS.search(path) and args:
            return self.deref_value(args[0])
        m = re.search(r'cmp::Partial(?:Ord|Eq)\b.*::(lt|le|gt|ge|eq|ne)$', path)
        if m and len(args) == 2:
            a, b = self.deref_value(args[0]), self.deref_value(args[1])
            if any(isinstance(x, dict) and str(x.get('__adt__', '')).startswith('log::') for x in (a, b)):
                return 0          # `log::Level::X <= max level` of a log macro: logging has no effect on any value; taken as off
            if isinstance(a, (int, float)) and isinstance(b, (int, float)):
                self.check_const_compare(a, b)
                return int(CMP[m.group(1)](a, b))
            if isinstance(a, str) and isinstance(b, str) and m.group(1) in ('eq', 'ne'):
                return int((a == b) == (m.group(1) == 'eq'))          # two literal texts
            if isinstance(a, dict) and isinstance(b, dict) and '__discr__' in a and '__discr__' in b and m.group(1) in ('eq', 'ne'):
                same = self.adt_equal(a, b)                            # derived equality of enum / Option / Result values
                if same is not None:
                    return int(same == (m.group(1) == 'eq'))
            raise Unknown('%s of %r, %r' % (m.group(1), a, b))
        m = re.search(r'ops::(?:arith::)?(Add|Sub|Mul|Div|Rem)(?:<[^>]*>)?>::(add|sub|mul|div|rem)$', path)
        if m and len(args) == 2:
            return self.binop(m.group(1), args[0], args[1])
        m = re.search(r'cmp::Ord>::(max|min)$|::(max|min)$', path)
        if m and len(args) == 2 and re.search(r'cmp::', path):
            a, b = self.deref_value(args[0]), self.deref_value(args[1])
            if isinstance(a, int) and isinstance(b, int):
                return (max if (m.group(1) or m.group(2)) == 'max' else min)(a, b)
        if re.search(r'num::<impl usize>::max_value$', path):
            return MAXU
        m = re.search(r'Option::<.*>::(is_some|is_none)$', path)
        if m and args:
            d = self.discr_of(args[0])
            return int(d == 1) if m.group(1) == 'is_some' else int(d == 0)
        if re.search(r'(Option|Result)::<.*>::(unwrap|expect)$', path) and args:
            v = self.deref_value(args[0])
            if isinstance(v, dict) and v.get('__discr__') == (1 if 'Option' in path else 0):
                return v['0']
            raise Unknown('unwrap of %r' % (v,))
        if re.search(r'mem::(take|replace)$', path) and args and is_ptr(args[0]):
            old = self.read(args[0][1], args[0][2])
            new = args[1] if len(args) > 1 else None
            if new is None:
                if isinstance(old, dict) and old.get('__adt__', '').endswith('Option'):
                    new = self.make_adt('core::option::Option::None', [], [])
                else:
                    raise Unknown('mem::take of %r' % (old,))
            self.write(args[0][1], args[0][2], new)
            return old
        if re.search(r'ops::(function::)?Fn(Mut|Once)?::call(_mut|_once)?$', path) and len(args) == 2:
            tup = self.deref_value(args[1])
            params = list(tup[1]) if isinstance(tup, tuple) and tup and tup[0] == 'tuple' else None
            if params is not None:
                r = self.apply_fn(args[0], params)              # `f(a, b)` with f a closure value or fn item
                if r is not None:
                    return r
        # `x?`: Try::branch / FromResidual::from_residual on a known Option / Result
        if re.search(r'ops::(try_trait::)?Try>::branch$', path) and args:
            v = self.deref_value(args[0])
            if isinstance(v, dict) and '__discr__' in v and str(v.get('__adt__', '')).endswith(('Option', 'Result')):
                good = 1 if v['__adt__'].endswith('Option') else 0
                if v['__discr__'] == good:
                    return self.make_adt('core::ops::ControlFlow::Continue', [v['0']], [])
                return self.make_adt('core::ops::ControlFlow::Break', [v], [])
        if re.search(r'FromResidual<.*>>::from_residual$', path) and args:
            v = self.deref_value(args[0])
            if isinstance(v, dict) and '__discr__' in v and str(v.get('__adt__', '')).endswith(('Option', 'Result')):
                return v
        if re.search(r'Option::<.*>::(ok_or|ok_or_else)$', path) and len(args) == 2:
            v = self.deref_value(args[0])
            if isinstance(v, dict) and '__discr__' in v:
                if v['__discr__'] == 1:
                    return self.make_adt('core::result::Result::Ok', [v['0']], [])
                e = args[1] if path.endswith('ok_or') else self.apply_fn(args[1], [])
                if e is None:
                    raise Unknown('ok_or_else with an unknown function value')
                return self.make_adt('core::result::Result::Err', [e], [])
        mm = re.search(r'Option::<.*>::(or_else|or|and_then|unwrap_or_else|filter|xor|and)$', path)
        if mm and len(args) == 2:
            v = self.deref_value(args[0])
            if isinstance(v, dict) and '__discr__' in v:
                how = mm.group(1)
                some_ = v['__discr__'] == 1
                if how == 'or':
                    return v if some_ else args[1]
                if how == 'and':
                    return args[1] if some_ else v
                if how in ('or_else', 'unwrap_or_else'):
                    if some_:
                        return v if how == 'or_else' else v['0']
                    r = self.apply_fn(args[1], [])
                    if r is None:
                        raise Unknown('%s with an unknown function value' % how)
                    return r
                if how == 'and_then':
                    if not some_:
                        return v
                    r = self.apply_fn(args[1], [v['0']])
                    if r is None:
                        raise Unknown('and_then with an unknown function value')
                    return r
                if how == 'filter':
                    if not some_:
                        return v
                    r = self.apply_fn(args[1], [v['0']])
                    r = self.deref_value(r) if r is not None else None
                    if r in (0, 1):
                        return v if r else self.make_adt('core::option::Option::None', [], [])
                    raise Unknown('filter with an unknown predicate')
        if re.search(r'Option::<.*>::take$', path) and args and is_ptr(args[0]):
            old = self.read(args[0][1], args[0][2])
            self.write(args[0][1], args[0][2], self.make_adt('core::option::Option::None', [], []))
            return old
        return sym('call:' + path)

    # ------------------------------------------------------------------ walking
    def run(self, start=0, stop=None, on_call=None):
        """walk from block `start`; `stop(machine, block id)` -> True ends the walk before executing the block;
        `on_call(machine, path, args, term)` -> True ends the walk after a call. Returns the reason."""
        cur = start
        for _ in range(self.max_steps):
            self.cur = cur
            if stop is not None and stop(self, cur):
                return 'stop'
            bl = self.b.blocks[cur]
            self.trace.append(cur)
            self.shared.setdefault('visited', {}).setdefault(self.b.path, set()).add(cur)
            for s in bl['stmts']:
                if s['k'] == 'assign':
                    self.write(self.k(s['lhs']['local']), s['lhs']['proj'], self.rvalue(s))
                elif s['k'] == 'setdiscr':
                    raise Unknown('SetDiscriminant')
            t = bl['term']
            k = t['k']
            if k == 'call':
                path = t['callee']['path'] if t.get('callee') else '<indirect>'
                r = self.call(t)
                self.write(self.k(t['dest']['local']), t['dest']['proj'], r)
                if on_call is not None and on_call(self, path, [self.operand(a) if 'const' in a else None for a in t['args']], t):
                    return 'call'
                if t.get('target', -1) is None or t.get('target', -1) < 0:
                    return 'diverged'
                cur = t['target']
            elif k == 'assert':
                c = self.deref_value(self.operand(t['cond'])) if t.get('cond') else None
                if isinstance(c, int) and c in (0, 1) and bool(c) != bool(t.get('expected')):
                    raise Unknown('the %s check at bb%d (%s) fails on this walk' % (t.get('akind') or 'assert', cur, t.get('loc') or ''))
                cur = t['target']
            elif k in ('goto', 'drop'):
                cur = t['target']
            elif k == 'switch':
                v = self.deref_value(self.operand(t['discr']))
                if isinstance(v, str) and len(v) == 1:
                    v = ord(v)
                if not isinstance(v, int):
                    raise Unknown('the branch at bb%d (%s) depends on %r' % (cur, bl.get('loc') or '', v))
                nxt = t['otherwise']
                for val, tgt in t['vals']:
                    if val == v:
                        nxt = tgt
                cur = nxt
            elif k == 'return':
                return 'return'
            else:
                raise Unknown('terminator %s at bb%d' % (k, cur))
        raise Unknown('more than %d steps' % self.max_steps)
