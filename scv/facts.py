"""Fact base loader and per-body program views (CFG, dominators, loops, use-def, value DAGs).

Everything here is a view of the MIR exported by /verif/driver for /repo's *current* tree.
Nothing executes smartcalc. Python 3.11 stdlib only.
"""
import json
import re
import sys
import collections

sys.setrecursionlimit(20000)


class AnchorLost(Exception):
    """A rule could not find the construct it is anchored on: fail closed."""


def opplace(o):
    return o.get('copy') or o.get('move')


def field_name(e):
    """projection element -> short field name or None"""
    if isinstance(e, dict) and 'field' in e:
        return e['field'].rsplit('.', 1)[-1]
    return None


def place_str(p):
    s = '_%d' % p['local']
    for e in p['proj']:
        if e == 'deref':
            s = '(*%s)' % s
        elif isinstance(e, dict) and 'field' in e:
            s += '.' + e['field'].rsplit('.', 1)[-1]
        elif isinstance(e, dict) and 'index' in e:
            s += '[_%d]' % e['index']
        elif isinstance(e, dict) and 'downcast' in e:
            s += ' as ' + e['downcast']
        elif isinstance(e, dict) and 'cidx' in e:
            s += '[%d]' % e['cidx']
        else:
            s += '.?'
    return s


def short(path):
    """strip generic argument lists for readable, stable keys"""
    prev = None
    while prev != path:
        prev = path
        path = re.sub(r'<[^<>]*>', '', path)
    return path.replace('::::', '::')


def fn_key(path):
    """stable short name of a function for finding keys: `<a::B as c::D>::m` -> `B::m`,
    `a::b::f` -> `b::f`, closures keep their suffix"""
    m = re.match(r"^<(.+?) as (.+?)>::(.*)$", path)
    if m:
        ty = short(m.group(1)).rsplit('::', 1)[-1]
        return '%s::%s' % (ty, m.group(3))
    m = re.match(r"^(.*)::<impl (.+?) for (.+?)>::(.*)$", path)
    if m:
        return '%s::%s' % (short(m.group(3)).rsplit('::', 1)[-1], m.group(4))
    sp = short(path).replace("::<'a>", '')
    parts = sp.split('::')
    return '::'.join(parts[-2:]) if len(parts) >= 2 else sp


class Body:
    def __init__(self, rec, facts):
        self.rec = rec
        self.facts = facts
        self.path = rec['path']
        self.kind = rec['kind']
        self.loc = rec['loc']
        self.file = rec['loc'].split(':')[0]
        self.argc = rec['argc']
        self.blocks = {b['id']: b for b in rec['blocks']}
        self.locals = {l['id']: l['ty'] for l in rec['locals']}
        self.names = {}
        for d in rec['debug']:
            if not d['place']['proj']:
                self.names.setdefault(d['place']['local'], d['name'])
        self.arg_names = {i: self.names.get(i, 'arg%d' % i) for i in range(1, self.argc + 1)}
        self._defs = None
        self._pos = None
        self._rd = {}
        self._shallow = False
        self._dom = None
        self._pdom = None
        self._loops = None

    # ---------------------------------------------------------------- CFG
    def succs(self, bid, unwind=False):
        t = self.blocks[bid]['term']
        k = t['k']
        out = []
        if k in ('call', 'assert', 'goto', 'drop'):
            if t.get('target', -1) is not None and t.get('target', -1) >= 0:
                out.append(t['target'])
            if unwind and t.get('unwind', -1) >= 0:
                out.append(t['unwind'])
        elif k == 'switch':
            out = [v[1] for v in t['vals']] + [t['otherwise']]
        return out

    @property
    def normal_blocks(self):
        return [i for i, b in self.blocks.items() if not b['cleanup']]

    def preds(self):
        P = collections.defaultdict(list)
        for i in self.normal_blocks:
            for s in self.succs(i):
                P[s].append(i)
        return P

    def reachable_blocks(self):
        seen = {0}
        st = [0]
        while st:
            i = st.pop()
            for s in self.succs(i):
                if s not in seen and not self.blocks[s]['cleanup']:
                    seen.add(s)
                    st.append(s)
        return seen

    def dominators(self):
        if self._dom is not None:
            return self._dom
        ids = sorted(self.reachable_blocks())
        P = self.preds()
        dom = {i: set(ids) for i in ids}
        dom[0] = {0}
        ch = True
        while ch:
            ch = False
            for i in ids:
                if i == 0:
                    continue
                ps = [dom[p] for p in P[i] if p in dom]
                n = (set.intersection(*ps) if ps else set()) | {i}
                if n != dom[i]:
                    dom[i] = n
                    ch = True
        self._dom = dom
        return dom

    def postdominators(self):
        """post-dominators w.r.t. normal (non-unwind) exits: Return blocks and diverging ends"""
        if self._pdom is not None:
            return self._pdom
        ids = sorted(self.reachable_blocks())
        exits = [i for i in ids if not self.succs(i)]
        pd = {i: set(ids) for i in ids}
        for e in exits:
            pd[e] = {e}
        ch = True
        while ch:
            ch = False
            for i in ids:
                if i in exits:
                    continue
                ss = [pd[s] for s in self.succs(i) if s in pd]
                n = (set.intersection(*ss) if ss else set()) | {i}
                if n != pd[i]:
                    pd[i] = n
                    ch = True
        self._pdom = pd
        return pd

    def loops(self):
        """natural loops: list of dicts {head, body:set(block ids), backs:[block ids]}"""
        if self._loops is not None:
            return self._loops
        dom = self.dominators()
        P = self.preds()
        by_head = {}
        for i in dom:
            for s in self.succs(i):
                if s in dom.get(i, ()):  # back edge i -> s
                    L = by_head.setdefault(s, {'head': s, 'body': {s}, 'backs': []})
                    L['backs'].append(i)
                    st = [i]
                    while st:
                        x = st.pop()
                        if x not in L['body']:
                            L['body'].add(x)
                            st.extend(p for p in P[x] if p in dom)
        self._loops = [by_head[h] for h in sorted(by_head)]
        return self._loops

    def in_loop(self, bid):
        return any(bid in L['body'] for L in self.loops())

    def dominates(self, a, b):
        return a in self.dominators().get(b, ())

    def can_reach(self, a, b, avoid=()):
        """is there a normal-CFG path a ->+ b that avoids blocks in `avoid` (a itself may be in avoid)"""
        seen = set()
        st = list(self.succs(a))
        while st:
            x = st.pop()
            if x in seen or x in avoid and x != b:
                continue
            if self.blocks[x]['cleanup']:
                continue
            seen.add(x)
            if x == b:
                return True
            st.extend(self.succs(x))
        return False

    def conditions(self, bid):
        """Branch decisions that hold whenever block `bid` executes (edge dominance):
        list of (dominating block, discriminant expr, frozenset of switch values taken or ('else', excluded values)).
        A switch contributes when only a strict subset of its outgoing edges can reach `bid`
        without passing through the switch block again."""
        out = []
        dom = self.dominators().get(bid, ())
        for d in sorted(dom):
            if d == bid:
                continue
            t = self.blocks[d]['term']
            if t['k'] != 'switch':
                continue
            edges = [(v, tgt) for v, tgt in t['vals']] + [('else', t['otherwise'])]
            taking = []
            for v, tgt in edges:
                if tgt == bid or self._reach_avoiding(tgt, bid, d):
                    taking.append(v)
            if len(taking) < len(edges) and taking:
                vals = frozenset(x for x in taking if x != 'else')
                if 'else' in taking:
                    excl = frozenset(v for v, _ in t['vals'] if v not in vals)
                    out.append((d, self.expr(t['discr']), ('else', excl)))
                else:
                    out.append((d, self.expr(t['discr']), vals))
        return out

    def branch_conditions(self, where):
        """conditions of a phi branch: `where` is a block id (definition block) or a CFG edge (pred, succ)"""
        if not isinstance(where, tuple):
            return self.conditions(where)
        p, succ = where
        out = list(self.conditions(p))
        t = self.blocks[p]['term']
        if t['k'] == 'switch':
            vals = frozenset(v for v, tgt in t['vals'] if tgt == succ)
            others = [tgt for v, tgt in t['vals'] if tgt != succ] + ([t['otherwise']] if t['otherwise'] != succ else [])
            if others:
                if t['otherwise'] == succ:
                    excl = frozenset(v for v, tgt in t['vals'] if tgt != succ)
                    out.append((p, self.expr(t['discr']), ('else', excl)))
                elif vals:
                    out.append((p, self.expr(t['discr']), vals))
        return out

    def path_dnf(self, where, limit=48):
        """Reaching condition of a block / CFG edge as a disjunction over the acyclic paths from the entry: a list of
        conjunctions [(block, discr expr, values)] - or None when there are more than `limit` paths or a loop is on the way
        (callers then fall back to the dominating conjunction of branch_conditions)."""
        key = ('dnf', where if not isinstance(where, list) else tuple(where))
        cache = self.__dict__.setdefault('_dnf_cache', {})
        if key in cache:
            return cache[key]
        P = self.preds()
        res = []
        if isinstance(where, tuple):
            start, first = where[0], where[1]
        else:
            start, first = where, None

        def edge_cond(p, succ):
            t = self.blocks[p]['term']
            if t['k'] != 'switch':
                return None
            vals = frozenset(v for v, tgt in t['vals'] if tgt == succ)
            if t['otherwise'] == succ:
                excl = frozenset(v for v, tgt in t['vals'] if tgt != succ)
                if not excl:
                    return None
                return (p, self.expr(t['discr']), ('else', excl))
            return (p, self.expr(t['discr']), vals) if vals else None
        ok = True
        stack = [(start, [edge_cond(start, first)] if first is not None and edge_cond(start, first) else [], frozenset([start]))]
        while stack and ok:
            x, conds, seen = stack.pop()
            if x == 0:
                res.append(list(reversed(conds)))
                if len(res) > limit:
                    ok = False
                continue
            preds = [q for q in P.get(x, []) if not self.blocks[q]['cleanup']]
            if not preds:
                continue
            for q in preds:
                if q in seen:
                    ok = False        # a cycle on the way: not a finite path set
                    break
                c = edge_cond(q, x)
                stack.append((q, conds + ([c] if c else []), seen | {q}))
        cache[key] = res if ok and res else None
        return cache[key]

    def idom(self, bid):
        """immediate dominator of a block (None for the entry)"""
        ds = self.dominators().get(bid, set()) - {bid}
        best = None
        for d in ds:
            if best is None or len(self.dominators()[d]) > len(self.dominators()[best]):
                best = d
        return best

    def branch_dnf(self, where, limit=64):
        """Reaching condition of a phi branch (a CFG edge into a merge block) *relative to the immediate dominator of the merge
        block*: the disjunction over the acyclic paths from that dominator to the edge, each a conjunction of the switch decisions
        on the way. Exact where path_dnf gives up (the function has loops): the decisions before the dominator are common to all
        branches of the phi. None when there are too many paths or `where` is not an edge."""
        if not (isinstance(where, tuple) and len(where) == 2 and isinstance(where[0], int)):
            return None
        key = ('bdnf', where)
        cache = self.__dict__.setdefault('_dnf_cache', {})
        if key in cache:
            return cache[key]
        p, succ = where
        D = self.idom(succ)
        if D is None:
            cache[key] = None
            return None
        P = self.preds()

        def edge_cond(q, x):
            t = self.blocks[q]['term']
            if t['k'] != 'switch':
                return None
            vals = frozenset(v for v, tgt in t['vals'] if tgt == x)
            if t['otherwise'] == x:
                excl = frozenset(v for v, tgt in t['vals'] if tgt != x)
                if not excl:
                    return None
                return (q, self.expr(t['discr']), ('else', excl))
            return (q, self.expr(t['discr']), vals) if vals else None
        res = []
        ok = True
        c0 = edge_cond(p, succ)
        stack = [(p, [c0] if c0 else [], frozenset([p, succ]))]
        while stack and ok:
            x, conds, seen = stack.pop()
            if x == D:
                res.append(list(reversed(conds)))
                if len(res) > limit:
                    ok = False
                continue
            for q in P.get(x, []):
                if self.blocks[q]['cleanup'] or q in seen and q != D:
                    continue
                if D not in self.dominators().get(q, ()):
                    continue
                c = edge_cond(q, x)
                stack.append((q, conds + ([c] if c else []), seen | {q}))
        cache[key] = res if ok and res else None
        return cache[key]

    def _reach_avoiding(self, a, b, avoid):
        if a == avoid:
            return False
        seen = {a}
        st = [a]
        while st:
            x = st.pop()
            if x == b:
                return True
            for s in self.succs(x):
                if s != avoid and s not in seen and not self.blocks[s]['cleanup']:
                    seen.add(s)
                    st.append(s)
        return False

    def incoming_edge_conds(self, bid):
        """Disjunction of the switch edges that lead *directly* (through goto/fall-through blocks only) into
        block `bid`: list of (discr expr, values taken). Used where a short-circuit `a || b` merges two edges."""
        out = []
        P = self.preds()
        seen = set()
        st = [(bid, None)]
        while st:
            x, _ = st.pop()
            for p in P.get(x, []):
                if (p, x) in seen:
                    continue
                seen.add((p, x))
                t = self.blocks[p]['term']
                if t['k'] == 'switch':
                    vals = frozenset(v for v, tgt in t['vals'] if tgt == x)
                    if t['otherwise'] == x:
                        excl = frozenset(v for v, tgt in t['vals'] if tgt != x)
                        out.append((self.expr(t['discr']), ('else', excl)))
                    elif vals:
                        out.append((self.expr(t['discr']), vals))
                elif t['k'] in ('goto', 'drop') or (t['k'] == 'call' and not self.blocks[p]['stmts'] and False):
                    st.append((p, None))
                else:
                    out.append((('top', 'unconditional:%s' % t['k']), frozenset()))
        return out

    def cond_text(self, bid):
        """rendered conditions, e.g. ['discr(x)=1', '(a Gt b)=else!{0}'] (line-number free)"""
        out = []
        self._shallow = 'all'
        try:
            conds = self.conditions(bid)
        finally:
            self._shallow = False
        for d, e, v in conds:
            if isinstance(v, tuple):
                out.append('%s!=%s' % (render(e), sorted(v[1])))
            else:
                out.append('%s=%s' % (render(e), sorted(v)))
        return out

    # ---------------------------------------------------------------- sites
    def calls(self, pattern=None, local=None):
        """yield (block id, terminator) for call terminators whose callee path matches regex `pattern`"""
        for i in self.normal_blocks:
            t = self.blocks[i]['term']
            if t['k'] != 'call':
                continue
            c = t.get('callee')
            if pattern is not None:
                if not c or not re.search(pattern, c['path']):
                    continue
            if local is not None and (not c or c['local'] != local):
                continue
            yield i, t

    def line_of(self, loc):
        try:
            return int(loc.split(':')[1])
        except Exception:
            return 0

    # ---------------------------------------------------------------- use-def
    def defs(self):
        """local -> list of (block, kind, stmt/term) that assign the *whole* local.
        partial writes (field assignments) are under key ('partial', local)."""
        if self._defs is not None:
            return self._defs
        d = collections.defaultdict(list)
        self._defpos = {}
        for i in self.normal_blocks:
            bl = self.blocks[i]
            for n, s in enumerate(bl['stmts']):
                if s['k'] != 'assign':
                    continue
                if not s['lhs']['proj']:
                    d[s['lhs']['local']].append((i, 'stmt', s))
                    self._defpos[id(s)] = (i, n)
                else:
                    d[('partial', s['lhs']['local'])].append((i, 'stmt', s))
                    self._defpos[id(s)] = (i, n)
            t = bl['term']
            if t['k'] == 'call':
                if not t['dest']['proj']:
                    d[t['dest']['local']].append((i, 'call', t))
                    self._defpos[id(t)] = (i, len(bl['stmts']))
                else:
                    d[('partial', t['dest']['local'])].append((i, 'call', t))
        self._defs = d
        return d

    def positions(self):
        """id(operand dict) -> (block, statement index) of the statement / terminator that uses it"""
        if self._pos is not None:
            return self._pos
        pos = {}
        for i in self.normal_blocks:
            bl = self.blocks[i]
            for n, s in enumerate(bl['stmts']):
                if s['k'] == 'assign':
                    for o in s['ops']:
                        pos[id(o)] = (i, n)
            t = bl['term']
            n = len(bl['stmts'])
            for o in t.get('args', []) or []:
                pos[id(o)] = (i, n)
            for key in ('discr', 'cond', 'fop'):
                if isinstance(t.get(key), dict):
                    pos[id(t[key])] = (i, n)
            for o in t.get('ops', []) or []:
                pos[id(o)] = (i, n)
        self._pos = pos
        return pos

    def reaching(self, l, at):
        """definitions of local l (entries of defs()[l], plus 'entry' for arguments) that reach program point `at`"""
        ds = self.defs().get(l, [])
        self.defs()
        bid, idx = at
        # last definition inside the block before idx
        best = None
        for d in ds:
            dp = self._defpos[id(d[2])]
            if dp[0] == bid and d[1] == 'stmt' and dp[1] < idx:
                if best is None or dp[1] > self._defpos[id(best[2])][1]:
                    best = d
        if best is not None:
            return [best]
        IN = self._rd_in(l)
        return IN.get(bid, [])

    def _rd_in(self, l):
        if l in self._rd:
            return self._rd[l]
        ds = self.defs().get(l, [])
        last = {}
        for d in ds:
            dp = self._defpos[id(d[2])]
            if d[0] not in last or dp[1] >= self._defpos[id(last[d[0]][2])][1]:
                last[d[0]] = d
        ids = sorted(self.reachable_blocks())
        P = self.preds()
        ENTRY = (0, 'entry', None)
        IN = {i: [] for i in ids}
        OUT = {i: [] for i in ids}
        IN[0] = [ENTRY] if (not isinstance(l, tuple) and 1 <= l <= self.argc) else []
        ch = True
        key = lambda d: id(d[2]) if d[2] is not None else 0
        while ch:
            ch = False
            for i in ids:
                if i != 0:
                    acc = {}
                    for p in P[i]:
                        if p in OUT:
                            for d in OUT[p]:
                                acc[key(d)] = d
                    new_in = list(acc.values())
                else:
                    new_in = IN[0]
                new_out = [last[i]] if i in last else new_in
                if len(new_in) != len(IN[i]) or len(new_out) != len(OUT[i]) or set(map(key, new_out)) != set(map(key, OUT[i])):
                    IN[i], OUT[i] = new_in, new_out
                    ch = True
        self._rd[l] = IN
        return IN

    # ---------------------------------------------------------------- value DAG (E6)
    def expr(self, operand, depth=0, seen=None, at=None):
        """Gated use-def expression of an operand, flow-sensitive: a multiply-assigned local denotes the
        definitions that *reach* the statement using the operand. Returns nested tuples:
        ('const', ty, val, text) ('arg', idx, name) ('call', callee_path, [args], term)
        ('binop', op, a, b) ('unop', op, a) ('cast', kind, to, a) ('field', base, name)
        ('deref', base) ('ref', base) ('aggr', adt, [fields], names) ('discr', base)
        ('index', base, idx) ('downcast', base, variant) ('phi', local, [exprs], name, [blocks], body, subst) ('top', why)
        """
        if 'const' in operand:
            c = operand['const']
            v = c.get('str', c.get('val'))
            if 'fn' in c:
                return ('fnitem', c['fn']['path'], c['fn'])
            if v is None and (c.get('text') or '').startswith('const ') and depth < 300:
                kb = self.facts.bodies.get(c['text'][6:])
                if kb is not None and kb.kind == 'const' and kb is not self and not kb.loops() and len(kb.blocks) <= 12 and not self.facts.__dict__.get('_no_const_inline'):
                    r = kb.ret_expr()
                    if r[0] != 'top' and all(x[0] in ('const', 'ref', 'deref', 'aggr', 'cast') for x in walk(r)) and len(list(walk(r))) <= 200 and r[0] == 'aggr' and r[1] != 'array':
                        return r
            m = re.fullmatch(r'const (.*)::promoted\[(\d+)\]', c.get('text') or '')
            if m and v is None and depth < 300:
                # a promoted constant (`&"MONEY"`, `&['-', '+']`): its value is what the promoted body returns
                pb = self.facts.bodies.get('%s::{promoted#%s}' % (m.group(1), m.group(2))) or self.facts.bodies.get('%s::{promoted#%s}' % (self.path, m.group(2)))
                if pb is None:
                    sp = getattr(self.facts, 'spliced', {})
                    for hp in sp:
                        if m.group(1).endswith(hp.rsplit('::', 1)[-1]):
                            pb = self.facts.bodies.get('%s::{promoted#%s}' % (hp, m.group(2)))
                if pb is not None and pb is not self and not pb.loops() and len(pb.blocks) <= 4:
                    r = pb.ret_expr()
                    if r[0] != 'top' and all(x[0] in ('const', 'ref', 'deref', 'aggr', 'cast') for x in walk(r)):
                        return r
            return ('const', c['ty'], v, c['text'])
        p = opplace(operand)
        if p is None:
            return ('top', 'operand')
        if at is None:
            at = self.positions().get(id(operand))
        return self.place_expr(p, depth, seen, at)

    def _field_defs(self, l, fname):
        """definitions of the pseudo-variable `local.field` when the field is also assigned on its own (`s.f = v` after
        `s = S { .. }`): the whole-local definitions and the assignments of exactly that field"""
        key = ('fld', l, fname)
        ds = self.defs()
        if key in ds:
            return key if ds[key] else None
        parts = [d for d in ds.get(('partial', l), []) if d[1] == 'stmt' and len(d[2]['lhs']['proj']) == 1
                 and isinstance(d[2]['lhs']['proj'][0], dict) and d[2]['lhs']['proj'][0].get('field') == fname]
        other = [d for d in ds.get(('partial', l), []) if d not in parts and d[1] == 'stmt' and d[2]['lhs']['proj']
                 and isinstance(d[2]['lhs']['proj'][0], dict) and d[2]['lhs']['proj'][0].get('field') == fname]
        if not parts or other:
            ds[key] = []
            return None
        ds[key] = list(ds.get(l, [])) + parts
        return key

    def place_expr(self, p, depth=0, seen=None, at=None):
        proj = p['proj']
        e = None
        if at is not None and proj and isinstance(proj[0], dict) and 'field' in proj[0] and depth < 300:
            key = self._field_defs(p['local'], proj[0]['field'])
            if key is not None:
                e = self._value_at(key, at, depth, seen if seen is not None else frozenset())
                proj = proj[1:]
        if e is None:
            e = self.local_expr(p['local'], depth, seen, at)
            proj = p['proj']
        for pe in proj:
            if pe == 'deref':
                e = ('deref', e)
            elif isinstance(pe, dict) and 'field' in pe:
                e = ('field', e, pe['field'].rsplit('.', 1)[-1], pe['field'])
            elif isinstance(pe, dict) and 'index' in pe:
                e = ('index', e, self.local_expr(pe['index'], depth + 1, seen, at))
            elif isinstance(pe, dict) and 'downcast' in pe:
                e = ('downcast', e, pe['downcast'])
            elif isinstance(pe, dict) and 'cidx' in pe:
                e = ('index', e, ('const', 'usize', pe['cidx'], str(pe['cidx'])))
            else:
                e = ('proj?', e)
            e = lower(self.facts, simplify(e))
        e = simplify(e)
        if e[0] == 'field' and len(e) == 4 and p['proj'] and isinstance(p['proj'][-1], dict) and 'field' in p['proj'][-1]:
            e = e + (p['ty'],)        # type of the projected field (used by the interval evaluator)
        return e

    def local_expr(self, l, depth=0, seen=None, at=None):
        if seen is None:
            seen = frozenset()
        if at is not None and not isinstance(l, tuple) and depth < 300 and ('partial', l) in self.defs() and ('whole', l) not in seen:
            # a struct built as a literal and then updated field by field (`s.f = v`): its value where it is read is the
            # literal with the updated fields
            base = self.local_expr(l, depth, seen | {('whole', l)}, at)
            b0 = base
            while b0[0] in ('ref', 'deref'):
                b0 = b0[1]
            if b0[0] == 'aggr' and len(b0) > 3 and b0[3] and len(b0[3]) == len(b0[2]):
                vals = list(b0[2])
                changed = False
                for fname in sorted(set(d[2]['lhs']['proj'][0].get('field') for d in self.defs()[('partial', l)]
                                        if d[1] == 'stmt' and d[2]['lhs']['proj'] and isinstance(d[2]['lhs']['proj'][0], dict) and d[2]['lhs']['proj'][0].get('field'))):
                    short_ = fname.rsplit('.', 1)[-1]
                    if short_ in b0[3]:
                        key = self._field_defs(l, fname)
                        if key is not None:
                            vals[list(b0[3]).index(short_)] = self._value_at(key, at, depth + 1, seen | {('whole', l)})
                            changed = True
                if changed:
                    return ('aggr', b0[1], vals) + tuple(b0[3:])
            return base
        alld = self.defs().get(l, [])
        if 1 <= l <= self.argc and not alld:
            return ('arg', l, self.arg_names.get(l))
        if depth > 400:
            return ('top', 'depth')
        if self._shallow == 'mut':
            if l in self.names and len(alld) > 1:
                return ('var', l, self.names[l])
        elif self._shallow and (depth > 0 or self._shallow == 'all') and l in self.names:
            return ('var', l, self.names[l])
        if not alld:
            if l == 0:
                return ('top', 'retslot')
            return ('undef', l, self.names.get(l))
        if at is not None and (len(alld) > 1 or 1 <= l <= self.argc):
            return self._value_at(l, at, depth, seen)
        ds = list(alld)
        if 1 <= l <= self.argc:
            ds.append((0, 'entry', None))
        outs = []
        bids = []
        for (bid, kind, x) in ds:
            if kind == 'entry':
                outs.append(('arg', l, self.arg_names.get(l)))
                bids.append(0)
                continue
            key = (l, id(x))
            if key in seen:
                outs.append(('loop', l, self.names.get(l)))
                bids.append(bid)
                continue
            outs.append(self.def_expr(bid, kind, x, depth + 1, seen | {key}))
            bids.append(bid)
        if not outs:
            return ('undef', l, self.names.get(l))
        if len(outs) == 1:
            return outs[0]
        return ('phi', l, outs, self.names.get(l), bids, self.path, None)

    # --- SSA-like values of multiply-assigned locals: phi nodes sit at the merge points, branches are CFG edges
    def _def_value(self, l, d, depth, seen):
        bid, kind, x = d
        if kind == 'entry':
            return ('arg', l, self.arg_names.get(l))
        key = (l, id(x))
        if key in seen:
            return ('loop', l, self.names.get(l) if not isinstance(l, tuple) else '%s.%s' % (self.names.get(l[1]), l[2].rsplit('.', 1)[-1]))
        v = self.def_expr(bid, kind, x, depth + 1, seen | {key})
        if isinstance(l, tuple) and l[0] == 'fld':
            lhs = x.get('lhs') if kind == 'stmt' else x.get('dest')
            if lhs is not None and not lhs['proj']:
                # a definition of the whole local: this field of it
                v = lower(self.facts, simplify_field(('field', v, l[2].rsplit('.', 1)[-1], l[2])))
        return v

    def _last_def_in(self, l, bid, before=None):
        best = None
        for d in self.defs().get(l, []):
            if d[0] != bid:
                continue
            dp = self._defpos[id(d[2])]
            if before is not None and not (d[1] == 'stmt' and dp[1] < before):
                continue
            if best is None or dp[1] >= self._defpos[id(best[2])][1]:
                best = d
        return best

    def _value_at(self, l, at, depth, seen):
        bid, idx = at
        self.defs()
        d = self._last_def_in(l, bid, before=idx)
        if d is not None:
            return self._def_value(l, d, depth, seen)
        return self._value_in(l, bid, depth, seen)

    def _value_in(self, l, bid, depth, seen):
        key = ('in', l, bid)
        if key in seen:
            return ('loop', l, self.names.get(l))
        if depth > 400:
            return ('top', 'depth')
        IN = self._rd_in(l).get(bid, [])
        if len(IN) == 1:
            return self._def_value(l, IN[0], depth, seen)
        if not IN:
            return ('undef', l, self.names.get(l))
        seen = seen | {key}
        P = [p for p in self.preds().get(bid, []) if p in self.dominators()]
        if len(P) == 1:
            return self._value_out(l, P[0], depth + 1, seen)
        outs, edges = [], []
        for p in sorted(P):
            outs.append(self._value_out(l, p, depth + 1, seen))
            edges.append((p, bid))
        # merge identical branch values (same reaching definition through several goto blocks)
        # merge branches that carry the *same definition* (one reaching definition arriving through several goto blocks);
        # equal-looking values of different definitions (two `1.0` constants selected by different switch arms) stay
        # separate branches, otherwise the surviving branch would keep the edge condition of only one of them
        uniq = []
        for o, e in zip(outs, edges):
            if not any(o is u or (o == u and o[0] not in ('const',)) for u, _ in uniq):
                uniq.append((o, e))
        if len(uniq) == 1:
            return uniq[0][0]
        return ('phi', l, [u for u, _ in uniq], self.names.get(l), [e for _, e in uniq], self.path, None)

    def _value_out(self, l, bid, depth, seen):
        d = self._last_def_in(l, bid)
        if d is not None:
            return self._def_value(l, d, depth, seen)
        return self._value_in(l, bid, depth, seen)

    def ret_expr(self):
        """value of the return slot at the Return terminator(s)"""
        rets = [i for i in self.normal_blocks if self.blocks[i]['term']['k'] == 'return']
        if not rets:
            return ('top', 'noreturn')
        outs = [self.local_expr(0, 0, None, (r, len(self.blocks[r]['stmts']))) for r in rets]
        if len(outs) == 1:
            return outs[0]
        return ('phi', 0, outs, None, rets, self.path, None)

    def def_expr(self, bid, kind, x, depth, seen):
        if kind == 'call':
            c = x.get('callee')
            path = c['path'] if c else ('<indirect:%s>' % x['fty'])
            args = [self.expr(a, depth, seen) for a in x['args']]
            if not c and x.get('fop'):
                return lower(self.facts, simplify(('callptr', self.expr(x['fop'], depth, seen), args, x)))
            return lower(self.facts, simplify(('call', path, args, x)))
        rv = x['rv']
        ops = x['ops']
        if rv == 'use':
            return self.expr(ops[0], depth, seen)
        if rv == 'ref' or rv == 'rawptr':
            return simplify(('ref', self.expr(ops[0], depth, seen)))
        if rv == 'binop':
            return ('binop', x['op'], self.expr(ops[0], depth, seen), self.expr(ops[1], depth, seen))
        if rv == 'unop':
            return ('unop', x['op'], self.expr(ops[0], depth, seen))
        if rv == 'cast':
            if x.get('reify'):
                return ('fnitem', x['reify']['path'], x['reify'])
            return ('cast', x['cast'], x['to'], self.expr(ops[0], depth, seen), x.get('from'))
        if rv == 'discr':
            return ('discr', self.expr(ops[0], depth, seen))
        if rv == 'aggr':
            return ('aggr', x['adt'], [self.expr(o, depth, seen) for o in ops], x.get('fields', []))
        if rv == 'repeat':
            return ('repeat', self.expr(ops[0], depth, seen))
        return ('top', 'rvalue:' + x.get('text', rv)[:40])

    def sexpr(self, operand):
        """shallow expression: stops at user-named locals (rendered as $name)"""
        self._shallow = True
        try:
            return self.expr(operand, 1)
        finally:
            self._shallow = False

    def mexpr(self, operand):
        """expression that stops at *mutable* user variables (rendered $name): stable text for loop-carried indices"""
        self._shallow = 'mut'
        try:
            return self.expr(operand)
        finally:
            self._shallow = False

    def named_defs(self, name):
        """definitions of the user variable(s) called `name`:
        list of (local, block, shallow expr, deep expr, [condition strings])"""
        out = []
        for l, n in sorted(self.names.items()):
            if n != name:
                continue
            for (bid, kind, x) in self.defs().get(l, []):
                self._shallow = True
                try:
                    se = self.def_expr(bid, kind, x, 1, frozenset([l]))
                finally:
                    self._shallow = False
                de = self.def_expr(bid, kind, x, 1, frozenset([l]))
                out.append((l, bid, se, de, self.cond_text(bid)))
        return out

    def arg_expr(self, term, i):
        return self.expr(term['args'][i])

    def dest_local(self, term):
        return term['dest']['local'] if not term['dest']['proj'] else None

    # ---------------------------------------------------------------- uses
    def uses_of_local(self, l):
        """(block, 'stmt'|'term', node, role) where local l is read (as base of a place operand)"""
        out = []
        for i in self.normal_blocks:
            bl = self.blocks[i]
            for s in bl['stmts']:
                if s['k'] != 'assign':
                    continue
                for o in s['ops']:
                    p = opplace(o)
                    if p and p['local'] == l:
                        out.append((i, 'stmt', s, 'op'))
                if s['lhs']['proj'] and s['lhs']['local'] == l:
                    out.append((i, 'stmt', s, 'lhs-base'))
            t = bl['term']
            ops = []
            if t['k'] == 'call':
                ops = list(t['args']) + ([t['fop']] if t.get('fop') else [])
            elif t['k'] == 'switch':
                ops = [t['discr']]
            elif t['k'] == 'assert':
                ops = [t['cond']] + t['ops']
            elif t['k'] == 'drop':
                if t['place']['local'] == l:
                    out.append((i, 'term', t, 'drop'))
            for o in ops:
                p = opplace(o)
                if p and p['local'] == l:
                    out.append((i, 'term', t, 'op'))
        return out


TRANSPARENT_CALLS = re.compile(
    r'(^|::)(Deref>?::deref|DerefMut>?::deref_mut|Borrow<[^>]*>>?::borrow|Clone>?::clone|ToOwned>?::to_owned|'
    r'AsRef<[^>]*>>?::as_ref|Into<[^>]*>>?::into|From<[^>]*>>?::from|ToString>?::to_string|String::as_str|'
    r'Rc::<[^>]*>::clone|Option::<[^>]*>::as_ref|Option::<[^>]*>::cloned|Option::<[^>]*>::copied|IntoIterator>?::into_iter)$')


def simplify(e):
    """local algebraic clean-up of ref/deref noise and projections of aggregates"""
    if e[0] == 'deref' and e[1][0] == 'ref':
        return e[1][1]
    if e[0] == 'ref' and e[1][0] == 'deref':
        return e[1][1]
    if e[0] == 'index' and e[2][0] == 'const' and isinstance(e[2][2], int):
        base = e[1]
        while base[0] in ('ref', 'deref'):
            base = base[1]
        if base[0] == 'aggr' and base[1] == 'array' and 0 <= e[2][2] < len(base[2]):
            return base[2][e[2][2]]              # TABLE[k] of a literal table
    if e[0] == 'field' and e[2].startswith('#'):
        base = e[1]
        while base[0] in ('ref', 'deref'):
            base = base[1]
        if base[0] == 'aggr' and (base[1] == 'tuple' or base[1].startswith('closure:')):
            i = int(e[2][1:])
            if i < len(base[2]):
                return base[2][i]
    return e


# ---------------------------------------------------------------------------------------------
# Lowering of Option / Result combinators and the `?` operator into the same gamma DAG an explicit `match` gives.
# Purpose: behaviour-preserving rewrites (match -> `?`, ok_or_else, map, map_or, unwrap_or, or_else, and_then) must not
# change what the rules see. Every rewrite below is an identity of the std API (one line of reason each).
BRANCH_RX = re.compile(r'core::ops::(try_trait::)?Try>::branch$')
COMB = re.compile(r'^core::(option::Option|result::Result)::<.*>::(ok_or_else|ok_or|ok|map|map_or|map_or_else|unwrap_or|unwrap_or_else|or_else|and_then|map_err|or)$')


def _is_option_path(path):
    return 'option::Option' in path


def apply_closure(facts, clo, args, _depth=0):
    """value of calling the function value `clo` (closure aggregate or fn item) on argument expressions; None if unknown"""
    c = clo
    while c[0] in ('ref', 'deref'):
        c = c[1]
    if c[0] == 'aggr' and c[1].startswith('closure:'):
        b = facts.bodies.get(c[1][8:])
        if b is None or b.loops() or len(b.blocks) > 80 or b.argc != len(args) + 1:
            return None
        return subst_args(b.ret_expr(), [c] + list(args))
    if c[0] == 'fnitem':
        b = inlinable(facts, c[1])
        if b is not None and b.argc == len(args):
            return subst_args(b.ret_expr(), list(args))
        # a tuple-variant constructor used as a function (`.map(TokenType::Duration)`): the aggregate it builds
        path = re.sub(r'::<.*>$', '', str(c[1]))
        owner, _, vname = path.rpartition('::')
        rec = facts.adts.get(owner)
        if rec and any(v['name'] == vname for v in rec['variants']) and args:
            return ('aggr', path, list(args), [])
    return None


def _synth_phi(branches):
    """branches: [(expr, (discr expr, values))] -> phi node with explicit conditions"""
    return ('phi', None, [b for b, _ in branches], None, [('cond', c[0], c[1]) for _, c in branches], None, None)


def phi_branch_conditions(body, where):
    """conditions of one phi branch: CFG edge / block (real phi) or an explicit ('cond', discr, values) (lowered combinator)"""
    if isinstance(where, tuple) and where and where[0] == 'cond':
        return [(None, where[1], where[2])]
    return body.branch_conditions(where)


def _payload(o, variant):
    return simplify_field(('field', ('downcast', o, variant), '0', 'core::%s.0' % ('option::Option' if variant in ('Some', 'None') else 'result::Result')))


def lower(facts, e):
    """one rewriting step at the top of e (children are already lowered when this is called from Body.expr)"""
    k = e[0]
    if k == 'field' and e[1][0] == 'downcast' and e[2].lstrip('#') == '0':
        inner = e[1][1]
        var = e[1][2]
        src = inner
        while src[0] in ('ref', 'deref'):
            src = src[1]
        if src[0] == 'call' and src[2]:
            path = src[1]
            # `x?`: (branch(X) as Continue).0 is the Some / Ok payload of X
            if BRANCH_RX.search(path) and var == 'Continue':
                return lower(facts, _payload(src[2][0], 'Some' if _is_option_path(path) else 'Ok'))
            m = COMB.match(path)
            if m:
                name = m.group(2)
                o = src[2][0]
                if name in ('ok_or_else', 'ok_or') and var == 'Ok':           # Some(v).ok_or(..) == Ok(v)
                    return lower(facts, _payload(o, 'Some'))
                if name == 'ok' and var == 'Some':                             # Ok(v).ok() == Some(v)
                    return lower(facts, _payload(o, 'Ok'))
                if name == 'map_err' and var == 'Ok':                          # map_err keeps the Ok payload
                    return lower(facts, _payload(o, 'Ok'))
                if name == 'map' and var in ('Some', 'Ok') and len(src[2]) > 1:  # Some(v).map(f) == Some(f(v))
                    r = apply_closure(facts, src[2][1], [_payload(o, var)])
                    if r is not None:
                        return r
    if k == 'call' and len(e[2]) == 2 and (re.search(r'ops::(function::)?Fn(Mut|Once)?::call(_mut|_once)?$', e[1]) or re.search(r'::\{closure#\d+\}$', e[1])):
        # `f(a, b)` with f a closure value: Fn::call(&f, (a, b)) - resolved to the closure body or left generic in a helper
        c = e[2][0]
        while c[0] in ('ref', 'deref'):
            c = c[1]
        tup = e[2][1]
        while tup[0] in ('ref', 'deref'):
            tup = tup[1]
        if c[0] == 'aggr' and str(c[1]).startswith('closure:') and tup[0] == 'aggr' and tup[1] == 'tuple':
            v = apply_closure(facts, c, list(tup[2]))
            if v is not None:
                return v
        if c[0] == 'fnitem' and tup[0] == 'aggr' and tup[1] == 'tuple':
            v = apply_closure(facts, c, list(tup[2]))
            if v is not None:
                return v
    if k == 'callptr':
        # a call through a function pointer whose value is a known closure / fn item (a combinator parameter)
        c = e[1]
        while c[0] in ('ref', 'deref') or (c[0] == 'cast' and 'FnPointer' in str(c[1])):
            c = c[3] if c[0] == 'cast' else c[1]
        if c[0] == 'fnitem' or (c[0] == 'aggr' and str(c[1]).startswith('closure:')):
            v = apply_closure(facts, c, list(e[2]))
            if v is not None:
                return v
    if k == 'call' and e[2] and re.match(r'^core::(option::Option|result::Result)::<.*>::(unwrap|expect|unwrap_unchecked)$', e[1]):
        # the value of `x.unwrap()` where x is a merged / lowered Option: the payload of the branch that builds Some / Ok
        # (the panic on None is an obligation of E2, not a value)
        o = e[2][0]
        src = o
        while src[0] in ('ref', 'deref'):
            src = src[1]
        if src[0] == 'phi' or (src[0] == 'aggr' and re.search(r'(Option::Some|Result::Ok)$', str(src[1]))):
            v = _payload(o, 'Some' if _is_option_path(e[1]) else 'Ok')
            if not (v[0] == 'field' and v[1][0] == 'downcast' and v[1][1] is o):
                return v
    if k == 'call' and e[2]:
        m = COMB.match(e[1])
        if m:
            name = m.group(2)
            o = e[2][0]
            is_opt = _is_option_path(e[1])
            some, none_v, some_v = ('Some', 0, 1) if is_opt else ('Ok', 1, 0)
            d = ('discr', o)
            if name == 'map_or' and len(e[2]) == 3:                             # map_or(d, f): None -> d, Some(v) -> f(v)
                r = apply_closure(facts, e[2][2], [_payload(o, some)])
                if r is not None:
                    return _synth_phi([(e[2][1], (d, frozenset({none_v}))), (r, (d, frozenset({some_v})))])
            if name == 'map_or_else' and len(e[2]) == 3:
                r = apply_closure(facts, e[2][2], [_payload(o, some)])
                dflt = apply_closure(facts, e[2][1], [] if is_opt else [_payload(o, 'Err')])
                if r is not None and dflt is not None:
                    return _synth_phi([(dflt, (d, frozenset({none_v}))), (r, (d, frozenset({some_v})))])
            if name == 'unwrap_or' and len(e[2]) == 2:                          # unwrap_or(d): Some(v) -> v, None -> d
                return _synth_phi([(_payload(o, some), (d, frozenset({some_v}))), (e[2][1], (d, frozenset({none_v})))])
            if name == 'unwrap_or_else' and len(e[2]) == 2:
                dflt = apply_closure(facts, e[2][1], [] if is_opt else [_payload(o, 'Err')])
                if dflt is not None:
                    return _synth_phi([(_payload(o, some), (d, frozenset({some_v}))), (dflt, (d, frozenset({none_v})))])
            if name == 'or_else' and is_opt and len(e[2]) == 2:                 # or_else(f): Some -> self, None -> f()
                alt = apply_closure(facts, e[2][1], [])
                if alt is not None:
                    return _synth_phi([(o, (d, frozenset({1}))), (alt, (d, frozenset({0})))])
            if name == 'or' and is_opt and len(e[2]) == 2:
                return _synth_phi([(o, (d, frozenset({1}))), (e[2][1], (d, frozenset({0})))])
            if name in ('ok_or_else', 'ok_or') and is_opt and len(e[2]) == 2:     # Some(v) -> Ok(v), None -> Err(f())
                err = apply_closure(facts, e[2][1], []) if name == 'ok_or_else' else e[2][1]
                if err is not None:
                    return _synth_phi([(('aggr', 'core::result::Result::Ok', [_payload(o, 'Some')], []), (d, frozenset({1}))),
                                       (('aggr', 'core::result::Result::Err', [err], []), (d, frozenset({0})))])
            if name == 'map' and len(e[2]) == 2:                                # Some(v) -> Some(f(v)); Ok(v) -> Ok(f(v))
                r = apply_closure(facts, e[2][1], [_payload(o, some)])
                if r is not None:
                    if is_opt:
                        return _synth_phi([(('aggr', 'core::option::Option::Some', [r], []), (d, frozenset({1}))),
                                           (('aggr', 'core::option::Option::None', [], []), (d, frozenset({0})))])
                    return _synth_phi([(('aggr', 'core::result::Result::Ok', [r], []), (d, frozenset({0}))),
                                       (('aggr', 'core::result::Result::Err', [_payload(o, 'Err')], []), (d, frozenset({1})))])
            if name == 'and_then' and is_opt and len(e[2]) == 2:                # and_then(f): None -> None, Some(v) -> f(v)
                r = apply_closure(facts, e[2][1], [_payload(o, 'Some')])
                if r is not None:
                    return _synth_phi([(('aggr', 'core::option::Option::None', [], []), (d, frozenset({0}))), (r, (d, frozenset({1})))])
    return e


def norm_cond(d, v):
    """rewrite a branch condition on `discr(branch(X))`, `discr(ok_or_else(O, ..))`, `discr(map(O, f))`, `discr(ok(R))`
    into the equivalent condition on the underlying Option / Result (so `?` and explicit matches give the same conditions)"""
    for _ in range(6):
        ds = d
        if ds[0] != 'discr':
            return d, v
        x = ds[1]
        while x[0] in ('ref', 'deref'):
            x = x[1]
        if x[0] == 'phi' and x[1] is None and x[4] and all(isinstance(w, tuple) and w and w[0] == 'cond' for w in x[4]):
            # discriminant of a lowered combinator value: phi(None{} when c0 | Some{..} when c1) is Some exactly when c1
            DV = {'Option::None': 0, 'Option::Some': 1, 'Result::Ok': 0, 'Result::Err': 1}
            sel = []
            for br, w in zip(x[2], x[4]):
                b0 = br
                while b0[0] in ('ref', 'deref'):
                    b0 = b0[1]
                dv = DV.get('::'.join(str(b0[1]).split('::')[-2:])) if b0[0] == 'aggr' else None
                if dv is None:
                    return d, v
                takes = (dv not in v[1]) if isinstance(v, tuple) else (dv in v)
                if takes:
                    sel.append(w)
            if len(sel) != 1:
                return d, v
            d, v = sel[0][1], sel[0][2]
            continue
        if x[0] != 'call' or not x[2]:
            return d, v
        path = x[1]
        flip = None
        if BRANCH_RX.search(path):
            flip = _is_option_path(path)          # Option: Continue(0) <=> Some(1); Result: Continue(0) <=> Ok(0)
        else:
            m = COMB.match(path)
            if not m:
                return d, v
            name = m.group(2)
            if name in ('ok_or_else', 'ok_or', 'ok'):
                flip = True                        # Ok(0) <=> Some(1)
            elif name in ('map', 'map_err'):
                flip = False
            else:
                return d, v
        d = ('discr', x[2][0])
        if flip:
            f = lambda s_: frozenset(1 - t if t in (0, 1) else t for t in s_)
            v = ('else', f(v[1])) if isinstance(v, tuple) else f(v)
    return d, v


def cond_infeasible(d, v):
    """a branch decision on a *constant* that the constant does not satisfy (`if false`, a flag parameter of a spliced
    helper that its call site fixes): the branch is dead"""
    x = d
    while x[0] in ('ref', 'deref'):
        x = x[1]
    if x[0] == 'const' and isinstance(x[2], (bool, int)) and not isinstance(x[2], float):
        val = int(x[2])
        return (val in v[1]) if isinstance(v, tuple) else (val not in v)
    if x[0] == 'discr':
        # the discriminant of a variant built in place (an enum flag fixed at the call site of a spliced helper)
        a = x[1]
        while a[0] in ('ref', 'deref'):
            a = a[1]
        if a[0] == 'aggr' and '::' in str(a[1]) and CURRENT is not None:
            owner, _, vname = str(a[1]).rpartition('::')
            rec = CURRENT.adts.get(owner)
            if rec:
                dv = [vv.get('discr') for vv in rec['variants'] if vv['name'] == vname]
                if len(dv) == 1 and isinstance(dv[0], int) and len(rec['variants']) > 1:
                    return (dv[0] in v[1]) if isinstance(v, tuple) else (dv[0] not in v)
    return False


def alternatives(body, e, limit=64, _conds=()):
    """E6 gamma expansion: expand phi nodes reachable from the top of `e` through projection /
    cast / ref wrappers into alternatives [(expr, conds)], conds = tuple of (discr expr, values)
    that hold in the defining block of the chosen branch (edge dominance). Phi nodes that came from an
    inlined callee carry their own body path and argument substitution."""
    k = e[0]
    if k == 'phi':
        out = []
        b2 = body.facts.bodies.get(e[5], body) if len(e) > 5 and e[5] else body
        sub = e[6] if len(e) > 6 else None
        for br, bid in zip(e[2], e[4]):
            cs = []
            for (_, d, v) in phi_branch_conditions(b2, bid):
                cs.append(norm_cond(subst_args(d, sub) if sub is not None else d, v))
            if any(cond_infeasible(d, v) for d, v in cs):
                continue
            out += alternatives(body, br, limit, tuple(_conds) + tuple(cs))
            if len(out) > limit:
                break
        return out
    if k in ('ref', 'deref', 'discr'):
        return [(simplify((k, x)), c) for x, c in alternatives(body, e[1], limit, _conds)]
    if k == 'field':
        out = []
        for x, c in alternatives(body, e[1], limit, _conds):
            y = simplify_field(('field', x, e[2], e[3] if len(e) > 3 else e[2]))
            if y[0] != 'field' or (y is not e and has_phi_spine(y)):
                out += alternatives(body, y, limit, c)     # projection resolved to an operand: keep expanding
            else:
                out.append((y, c))
        return out
    if k == 'downcast':
        out = []
        for x, c in alternatives(body, e[1], limit, _conds):
            xs = x
            while xs[0] in ('ref', 'deref'):
                xs = xs[1]
            # (Adt::Other{..} as Variant) is an infeasible alternative of a merged enum value: the match arm that projects
            # `Variant` is never taken for a value built as `Other`
            if xs[0] == 'aggr' and '::' in xs[1] and xs[1].rsplit('::', 1)[1] != str(e[2]) and xs[1].rsplit('::', 1)[0].rsplit('::', 1)[-1] in ('Option', 'Result') :
                continue
            # `x?` hands the residual back through from_residual: that value is always None / Err, never the Some / Ok projected here
            if xs[0] == 'call' and xs[1].endswith('::from_residual') and str(e[2]) in ('Some', 'Ok'):
                continue
            out.append((simplify_downcast(('downcast', x, e[2])), c))
        return out
    if k == 'cast':
        return [(('cast', e[1], e[2], x, e[4] if len(e) > 4 else None), c) for x, c in alternatives(body, e[3], limit, _conds)]
    if k == 'call' and is_transparent(e[1]) and e[2]:
        return [(('call', e[1], [x] + list(e[2][1:]), e[3]), c) for x, c in alternatives(body, e[2][0], limit, _conds)]
    return [(e, tuple(_conds))]


def _spine_phi(e, depth=0):
    """the phi reachable from the top of e through projections, references, casts and identity-like calls (else None)"""
    while depth < 40:
        depth += 1
        k = e[0]
        if k == 'phi':
            return e
        if k in ('ref', 'deref', 'field', 'downcast', 'discr'):
            e = e[1]
        elif k == 'cast':
            e = e[3]
        elif k == 'call' and is_transparent(e[1]) and e[2]:
            e = e[2][0]
        else:
            return None
    return None


def _phi_key(p):
    return (p[1], repr(p[4]))


def _replace_spine(e, key, k):
    """e with the spine phi identified by key replaced by its k-th branch (projections re-simplified)"""
    t = e[0]
    if t == 'phi':
        return e[2][k] if _phi_key(e) == key and k < len(e[2]) else e
    if t in ('ref', 'deref', 'discr'):
        return simplify((t, _replace_spine(e[1], key, k)))
    if t == 'field':
        return simplify_field(('field', _replace_spine(e[1], key, k)) + tuple(e[2:]))
    if t == 'downcast':
        return simplify_downcast(('downcast', _replace_spine(e[1], key, k), e[2]))
    if t == 'cast':
        return ('cast', e[1], e[2], _replace_spine(e[3], key, k)) + tuple(e[4:])
    if t == 'call' and is_transparent(e[1]) and e[2]:
        return ('call', e[1], [_replace_spine(e[2][0], key, k)] + list(e[2][1:]), e[3])
    return e


def joint_alternatives(body, exprs, limit=64, _conds=()):
    """gamma expansion of several expressions *together*: a merged value that several of them project (`best.0`, `best.2`
    of one `let best = if .. { (a, b, c) } else { (d, e, f) }`) is resolved to the same definition in all of them.
    Returns [([expr, ..], conds)]."""
    ph = None
    for e in exprs:
        ph = _spine_phi(e)
        if ph is not None:
            break
    if ph is None or limit <= 0:
        return [(list(exprs), tuple(_conds))]
    key = _phi_key(ph)
    b2 = body.facts.bodies.get(ph[5], body) if len(ph) > 5 and ph[5] else body
    sub = ph[6] if len(ph) > 6 else None
    out = []
    for k, (br, where) in enumerate(zip(ph[2], ph[4])):
        if br[0] == 'loop':
            continue
        cs = []
        for (_, d, v) in phi_branch_conditions(b2, where):
            cs.append(norm_cond(subst_args(d, sub) if sub is not None else d, v))
        if any(cond_infeasible(d, v) for d, v in cs):
            continue
        out += joint_alternatives(body, [_replace_spine(e, key, k) for e in exprs], limit - 1, tuple(_conds) + tuple(cs))
        if len(out) > 256:
            break
    return out


def has_phi_spine(e):
    """is there a phi reachable from the top through projection/ref wrappers?"""
    while True:
        if e[0] == 'phi':
            return True
        if e[0] in ('field', 'downcast', 'ref', 'deref', 'discr'):
            e = e[1]
        else:
            return False


def simplify_downcast(e):
    """(Some{x} as Some) stays a downcast node; field projection of it is resolved by simplify_field"""
    return e


def subst_args(e, args):
    """replace ('arg', i, name) nodes of an (inlined) callee expression by the caller's argument expressions"""
    if args is None:
        return e
    k = e[0]
    if k == 'arg':
        i = e[1] - 1
        return args[i] if 0 <= i < len(args) else e
    if k in ('const', 'fnitem', 'top', 'undef', 'loop', 'var'):
        return e
    if k in ('ref', 'deref', 'discr', 'repeat', 'proj?'):
        return simplify((k, subst_args(e[1], args)))
    if k == 'field':
        return simplify(('field', subst_args(e[1], args)) + tuple(e[2:]))
    if k == 'downcast':
        return ('downcast', subst_args(e[1], args), e[2])
    if k == 'index':
        return ('index', subst_args(e[1], args), subst_args(e[2], args))
    if k == 'call':
        return ('call', e[1], [subst_args(a, args) for a in e[2]], e[3])
    if k == 'callptr':
        return ('callptr', subst_args(e[1], args), [subst_args(a, args) for a in e[2]], e[3])
    if k == 'binop':
        return ('binop', e[1], subst_args(e[2], args), subst_args(e[3], args))
    if k == 'unop':
        return ('unop', e[1], subst_args(e[2], args))
    if k == 'cast':
        return ('cast', e[1], e[2], subst_args(e[3], args)) + tuple(e[4:])
    if k == 'aggr':
        return ('aggr', e[1], [subst_args(a, args) for a in e[2]]) + tuple(e[3:])
    if k == 'phi':
        old = e[6] if len(e) > 6 else None
        newsub = tuple(args) if old is None else tuple(subst_args(a, args) for a in old)
        return ('phi', e[1], [subst_args(a, args) for a in e[2]], e[3], e[4], e[5] if len(e) > 5 else None, newsub)
    return e


def rebuild(e, f):
    """post-order rewrite of an expression tree: f(node with rebuilt children) -> node"""
    k = e[0]
    r = lambda x: rebuild(x, f)
    if k in ('const', 'fnitem', 'top', 'undef', 'loop', 'var', 'arg'):
        n = e
    elif k in ('ref', 'deref', 'discr', 'repeat', 'proj?'):
        n = (k, r(e[1]))
    elif k == 'field':
        n = ('field', r(e[1])) + tuple(e[2:])
    elif k == 'downcast':
        n = ('downcast', r(e[1]), e[2])
    elif k == 'index':
        n = ('index', r(e[1]), r(e[2]))
    elif k == 'call':
        n = ('call', e[1], [r(a) for a in e[2]], e[3])
    elif k == 'callptr':
        n = ('callptr', r(e[1]), [r(a) for a in e[2]], e[3])
    elif k == 'binop':
        n = ('binop', e[1], r(e[2]), r(e[3]))
    elif k == 'unop':
        n = ('unop', e[1], r(e[2]))
    elif k == 'cast':
        n = ('cast', e[1], e[2], r(e[3])) + tuple(e[4:])
    elif k == 'aggr':
        n = ('aggr', e[1], [r(a) for a in e[2]]) + tuple(e[3:])
    elif k == 'phi':
        n = ('phi', e[1], [r(a) for a in e[2]]) + tuple(e[3:])
    else:
        n = e
    return f(n)


def inlinable(facts, path):
    b = facts.bodies.get(path)
    if b is None or b.kind not in ('fn', 'method'):
        return None
    if len(b.blocks) > 120 or b.loops():
        return None
    return b


def inline_calls(facts, e, depth=2, skip=None, _stack=()):
    """E6 inlining: replace calls to crate-local loop-free functions by their return expression with the
    arguments substituted (depth-bounded). `skip` is a regex of callee paths to keep opaque (leaf getters)."""
    k = e[0]
    rec = lambda x: inline_calls(facts, x, depth, skip, _stack)
    if k in ('const', 'fnitem', 'top', 'undef', 'loop', 'var', 'arg'):
        return e
    if k in ('ref', 'deref', 'discr', 'repeat', 'proj?'):
        return simplify((k, rec(e[1])))
    if k == 'field':
        return lower(facts, simplify_field(('field', rec(e[1])) + tuple(e[2:])))
    if k == 'downcast':
        return ('downcast', rec(e[1]), e[2])
    if k == 'index':
        return ('index', rec(e[1]), rec(e[2]))
    if k == 'binop':
        return ('binop', e[1], rec(e[2]), rec(e[3]))
    if k == 'unop':
        return ('unop', e[1], rec(e[2]))
    if k == 'cast':
        return ('cast', e[1], e[2], rec(e[3])) + tuple(e[4:])
    if k == 'aggr':
        return ('aggr', e[1], [rec(a) for a in e[2]]) + tuple(e[3:])
    if k == 'phi':
        return ('phi', e[1], [rec(a) for a in e[2]]) + tuple(e[3:])
    if k == 'callptr':
        fv = rec(e[1])
        args = [rec(a) for a in e[2]]
        c = fv
        while c[0] in ('ref', 'deref') or (c[0] == 'cast' and 'FnPointer' in str(c[1])):
            c = c[3] if c[0] == 'cast' else c[1]
        if depth > 0 and (c[0] == 'fnitem' or (c[0] == 'aggr' and str(c[1]).startswith('closure:'))):
            v = apply_closure(facts, c, args)
            if v is not None:
                return inline_calls(facts, v, depth - 1, skip, _stack)
        return ('callptr', fv, args, e[3])
    if k == 'call':
        args = [rec(a) for a in e[2]]
        path = e[1]
        if depth > 0 and path not in _stack and not (skip and re.search(skip, path)) and not is_transparent(path):
            b = inlinable(facts, path)
            if b is not None and len(args) == b.argc:
                ret = b.local_expr(0)
                if ret[0] != 'top':
                    body_e = subst_args(ret, args)
                    return inline_calls(facts, body_e, depth - 1, skip, _stack + (path,))
        return lower(facts, ('call', path, args, e[3]))
    return e


def _variant_payloads(ph, variant, _d=0):
    """payload expressions of the branches of a (nested) phi that construct `variant`; [] when no branch can; None when a
    branch is not a visible constructor"""
    if _d > 6:
        return None
    out = []
    for br in ph[2]:
        b0 = br
        while b0[0] in ('ref', 'deref'):
            b0 = b0[1]
        if b0[0] == 'aggr' and re.search(r'(result::Result|option::Option)::(Ok|Err|Some|None)$', str(b0[1])):
            if b0[1].endswith('::' + variant) and b0[2]:
                out.append(b0[2][0])
            continue
        if b0[0] == 'call' and b0[1].endswith('::from_residual') and variant in ('Ok', 'Some'):
            continue
        if b0[0] == 'phi':
            sub = _variant_payloads(b0, variant, _d + 1)
            if sub is None:
                return None
            out += sub
            continue
        return None
    return out


def simplify_field(e):
    """field projection through a constructed value: (Adt{a, b}).name -> operand; (X as Some).0 with X = Some{v} -> v"""
    e = simplify(e)
    if e[0] != 'field':
        return e
    base = e[1]
    if base[0] == 'downcast' and base[1][0] == 'aggr' and base[1][1].endswith('::' + str(base[2])):
        idx = e[2]
        ag = base[1]
        names = ag[3] if len(ag) > 3 else []
        if idx in names:
            return ag[2][names.index(idx)]
        if idx.isdigit() and int(idx) < len(ag[2]):
            return ag[2][int(idx)]
    if base[0] == 'aggr' and len(base) > 3 and e[2] in (base[3] or []):
        return base[2][base[3].index(e[2])]
    if base[0] == 'aggr' and len(base) > 3 and base[3] and len(base[3]) == len(base[2]):
        # the same with names written the other way (statement aggregates carry qualified field names)
        short_ = [str(n_).rsplit('.', 1)[-1] for n_ in base[3]]
        nm_ = str(e[2]).rsplit('.', 1)[-1]
        if nm_ in short_ and short_.count(nm_) == 1:
            return base[2][short_.index(nm_)]
    if base[0] == 'downcast' and base[1][0] == 'phi' and base[2] in ('Ok', 'Some', 'Err') and e[2].lstrip('#') == '0':
        # (phi(Ok{a} | Err{..} | from_residual(..)) as Ok).0: the downcast selects the branches that build that variant
        ph = base[1]
        flat = _variant_payloads(ph, base[2])
        if flat is not None and len(flat) == 1:
            return flat[0]
        keep = []
        for i, br in enumerate(ph[2]):
            b0 = br
            while b0[0] in ('ref', 'deref'):
                b0 = b0[1]
            if b0[0] == 'aggr' and re.search(r'(result::Result|option::Option)::(Ok|Err|Some|None)$', str(b0[1])):
                if b0[1].endswith('::' + base[2]) and b0[2]:
                    keep.append((i, b0[2][0]))
                continue
            if b0[0] == 'call' and b0[1].endswith('::from_residual') and base[2] in ('Ok', 'Some'):
                continue
            if b0[0] == 'phi' and _variant_payloads(b0, base[2]) == []:
                continue
            keep.append((i, simplify_field(('field', ('downcast', br, base[2])) + tuple(e[2:]))))
        if len(keep) == 1:
            return keep[0][1]
        if keep and len(keep) < len(ph[2]):
            idx = [i for i, _ in keep]
            return ('phi', ph[1], [v for _, v in keep], ph[3], [ph[4][i] for i in idx]) + tuple(ph[5:])
    return e


def resolve_conds(body, conds):
    """replace conditions on flags that are themselves phi-of-constants by the conditions selecting
    the matching constant branch (one level, repeated until fixpoint, bounded)"""
    out = []
    for (d, v) in conds:
        alts = alternatives(body, d)
        if len(alts) > 1 and all(strip(a)[0] == 'const' for a, _ in alts):
            match = []
            for a, c in alts:
                val = strip(a)[2]
                val = int(val) if isinstance(val, bool) else val
                if isinstance(v, tuple):
                    ok = val not in v[1]
                else:
                    ok = val in v
                if ok:
                    match.append(c)
            if len(match) == 1:
                out += resolve_conds(body, match[0])
                continue
        out.append((d, v))
    return out


def _truthy(v):
    """does the decision `v` say "the tested bool is true"? True / False / None (not a bool test)"""
    if isinstance(v, tuple):
        return True if set(v[1]) == {0} else None
    if set(v) == {0}:
        return False
    if set(v) == {1}:
        return True
    return None


def implied(body, d, v, depth=0):
    """Atoms implied by the branch decision (d, v): the decision itself, and - when d is a bool that was merged from
    several definitions (`let ok = match x { Some(t) => !t.has(k), None => false }; if ok { .. }`) and only one of them can
    have the tested truth value - the conditions of that definition and what its value implies in turn. `!c` is unfolded."""
    out = [(d, v)]
    if depth > 6:
        return out
    if d[0] == 'discr':
        # discriminant of a merged Option / Result: when only one definition can build the tested variant, its conditions hold
        x = d[1]
        while x[0] in ('ref', 'deref'):
            x = x[1]
        if x[0] == 'phi':
            DV = {'Option::None': 0, 'Option::Some': 1, 'Result::Ok': 0, 'Result::Err': 1}
            b2 = body.facts.bodies.get(x[5], body) if len(x) > 5 and x[5] else body
            sub = x[6] if len(x) > 6 else None
            feas = []
            for br, where in zip(x[2], x[4]):
                b0 = br
                while b0[0] in ('ref', 'deref'):
                    b0 = b0[1]
                dv = DV.get('::'.join(str(b0[1]).split('::')[-2:])) if b0[0] == 'aggr' else None
                if dv is None and b0[0] == 'aggr' and '::' in str(b0[1]):
                    # a crate-local enum used as a flag (`enum Direction { Up, Down }`): the discriminant of the variant built
                    rec = body.facts.adts.get(str(b0[1]).rsplit('::', 1)[0])
                    if rec:
                        for vv in rec['variants']:
                            if vv['name'] == str(b0[1]).rsplit('::', 1)[1]:
                                dv = vv.get('discr')
                if dv is not None and ((dv in v[1]) if isinstance(v, tuple) else (dv not in v)):
                    continue
                feas.append((br, where))
            if len(feas) == 1:
                br, where = feas[0]
                for (_, d2, v2) in phi_branch_conditions(b2, where):
                    if sub is not None:
                        d2 = subst_args(d2, sub)
                    out += implied(body, *norm_cond(d2, v2), depth=depth + 1)
                out += implied(body, *norm_cond(('discr', br), v), depth=depth + 1)[1:]
        return out
    t = _truthy(v)
    if t is None:
        return out
    x = d
    while x[0] in ('ref', 'deref') or (x[0] == 'call' and is_transparent(x[1]) and x[2]):
        x = x[1] if x[0] in ('ref', 'deref') else x[2][0]
    if x[0] == 'unop' and x[1] == 'Not':
        out += implied(body, x[2], frozenset({0}) if t else ('else', frozenset({0})), depth + 1)
    elif x[0] == 'phi':
        b2 = body.facts.bodies.get(x[5], body) if len(x) > 5 and x[5] else body
        sub = x[6] if len(x) > 6 else None
        feas = []
        for br, where in zip(x[2], x[4]):
            b0 = br
            while b0[0] in ('ref', 'deref'):
                b0 = b0[1]
            if b0[0] == 'const' and isinstance(b0[2], bool) and b0[2] != t:
                continue
            feas.append((br, where))
        if len(feas) == 1:
            br, where = feas[0]
            for (_, d2, v2) in phi_branch_conditions(b2, where):
                if sub is not None:
                    d2 = subst_args(d2, sub)
                out += implied(body, *norm_cond(d2, v2), depth=depth + 1)
            out += implied(body, br, ('else', frozenset({0})) if t else frozenset({0}), depth + 1)
    return out


def implied_strs(body, conds):
    """cond_str of the given decisions [(d, v)] (flags resolved: resolve_conds) and of every atom they imply"""
    out = []
    for d, v in resolve_conds(body, tuple(conds)):
        for d2, v2 in implied(body, *norm_cond(d, v)):
            t = cond_str(d2, v2)
            if t not in out:
                out.append(t)
    return out


def implied_conds(body, bid):
    """cond_str of every atom implied by the decisions that dominate block bid (deep rendering)"""
    out = []
    for (_, d, v) in body.conditions(bid):
        for d2, v2 in implied(body, *norm_cond(d, v)):
            t = cond_str(d2, v2)
            if t not in out:
                out.append(t)
    return out


def cond_str(d, v):
    if isinstance(v, tuple):
        return '%s!=%s' % (render(d), sorted(v[1]))
    return '%s=%s' % (render(d), sorted(v))


def strip(e, transparent=True):
    """Normalise an expression for *wiring* rules: drop ref/deref, casts between reference kinds,
    and identity-like calls (clone/deref/borrow/to_string/to_owned/as_ref/into) on their receiver."""
    while True:
        k = e[0]
        if k in ('ref', 'deref'):
            e = e[1]
        elif k == 'cast' and (e[1].startswith('PointerCoercion') or e[1] in ('PtrToPtr', 'Transmute')):
            e = e[3]
        elif k == 'call' and transparent and is_transparent(e[1]) and e[2]:
            e = e[2][0]
        else:
            return e


def is_transparent(path):
    p = path
    return bool(re.search(r'(Deref|DerefMut)>::deref(_mut)?$|Borrow<.*>>::borrow$|::clone$|ToOwned>::to_owned$|'
                          r'AsRef<.*>>::as_ref$|Into<.*>>::into$|From<.*>>::from$|ToString>::to_string$|'
                          r'String::as_str$|Option::<.*>::(as_ref|cloned|copied|as_deref)$|'
                          r'IntoIterator>::into_iter$|::to_string$|::to_owned$|String::as_mut_str$|'
                          r'Index<core::ops::RangeFull>>::index$|::borrow$|::as_str$', p))


def _lname(x):
    """a local id or the pseudo-local of a field-wise definition (('fld', local, field)) as text"""
    if isinstance(x, tuple) and len(x) == 3 and x[0] == 'fld':
        return '_%s.%s' % (x[1], str(x[2]).rsplit('.', 1)[-1])
    return x


def _component(e, transparent=True, depth=0):
    """`S { a: x, .. }.a` is x (a struct literal built earlier and read back, e.g. through a spliced helper): resolved
    structurally, so that a projection of the component resolves in turn"""
    x = strip(e, transparent)
    if x[0] == 'field' and depth < 6:
        b0 = strip(_component(x[1], transparent, depth + 1), transparent)
        if b0[0] == 'aggr' and len(b0) > 3 and b0[3] and len(b0[3]) == len(b0[2]):
            short_ = [str(n_).rsplit('.', 1)[-1] for n_ in b0[3]]
            nm = str(x[2]).rsplit('.', 1)[-1]
            if nm in short_:
                return b0[2][short_.index(nm)]
    return e


def render(e, transparent=True, depth=0):
    """Canonical, line-number-free text of an expression (used in keys and reports)."""
    if depth > 25:
        return '…'
    is_place = e[0] == 'ref'            # `&s.f` / `&mut s.f` names the place, whatever was first stored there
    e = strip(e, transparent)
    k = e[0]
    r = lambda x: render(x, transparent, depth + 1)
    if k == 'const':
        if isinstance(e[2], str):
            return json.dumps(e[2], ensure_ascii=False)
        if e[2] is None:
            return e[3].replace('const ', '')
        return str(e[2])
    if k == 'arg':
        return str(e[2])
    if k == 'var':
        return '$' + str(e[2])
    if k == 'field':
        b0 = strip(_component(e[1], transparent), transparent)
        if not is_place and b0[0] == 'aggr' and len(b0) > 3 and b0[3] and len(b0[3]) == len(b0[2]):
            short_ = [str(x).rsplit('.', 1)[-1] for x in b0[3]]
            if str(e[2]).rsplit('.', 1)[-1] in short_:
                return r(b0[2][short_.index(str(e[2]).rsplit('.', 1)[-1])])          # a component of a struct literal built earlier: the component itself
        return '%s.%s' % (r(e[1]), e[2])
    if k == 'downcast':
        return '%s as %s' % (r(e[1]), e[2])
    if k == 'index':
        return '%s[%s]' % (r(e[1]), r(e[2]))
    if k == 'call':
        name = short(e[1]).rsplit('::', 2)[-1] if short(e[1]).count('::') < 2 else '::'.join(short(e[1]).split('::')[-2:])
        if not e[2] and len(e) > 3 and isinstance(e[3], dict) and e[3].get('callee') and e[3]['callee'].get('gen'):
            name += '::<%s>' % ', '.join(g.rsplit('::', 1)[-1] for g in e[3]['callee']['gen'])
        return '%s(%s)' % (name, ', '.join(r(a) for a in e[2]))
    if k == 'callptr':
        return '(*%s)(%s)' % (r(e[1]), ', '.join(r(a) for a in e[2]))
    if k == 'binop':
        return '(%s %s %s)' % (r(e[2]), e[1], r(e[3]))
    if k == 'unop':
        return '%s(%s)' % (e[1], r(e[2]))
    if k == 'cast':
        return '(%s as %s)' % (r(e[3]), e[2])
    if k == 'discr':
        return 'discr(%s)' % r(e[1])
    if k == 'aggr':
        return '%s{%s}' % (e[1], ', '.join(r(a) for a in e[2]))
    if k == 'phi':
        return 'phi[%s](%s)' % (e[3] or e[1], ' | '.join(sorted(set(r(a) for a in e[2]))))
    if k == 'fnitem':
        return 'fn ' + short(e[1])
    if k == 'loop':
        return 'loopvar[%s]' % (_lname(e[2] or e[1]),)
    if k == 'undef':
        return 'undef[%s]' % (_lname(e[2] or e[1]),)
    if k == 'repeat':
        return '[%s; n]' % r(e[1])
    return '⊤(%s)' % (_lname(e[1]) if len(e) > 1 else k,)


ITER_SAME = re.compile(r'IntoIterator>::into_iter$|slice::<impl \[T\]>::iter(_mut)?$|Vec::<.*>::iter(_mut)?$|Iterator>?::(by_ref|cloned|copied|peekable|fuse)$|'
                       r'(Deref|DerefMut)>::deref(_mut)?$|Vec::<.*>::as_slice$|Iterator>?::collect$|FromIterator<.*>>::from_iter$|Borrow<.*>>::borrow$')


def iter_element(facts, it, _depth=0):
    """the expression of *the current element* of an iterator / collection expression, position for position:
    iter(X) -> elem(X); zip(A, B) -> (elem(A), elem(B)) (the same position of both); map(A, f) -> f(elem(A));
    collect(A) -> elem(A); enumerate(A) -> (position, elem(A)). A source that is not one of these is the leaf elem(source).
    Identities of the std adaptors; nothing is said about *which* position, only that all parts are at the same one."""
    if _depth > 12:
        return None
    e = it
    while e[0] in ('ref', 'deref') or (e[0] == 'cast' and (e[1].startswith('PointerCoercion') or e[1] in ('PtrToPtr',))):
        e = e[3] if e[0] == 'cast' else e[1]
    if e[0] == 'call' and e[2]:
        path = e[1]
        if ITER_SAME.search(path):
            return iter_element(facts, e[2][0], _depth + 1)
        if re.search(r'Iterator>?::zip$', path) and len(e[2]) == 2:
            a, b = iter_element(facts, e[2][0], _depth + 1), iter_element(facts, e[2][1], _depth + 1)
            if a is None or b is None:
                return None
            return ('aggr', 'tuple', [a, b], [])
        if re.search(r'Iterator>?::map$', path) and len(e[2]) == 2:
            a = iter_element(facts, e[2][0], _depth + 1)
            if a is None:
                return None
            return apply_closure(facts, e[2][1], [a])
        if re.search(r'Iterator>?::enumerate$', path):
            a = iter_element(facts, e[2][0], _depth + 1)
            if a is None:
                return None
            return ('aggr', 'tuple', [('call', 'position', [e[2][0]], None), a], [])
        if re.search(r'Iterator>?::(filter|skip|take|rev|step_by|skip_while|take_while|chain|flatten|flat_map|filter_map)$', path):
            return None                              # positions are not preserved: left as it is
    return ('call', 'elem', [e], None)


def resolve_elements(facts, e):
    """rewrite every `(next(IT) as Some).0` inside e to the element expression of IT (see iter_element)"""
    def f(n):
        if n[0] == 'field' and n[1][0] == 'downcast' and n[1][2] == 'Some' and str(n[2]).lstrip('#') == '0':
            src = n[1][1]
            while src[0] in ('ref', 'deref'):
                src = src[1]
            if src[0] == 'call' and re.search(r'Iterator>?::next$', src[1]) and src[2]:
                el = iter_element(facts, src[2][0])
                if el is not None and not (el[0] == 'call' and el[1] == 'elem' and el[2][0][0] in ('loop', 'phi', 'top', 'undef')):
                    return el
            if src[0] == 'call' and re.search(r'Iterator>?::find_map$', src[1]) and len(src[2]) == 2:
                # what find_map hands back is f(x) for *an* element x for which that is Some
                el = iter_element(facts, src[2][0])
                r = apply_closure(facts, src[2][1], [el]) if el is not None else None
                if r is not None:
                    return simplify_field(('field', ('downcast', r, 'Some'), n[2]) + tuple(n[3:]))
            if src[0] == 'call' and re.search(r'Iterator>?::find$', src[1]) and len(src[2]) == 2:
                el = iter_element(facts, src[2][0])
                if el is not None:
                    return el
        if n[0] == 'field':
            return simplify_field(n)
        return n
    return rebuild(e, f)


def walk(e, transparent=False):
    """pre-order traversal of sub-expressions"""
    yield e
    k = e[0]
    if k in ('ref', 'deref', 'discr', 'repeat', 'proj?'):
        yield from walk(e[1])
    elif k in ('field', 'downcast'):
        yield from walk(e[1])
    elif k == 'index':
        yield from walk(e[1])
        yield from walk(e[2])
    elif k == 'call':
        for a in e[2]:
            yield from walk(a)
    elif k == 'callptr':
        yield from walk(e[1])
        for a in e[2]:
            yield from walk(a)
    elif k == 'binop':
        yield from walk(e[2])
        yield from walk(e[3])
    elif k == 'unop':
        yield from walk(e[2])
    elif k == 'cast':
        yield from walk(e[3])
    elif k == 'aggr':
        for a in e[2]:
            yield from walk(a)
    elif k == 'phi':
        for a in e[2]:
            yield from walk(a)


def field_path(e):
    """If e (after stripping) is a chain of field projections from an argument, return
    ('argname', ['f1','f2',...]) else None."""
    names = []
    e = strip(e)
    while True:
        if e[0] == 'field':
            names.append(e[2])
            e = strip(e[1])
        elif e[0] == 'downcast':
            e = strip(e[1])
        elif e[0] == 'arg':
            return (e[2], list(reversed(names)))
        else:
            return None


def contains_call(e, pattern):
    for x in walk(e):
        if x[0] == 'call' and re.search(pattern, x[1]):
            return x
    return None


def consts_in(e):
    return [x for x in walk(e) if x[0] == 'const']


CURRENT = None      # the fact base loaded last (lets expression helpers resolve `const ITEM` operands without threading it through)


class Facts:
    def __init__(self, path, splice=True):
        global CURRENT
        CURRENT = self
        self.path = path
        self.spliced = {}            # helper path -> Body removed from `bodies` after splicing into its callers (scv/inline.py)
        self.splice_report = []
        self.table_report = []
        self.meta = {}
        self.adts = {}
        self.consts = {}
        self.statics = {}
        self.impls = []
        self.externs = {}
        self.bodies = {}
        complete = False
        with open(path, encoding='utf-8') as f:
            for line in f:
                r = json.loads(line)
                k = r['rec']
                if k == 'meta':
                    self.meta = r
                elif k == 'adt':
                    self.adts[r['path']] = r
                elif k == 'const':
                    self.consts[r['path']] = r
                elif k == 'static':
                    self.statics[r['path']] = r
                elif k == 'impl':
                    self.impls.append(r)
                elif k == 'extern':
                    self.externs[r['path']] = r
                elif k == 'body':
                    self.bodies[r['path']] = Body(r, self)
                elif k == 'end':
                    complete = True
        if not complete:
            raise AnchorLost('fact base %s is truncated' % path)
        if splice:
            from .inline import splice_new_helpers, lower_primitive_operator_calls, resolve_into_calls
            self.lowered_ops = lower_primitive_operator_calls(self, Body)
            self.into_calls = resolve_into_calls(self, Body)
            self.splice_report = splice_new_helpers(self, Body)
            if resolve_into_calls(self, Body):
                # `.into()` inside a spliced generic helper became a direct call of a From impl: splice that one, too
                self.splice_report = list(self.splice_report) + list(splice_new_helpers(self, Body))
            from .inline import desugar_table_searches
            self.table_report = desugar_table_searches(self, Body)
            for hp, cs in self.splice_report:
                for b in self.bodies.values():
                    if b.kind == 'closure' and b.rec.get('parent') == hp and len(cs) == 1:
                        b.rec['parent'] = cs[0]

    def body(self, path):
        """exact def-path lookup; fail closed"""
        b = self.bodies.get(path)
        if b is None:
            raise AnchorLost('function `%s` not found in the crate' % path)
        return b

    def find(self, regex, kinds=('fn', 'method', 'closure')):
        return [b for p, b in sorted(self.bodies.items()) if b.kind in kinds and re.search(regex, p)]

    def one(self, regex):
        m = self.find(regex)
        if len(m) != 1:
            raise AnchorLost('expected exactly one function matching /%s/, found %d: %s' % (regex, len(m), [b.path for b in m][:5]))
        return m[0]

    def promoted(self, owner_path):
        return [b for p, b in sorted(self.bodies.items()) if b.kind == 'promoted' and b.rec.get('promoted_of') == owner_path]

    def impls_of(self, trait_regex):
        return [i for i in self.impls if i['trait'] and re.search(trait_regex, i['trait'])]

    def src_bodies(self):
        """bodies written in /repo/src (not derive/serde expansions from other files)"""
        return [b for b in self.bodies.values() if b.file.startswith('src/')]
