"""E8 - effect queries: who reads / writes which field, which interior-mutable cells are written and
through which receiver, which collection-mutating calls hit which field."""
import re

from .facts import render, strip, walk, opplace, fn_key

CELL_WRITE = re.compile(r'(^|::)(RefCell|Cell)::<.*>::(borrow_mut|set|replace|swap|take|update|replace_with|try_borrow_mut)$')
COLL_WRITE = re.compile(r'(BTreeMap|Vec|VecDeque|BTreeSet|String)::<.*>::(insert|remove|clear|push|push_str|pop|retain|retain_mut|drain|truncate|append|extend|'
                        r'get_mut|entry|swap_remove|sort|sort_by|dedup|resize|split_off|iter_mut|first_mut|last_mut|values_mut)$|'
                        r'IndexMut<.*>>::index_mut$|Extend<.*>>::extend$|Vec::<.*>::(push|insert|remove)$')


def field_reads(body, field_suffix):
    """sites (loc) where a place whose projection contains field `Adt.field` (suffix match) is *read*"""
    out = []
    for i in body.normal_blocks:
        bl = body.blocks[i]
        for s in bl['stmts']:
            if s['k'] != 'assign':
                continue
            for o in s['ops']:
                p = opplace(o)
                if p and any(isinstance(pe, dict) and pe.get('field', '').endswith(field_suffix) for pe in p['proj']):
                    out.append(s['loc'])
        t = bl['term']
        ops = []
        if t['k'] == 'call':
            ops = t['args']
        elif t['k'] == 'switch':
            ops = [t['discr']]
        for o in ops:
            p = opplace(o)
            if p and any(isinstance(pe, dict) and pe.get('field', '').endswith(field_suffix) for pe in p['proj']):
                out.append(t['loc'])
    return out


def field_assigns(body, field_suffix):
    """direct assignments `place.field = ..` (the field is the LAST projection element or the value is stored through it)"""
    out = []
    for i in body.normal_blocks:
        for s in body.blocks[i]['stmts']:
            if s['k'] == 'assign' and s['lhs']['proj']:
                pr = s['lhs']['proj']
                if any(isinstance(pe, dict) and pe.get('field', '').endswith(field_suffix) for pe in pr):
                    out.append((i, s))
        t = body.blocks[i]['term']
        if t['k'] == 'call' and t['dest']['proj']:
            if any(isinstance(pe, dict) and pe.get('field', '').endswith(field_suffix) for pe in t['dest']['proj']):
                out.append((i, t))
    return out


def cell_writes(body):
    """[(block, term, method, receiver expr)] for calls that write through a Cell/RefCell"""
    out = []
    for bid, t in body.calls():
        c = t.get('callee')
        if not c or not CELL_WRITE.search(c['path']):
            continue
        out.append((bid, t, c['path'].rsplit('::', 1)[1], body.expr(t['args'][0]) if t['args'] else ('top', 'noarg')))
    return out


def collection_writes(body):
    """[(block, term, method, receiver expr)] for calls that mutate a std collection"""
    out = []
    for bid, t in body.calls():
        c = t.get('callee')
        if not c or c['local'] or not COLL_WRITE.search(c['path']):
            continue
        out.append((bid, t, c['path'].rsplit('::', 1)[1], body.expr(t['args'][0]) if t['args'] else ('top', 'noarg')))
    return out


def spine(e, depth=0):
    """sub-expressions on the *object* spine of a receiver: the thing whose storage is reached. Follows
    projections, the base of an index, the receiver (first argument) of calls, every branch of a phi; it does
    not enter index values, keys or other arguments (those select *which* element, not whose it is)."""
    if depth > 60:
        return
    yield e
    k = e[0]
    if k in ('ref', 'deref', 'discr', 'proj?', 'field', 'downcast'):
        yield from spine(e[1], depth + 1)
    elif k == 'index':
        yield from spine(e[1], depth + 1)
    elif k == 'call' and e[2]:
        yield from spine(e[2][0], depth + 1)
    elif k == 'cast':
        yield from spine(e[3], depth + 1)
    elif k == 'phi':
        for a in e[2]:
            yield from spine(a, depth + 1)
    elif k == 'aggr':
        for a in e[2]:
            yield from spine(a, depth + 1)


def spine_fields(e):
    return set(x[3] for x in spine(e) if x[0] == 'field' and len(x) > 3)


def fields_in(e):
    """set of fully qualified field names (Adt.field) appearing in an expression"""
    return set(x[3] for x in walk(e) if x[0] == 'field' and len(x) > 3)


def roots(e):
    """argument names / call paths at the leaves of a receiver expression"""
    out = set()
    for x in walk(e):
        if x[0] == 'arg':
            out.add('arg:' + str(x[2]))
    return out
