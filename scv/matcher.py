"""Matcher table (E6c): what rule_tokinizer does with a line for one internal rule with one pattern.

Every rule-based property (percent phrases, money conversion, durations, dates, unit conversion, custom rules) rests on one
piece of code: the scan that finds where a rule pattern matches the token list, binds the pattern's named fields to the matched
tokens, hands them to the rule function and replaces the matched run by the result. The statement of that scan, as the
properties use it:

  * tokens marked Removed and tokens without a type are skipped; a token that does not continue the pattern ends the attempt and
    the scan goes on *behind* it (it is not tried as a new first token: DU7);
  * when the pattern is complete the rule function receives, for every named field of the pattern, the token that matched it
    in *this* attempt - never a token of an abandoned attempt;
  * on Ok the tokens from the first matched one to the last are marked Removed, one new token spanning their text is put at the
    position of the first, and the rules run again.

`matcher_table` walks `rule_tokinizer` (entering `find_match`, whatever it returns - a tuple, a struct with methods) with the
E6c machine over all lines of up to four tokens over {A, B, a variable holding an A} plus a Removed and a typeless token, and
the patterns A, A B, A B A, A A (named fields) and compares, per line and pattern, the sequence of rule-function calls (which
token each field is bound to) and the final token list with a twenty-line reference scan written from the statement above.
Token equality, variable comparison and the field name of a pattern token are leaves (they are C16's / C18's / C03's clauses).
Nothing of smartcalc runs: the machine interprets the exported MIR on abstract tokens."""
import itertools
import re

from .absint import Machine, Unknown, is_sym, is_ptr
from . import absstr
from .facts import AnchorLost

PATTERNS = [('A',), ('A', 'B'), ('A', 'B', 'A'), ('A', 'A')]
FIELD_NAMES = ['value', 'type', 'third']


def reference(line, pattern):
    """line: [(kind, state)] with kind in A/B/V/N and state in active/removed/typeless; -> (calls, final)"""
    toks = [{'id': 't%d' % i, 'kind': k, 'state': s} for i, (k, s) in enumerate(line)]
    calls = []

    def matches(tok, pk):
        return tok['kind'] == pk or (tok['kind'] == 'V' and pk == 'A')
    for _round in range(8):
        ri, start, fields, end, done = 0, 0, {}, 0, False
        for ti, tok in enumerate(toks):
            end = ti + 1
            if tok['state'] == 'removed':
                continue
            if tok['state'] != 'typeless':
                if matches(tok, pattern[ri]):
                    fields[FIELD_NAMES[ri]] = tok['id']
                    ri += 1
                else:
                    ri, start = 0, ti + 1
            if ri == len(pattern):
                done = True
                break
        if not done:
            break
        calls.append(dict(fields))
        for i in range(start, end):
            toks[i]['state'] = 'removed'
        toks.insert(start, {'id': 'NEW%d' % len(calls), 'kind': 'N', 'state': 'active'})
    return calls, [('NEW' if t['id'].startswith('NEW') else t['id'], t['state'] == 'removed') for t in toks]


def matcher_table(ctx, rid, deep=False):
    ok1 = _matcher_table(ctx, rid, deep, 'Internal')
    if ok1 is None:
        return None
    vis, cells = dict(getattr(ctx, '_matcher_visited', {})), getattr(ctx, '_matcher_cells', 0)
    ok2 = _matcher_table(ctx, rid, False, 'API')
    for pth, blocks in getattr(ctx, '_matcher_visited', {}).items():
        vis.setdefault(pth, set()).update(blocks)
    cells += getattr(ctx, '_matcher_cells', 0)
    ok3 = _matcher_table(ctx, rid, False, 'Unit')
    for pth, blocks in getattr(ctx, '_matcher_visited', {}).items():
        vis.setdefault(pth, set()).update(blocks)
    ctx._matcher_visited = vis
    ctx._matcher_cells = cells + getattr(ctx, '_matcher_cells', 0)
    return bool(ok1) and bool(ok2) and bool(ok3)


def _matcher_table(ctx, rid, deep=False, arm='Internal'):
    b = ctx.facts.one(r'^tokinizer::rule_tokinizer::rule_tokinizer$' if arm != 'Unit' else r'^tokinizer::dynamic_type_tokinizer::dynamic_type_tokinizer$')
    ctx.fn(b)
    fm = ctx.facts.find(r'^tokinizer::rule_tokinizer::find_match$')
    if fm:
        ctx.fn(fm[0])
    tt = ctx.facts.adts.get('types::TokenType')
    st = ctx.facts.adts.get('tokinizer::TokenInfoStatus')
    rt = ctx.facts.adts.get('tokinizer::rule_tokinizer::RuleType')
    if not tt or not st or not rt:
        raise AnchorLost('TokenType / TokenInfoStatus / RuleType not found')
    vnames = {v['name'] for v in tt['variants']}
    for need in ('Number', 'Text', 'Variable', 'Field', 'Percent'):
        if need not in vnames:
            raise AnchorLost('TokenType::%s not found' % need)
    KIND_VARIANT = {'A': 'Number', 'B': 'Text', 'N': 'Percent'}
    visited = {}

    def walk(line, pattern):
        calls = []
        made = [0]

        def kind_of(m, v):
            v = m.deref_value(v)
            if not isinstance(v, dict):
                return None
            if v.get('__kind__'):
                return v['__kind__']
            # a token the code built itself (the result of a rule): its kind is the variant it carries
            ty = m.deref_value(v.get('token_type'))
            inner = m.deref_value(ty.get('0')) if isinstance(ty, dict) and ty.get('__discr__') == 1 else None
            if isinstance(inner, dict):
                for k_, vn in KIND_VARIANT.items():
                    if inner.get('__variant__') == vn:
                        return k_
                return 'N'                      # any other kind of result (a unit quantity): matches no pattern token here
            return None

        def model(m, path, args, t):
            a0 = m.deref_value(args[0]) if args else None
            if path == '<indirect>':
                # the rule function, called through its pointer: (config, tokinizer, &fields)
                fmap = None
                for a in args:
                    v = m.deref_value(a)
                    if isinstance(v, tuple) and v and v[0] == 'map':
                        fmap = v
                if fmap is None:
                    raise Unknown('the rule function is not handed the field map')
                calls.append({k: (m.deref_value(x) or {}).get('__id__') for k, x in fmap[1].items()})
                made[0] += 1
                new = tok(m, 'NEW%d' % made[0], 'N', 'active')
                return m.make_adt('core::result::Result::Ok', [m.deref_value(new['token_type'])['0']], [])
            if re.search(r'tools::get_number$', path) and len(args) == 2:
                # the unit reader takes the amount from the token bound to "value"
                fmap = nm = None
                for a in args:
                    v = m.deref_value(a)
                    if isinstance(v, tuple) and v and v[0] == 'map':
                        fmap = v
                    elif isinstance(v, str):
                        nm = v
                if fmap is None or nm is None:
                    raise Unknown('get_number(%r, %r)' % (nm, fmap))
                calls.append({nm: (m.deref_value(fmap[1][nm]) or {}).get('__id__') if nm in fmap[1] else None})
                return absstr.some(m, 1.5)
            if re.search(r'RuleTrait::name$', path):
                return ('str', list('rule'))
            if re.search(r'RuleTrait::call$', path):
                # a user rule: (&self, config, &simple_fields) - the values are the token types of the matched tokens
                fmap = None
                for a in args:
                    v = m.deref_value(a)
                    if isinstance(v, tuple) and v and v[0] == 'map':
                        fmap = v
                if fmap is None:
                    raise Unknown('the user rule is not handed the field map')
                calls.append({k: (m.deref_value(x) or {}).get('__id__') for k, x in fmap[1].items()})
                made[0] += 1
                new = tok(m, 'NEW%d' % made[0], 'N', 'active')
                return absstr.some(m, m.deref_value(new['token_type'])['0'])
            if re.search(r'TokenType::variable_compare$', path) and len(args) == 2:
                return int(kind_of(m, args[0]) == 'pA')
            if re.search(r'TokenType::get_field_name$', path) and args:
                v = m.deref_value(args[0])
                nm = v.get('__field__') if isinstance(v, dict) else None
                return absstr.some(m, nm) if nm else absstr.none(m)
            if re.search(r'cmp::PartialEq\b.*::(eq|ne)$', path) and len(args) == 2:
                x, y = m.deref_value(args[0]), m.deref_value(args[1])
                if isinstance(x, dict) and isinstance(y, dict) and x.get('__adt__') == 'tokinizer::TokenInfo' and y.get('__adt__') == 'tokinizer::TokenInfo':
                    # a line token against a pattern token (TokenInfo::eq / TokenType::eq: C16 W1, C18): equal kinds
                    kx, ky = kind_of(m, x) or '?', kind_of(m, y) or '?'
                    same = ('p' + kx == ky) or (kx == 'p' + ky)
                    return int(same == path.endswith('eq'))
            if re.search(r'BTreeMap::<.*>::get$', path) and len(args) == 2 and isinstance(a0, dict) and a0.get('__rules__'):
                return absstr.some(m, ('ptr', 'rules', ()))
            if re.search(r'Cell::<.*>::get$', path) and args:
                return a0
            if re.search(r'Cell::<.*>::(set|replace)$', path) and len(args) == 2 and is_ptr(args[0]):
                old = a0
                absstr.write_back(m, args[0], m.deref_value(args[1]))
                return old if path.endswith('replace') else ('sym', 'unit')
            if re.search(r'UiTokenCollection::update_tokens$', path):
                return ('sym', 'unit')
            r = map_model(m, path, args, t)
            if r is not NotImplemented:
                return r
            return absstr.std_model(m, path, args, t)

        def tok(m, ident, kind, state, field=None):
            if kind.startswith('p'):
                ttv = m.make_adt('types::TokenType::Field', [('sym', 'field')], [])
            elif kind == 'V':
                ttv = m.make_adt('types::TokenType::Variable', [{'__adt__': 'variable::VariableInfo', '__variant__': 'VariableInfo', '__open__': True, 'data': ('sym', 'a number')}], [])
            else:
                ttv = m.make_adt('types::TokenType::%s' % KIND_VARIANT[kind], [('sym', 'payload')], [])
            ttv['__id__'] = ident
            return {'__adt__': 'tokinizer::TokenInfo', '__variant__': 'TokenInfo', '__kind__': kind, '__id__': ident, '__field__': field,
                    'start': 0, 'end': 0, 'original_text': ('str', []),
                    'token_type': absstr.none(m) if state == 'typeless' else absstr.some(m, ttv),
                    'status': m.make_adt('tokinizer::TokenInfoStatus::%s' % ('Removed' if state == 'removed' else 'Active'), [], [])}

        m = Machine(b, model, max_steps=60000)
        m.enter = lambda path: (path.startswith('tokinizer::rule_tokinizer::') and 'rules::' not in path) or path.startswith('tokinizer::dynamic_type_tokinizer::')
        line_toks = []
        for i, (k, s) in enumerate(line):
            t_ = tok(m, 't%d' % i, k, s)
            t_['start'], t_['end'] = 10 * i, 10 * i + 5
            line_toks.append(m.alloc(t_))
        pat_toks = [m.alloc(tok(m, 'p%d' % i, 'p' + k, 'active', field=FIELD_NAMES[i])) for i, k in enumerate(pattern)]
        if arm == 'Internal':
            rule = m.make_adt('tokinizer::rule_tokinizer::RuleType::Internal', [('str', list('rule')), ('sym', 'fn:<the rule function>'), ('vec', [('vec', pat_toks)])], ['function_name', 'function', 'tokens_list'])
        else:
            rule = m.make_adt('tokinizer::rule_tokinizer::RuleType::API', [('vec', [('vec', pat_toks)]), {'__adt__': 'dyn smartcalc::RuleTrait', '__open__': True}], ['tokens_list', 'rule'])
        m.env['rules'] = ('vec', [rule])
        cfg = {'__adt__': 'config::SmartCalcConfig', '__variant__': 'SmartCalcConfig', '__open__': True, 'rule': {'__rules__': True, '__adt__': 'BTreeMap'}}
        if arm == 'Unit':
            dt = m.alloc({'__adt__': 'config::DynamicType', '__variant__': 'DynamicType', '__open__': True, 'parse': ('vec', [('vec', pat_toks)])})
            cfg['types'] = ('map', {'family': ('map', {'1': dt})})
        m.env['cfg'] = cfg
        tk = {'__adt__': 'tokinizer::Tokinizer', '__variant__': 'Tokinizer', '__open__': True, 'config': ('ptr', 'cfg', ()), 'language': ('str', list('en')),
              'token_infos': ('vec', line_toks), 'ui_tokens': {'__adt__': 'token::ui_token::UiTokenCollection', '__open__': True}}
        m.env['tk'] = tk
        m.env[1] = ('ptr', 'tk', ())
        why = m.run(0)
        for pth, blocks in m.shared.get('visited', {}).items():
            visited.setdefault(pth, set()).update(blocks)
        if why != 'return':
            raise Unknown('the walk ended with %s' % why)
        final = []
        for x in m.deref_value(m.env['tk'])['token_infos'][1]:
            v = m.deref_value(x)
            stt = m.deref_value(v.get('status'))
            removed = isinstance(stt, dict) and stt.get('__variant__') == 'Removed'
            final.append((v.get('__id__') or 'NEW', removed))
        final = [('NEW' if i_.startswith('NEW') else i_, r_) for i_, r_ in final]
        return calls, final

    def map_model(m, path, args, t):
        """BTreeMap<String, _> as ('map', {key: value}) in insertion-independent form"""
        a0 = m.deref_value(args[0]) if args else None
        ismap = isinstance(a0, tuple) and len(a0) == 2 and a0[0] == 'map'

        def key(v):
            v = m.deref_value(v)
            if absstr.is_str(v):
                return ''.join(str(c) for c in v[1])
            return v if isinstance(v, str) else None
        if re.search(r'BTreeMap::<.*>::new$|BTreeMap::new$|BTreeMap<.*> as core::default::Default>::default$', path):
            return ('map', {})
        if not ismap:
            return NotImplemented
        if re.search(r'BTreeMap::<.*>::insert$', path) and len(args) == 3:
            k = key(args[1])
            if k is None:
                raise Unknown('insert with the key %r' % (m.deref_value(args[1]),))
            old = a0[1].get(k)
            new = dict(a0[1])
            new[k] = args[2]
            absstr.write_back(m, args[0], ('map', new))
            return absstr.some(m, old) if old is not None else absstr.none(m)
        if re.search(r'BTreeMap::<.*>::(get|contains_key|remove)$', path) and len(args) == 2:
            k = key(args[1])
            if k is None:
                raise Unknown('lookup with the key %r' % (m.deref_value(args[1]),))
            if path.endswith('contains_key'):
                return int(k in a0[1])
            if path.endswith('remove'):
                new = dict(a0[1])
                old = new.pop(k, None)
                absstr.write_back(m, args[0], ('map', new))
                return absstr.some(m, old) if old is not None else absstr.none(m)
            return absstr.some(m, a0[1][k]) if k in a0[1] else absstr.none(m)
        if re.search(r'BTreeMap::<.*>::clear$', path):
            absstr.write_back(m, args[0], ('map', {}))
            return ('sym', 'unit')
        if re.search(r'BTreeMap::<.*>::(len)$', path):
            return len(a0[1])
        if re.search(r'BTreeMap::<.*>::is_empty$', path):
            return int(not a0[1])
        if re.search(r'BTreeMap::<.*>::entry$', path) and len(args) == 2:
            k = key(args[1])
            if k is None:
                raise Unknown('entry with the key %r' % (m.deref_value(args[1]),))
            return ('entry', args[0], k)
        if re.search(r'BTreeMap::<.*>::(iter|keys|values)$', path):
            items = sorted(a0[1].items())
            if path.endswith('keys'):
                return ('it', [k for k, _ in items], 'keys')
            if path.endswith('values'):
                return ('it', [v for _, v in items], 'values')
            return ('it', [('tuple', [k, v]) for k, v in items], 'iter')
        return NotImplemented

    def entry_model(m, path, args, t):
        a0 = args[0] if args else None
        if isinstance(a0, tuple) and len(a0) == 3 and a0[0] == 'entry':
            mm_ = re.search(r'Entry::<.*>::(or_insert|or_insert_with|or_default|and_modify)$|Entry<.*>::(or_insert|or_insert_with)$', path)
            if mm_:
                how = mm_.group(1) or mm_.group(2)
                mp = m.deref_value(a0[1])
                if how in ('or_insert', 'or_insert_with'):
                    if a0[2] not in mp[1]:
                        v = args[1] if how == 'or_insert' else m.apply_fn(args[1], [])
                        if v is None:
                            raise Unknown('or_insert_with with an unknown function value')
                        new = dict(mp[1])
                        new[a0[2]] = v
                        absstr.write_back(m, a0[1], ('map', new))
                    return ('sym', 'entry value')
        return NotImplemented

    kinds = [('A', 'active'), ('B', 'active'), ('V', 'active')]
    specials = [('A', 'removed'), ('B', 'typeless')]
    lines = []
    for n in range(0, 6 if deep else 5):
        for combo in itertools.product(kinds, repeat=n):
            lines.append(list(combo))
    for n in range(1, 4):
        for combo in itertools.product(kinds, repeat=n):
            for pos in range(n + 1):
                for sp in specials:
                    lines.append(list(combo[:pos]) + [sp] + list(combo[pos:]))
    n_cells = 0
    bad = {}
    # entry values are needed by the map model: chain the two models
    _map_model = map_model

    def map_model(m, path, args, t):          # noqa: F811
        r = entry_model(m, path, args, t)
        if r is not NotImplemented:
            return r
        return _map_model(m, path, args, t)
    for pattern in PATTERNS:
        for line in lines:
            n_cells += 1
            want = reference(line, pattern)
            if arm == 'Unit':
                want = ([{'value': c.get('value')} for c in want[0]], want[1])
            try:
                got = walk(line, pattern)
            except Unknown as ex:
                ctx.finding(rid, 'rule_tokinizer/matcher/not-extractable', 'the pattern scan could not be tabulated (%s rule, line %s, pattern %s): %s' % (arm, 
                    ' '.join(k if s == 'active' else '%s(%s)' % (k, s) for k, s in line) or 'empty', ' '.join(pattern), ex), site=b.loc)
                return None
            if got != want:
                if [c for c in got[0]] != [c for c in want[0]]:
                    cls = 'fields' if len(got[0]) == len(want[0]) else 'matches'
                else:
                    cls = 'replacement'
                bad.setdefault(cls, []).append((line, pattern, got, want))
    for cls, rows in sorted(bad.items()):
        line, pattern, got, want = rows[0]
        ltxt = ' '.join('%s%d' % (k if s == 'active' else '%s(%s)' % (k, s), i) for i, (k, s) in enumerate(line))
        if cls == 'replacement':
            ctx.finding(rid, 'rule_tokinizer/matcher/replacement' + {'Internal': '', 'API': '/user-rule', 'Unit': '/unit-literal'}[arm], 'line [%s] (A number, B word, V variable holding a number), pattern [%s]: after the rule ran the token list is %s; expected %s - %d of %d cells differ' % (
                ltxt, ' '.join(pattern), got[1], want[1], len(rows), n_cells), site=b.loc)
        else:
            ctx.finding(rid, 'rule_tokinizer/matcher/%s%s' % (cls, {'Internal': '', 'API': '/user-rule', 'Unit': '/unit-literal'}[arm]), 'line [%s] (A number, B word, V variable holding a number), pattern [%s] with fields f0..: the rule function is called with %s; expected %s (each field bound to the token that matched it in the completed attempt, the scan going on behind a token that ended an attempt) - %d of %d cells differ' % (
                ltxt, ' '.join(pattern), got[0] or 'not at all', want[0] or 'not at all', len(rows), n_cells), site=b.loc)
    if not bad:
        ctx.ok(rid, 'rule_tokinizer / find_match (%s rule): calls of the rule function, field bindings and replacement agree with the reference scan on %d (line, pattern) cells' % (arm, n_cells), 'absint', site=b.loc)
    ctx._matcher_visited = visited
    ctx._matcher_cells = n_cells
    return not bad
