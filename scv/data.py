"""E7 - data facts: the configuration compiled into the crate (constants::JSON_DATA, read from the
fact base, i.e. exactly the bytes `include_str!` embedded), regex structure through regex-syntax
(datatool), abstract tokenisation of rule / unit / date patterns, unit code strings."""
import json
import os
import re
import subprocess
import unicodedata
from fractions import Fraction

from .build import DATATOOL
from .facts import AnchorLost

FIELD_RE = re.compile(r'\{([A-Z_]+):([^}:]+)(?::([^}]+))?\}')


class Regexes:
    """cache of regex-syntax HIR facts"""

    def __init__(self):
        self.cache = {}

    def load(self, patterns):
        todo = sorted(set(p for p in patterns if p not in self.cache))
        if not todo:
            return
        out = subprocess.run([DATATOOL], input=json.dumps(todo), stdout=subprocess.PIPE, text=True, check=True).stdout
        for r in json.loads(out):
            self.cache[r['pattern']] = r

    def hir(self, pattern):
        self.load([pattern])
        r = self.cache[pattern]
        if not r['ok']:
            return None
        return r['hir']


# ------------------------------------------------------------------ HIR analyses
def mandatory_groups(h):
    """names of capture groups that participate in *every* match of h"""
    k = h['k']
    if k == 'cap':
        s = mandatory_groups(h['sub'])
        if h.get('name'):
            s = s | {h['name']}
        return s
    if k == 'concat':
        s = set()
        for x in h['subs']:
            s |= mandatory_groups(x)
        return s
    if k == 'alt':
        sets = [mandatory_groups(x) for x in h['subs']]
        return set.intersection(*sets) if sets else set()
    if k == 'rep':
        return mandatory_groups(h['sub']) if h['min'] >= 1 else set()
    return set()


def all_groups(h, out=None):
    """name -> sub-HIR of every named capture group (first occurrence)"""
    if out is None:
        out = {}
    k = h['k']
    if k == 'cap':
        if h.get('name') and h['name'] not in out:
            out[h['name']] = h['sub']
        all_groups(h['sub'], out)
    elif k in ('concat', 'alt'):
        for x in h['subs']:
            all_groups(x, out)
    elif k == 'rep':
        all_groups(h['sub'], out)
    return out


def alphabet(h):
    """set of code-point ranges [(lo,hi)] that can occur in a match of h"""
    k = h['k']
    if k == 'lit':
        return [(ord(c), ord(c)) for c in h['s']]
    if k == 'class':
        return [tuple(r) for r in h['ranges']]
    if k in ('cap', 'rep'):
        return alphabet(h['sub'])
    if k in ('concat', 'alt'):
        out = []
        for x in h['subs']:
            out += alphabet(x)
        return out
    return []


def in_ranges(cp, ranges):
    return any(lo <= cp <= hi for lo, hi in ranges)


def ranges_subset(a, b):
    """every code point of ranges a is in ranges b (a small)"""
    for lo, hi in a:
        if hi - lo > 2000:
            # large range: need one covering range in b
            if not any(blo <= lo and hi <= bhi for blo, bhi in b):
                return False
            continue
        for cp in range(lo, hi + 1):
            if not in_ranges(cp, b):
                return False
    return True


def enumerate_language(h, limit=5000):
    """finite language of h as a set of strings, or None if unbounded / larger than limit"""
    k = h['k']
    if k == 'empty' or k == 'look':
        return {''}
    if k == 'lit':
        return {h['s']}
    if k == 'class':
        n = sum(hi - lo + 1 for lo, hi in h['ranges'])
        if n > 200:
            return None
        return {chr(c) for lo, hi in h['ranges'] for c in range(lo, hi + 1)}
    if k == 'cap':
        return enumerate_language(h['sub'], limit)
    if k == 'alt':
        out = set()
        for x in h['subs']:
            s = enumerate_language(x, limit)
            if s is None:
                return None
            out |= s
            if len(out) > limit:
                return None
        return out
    if k == 'concat':
        out = {''}
        for x in h['subs']:
            s = enumerate_language(x, limit)
            if s is None:
                return None
            out = {a + b for a in out for b in s}
            if len(out) > limit:
                return None
        return out
    if k == 'rep':
        if h['max'] is None:
            return None
        s = enumerate_language(h['sub'], limit)
        if s is None:
            return None
        out = set()
        cur = {''}
        for i in range(0, h['max'] + 1):
            if i >= h['min']:
                out |= cur
            cur = {a + b for a in cur for b in s}
            if len(cur) > limit or len(out) > limit:
                return None
        return out
    return None


def matches_empty(h):
    return h['minlen'] == 0


def hir_accepts(h, s):
    """does h match the *whole* string s?  (small backtracking matcher over the HIR; used only to
    compare *table entries* (unit words, zone names, printed symbols) with reader regexes - data
    against data - never to run smartcalc)"""
    def m(h, i):
        k = h['k']
        if k == 'empty':
            yield i
        elif k == 'look':
            # the string stands alone (blanks / line ends around it): outside is non-word
            def w(c, ascii_only):
                if c is None:
                    return False
                if ascii_only:
                    return c.isascii() and (c.isalnum() or c == '_')
                return c.isalnum() or c == '_' or unicodedata.category(c).startswith('M')
            prev = s[i - 1] if i > 0 else None
            nxt = s[i] if i < len(s) else None
            lk = h['look']
            if lk in ('word', 'word_ascii'):
                if w(prev, lk == 'word_ascii') != w(nxt, lk == 'word_ascii'):
                    yield i
            elif lk in ('word_neg', 'word_ascii_neg'):
                if w(prev, lk == 'word_ascii_neg') == w(nxt, lk == 'word_ascii_neg'):
                    yield i
            elif lk in ('start', 'start_lf', 'start_crlf'):
                if i == 0:
                    yield i
            elif lk in ('end', 'end_lf', 'end_crlf'):
                if i == len(s):
                    yield i
            else:
                yield i
        elif k == 'lit':
            if s.startswith(h['s'], i):
                yield i + len(h['s'])
        elif k == 'class':
            if i < len(s) and in_ranges(ord(s[i]), h['ranges']):
                yield i + 1
        elif k == 'cap':
            yield from m(h['sub'], i)
        elif k == 'alt':
            for x in h['subs']:
                yield from m(x, i)
        elif k == 'concat':
            def rec(idx, pos):
                if idx == len(h['subs']):
                    yield pos
                    return
                for p2 in m(h['subs'][idx], pos):
                    yield from rec(idx + 1, p2)
            yield from rec(0, i)
        elif k == 'rep':
            mx = h['max'] if h['max'] is not None else len(s) + 1
            def rep(cnt, pos):
                if cnt >= h['min']:
                    yield pos
                if cnt < mx:
                    for p2 in m(h['sub'], pos):
                        if p2 == pos and cnt >= h['min']:
                            continue
                        yield from rep(cnt + 1, p2)
            yield from rep(0, i)
    return any(e == len(s) for e in m(h, 0))


# ------------------------------------------------------------------ pattern tokenisation
def is_letter(c):
    return unicodedata.category(c).startswith('L')


def abstract_tokens(pattern):
    """Abstract tokenisation of a rule/unit/date pattern the way Tokinizer::token_infos sees it:
    {TYPE:name[:extra]} -> ('field', TYPE, name, extra); letter runs -> ('word', w); digit runs ->
    ('number', n); blanks dropped; every other character -> ('op', c). Characters the abstraction does
    not understand raise (fail closed)."""
    out = []
    i = 0
    while i < len(pattern):
        m = FIELD_RE.match(pattern, i)
        if m:
            out.append(('field', m.group(1), m.group(2), m.group(3)))
            i = m.end()
            continue
        c = pattern[i]
        if c == ' ':
            i += 1
            continue
        if is_letter(c):
            j = i
            while j < len(pattern) and is_letter(pattern[j]):
                j += 1
            out.append(('word', pattern[i:j]))
            i = j
            continue
        if c.isdigit():
            j = i
            while j < len(pattern) and (pattern[j].isdigit() or pattern[j] in '.,'):
                j += 1
            out.append(('number', pattern[i:j]))
            i = j
            continue
        if c in '{}[]':
            raise AnchorLost('pattern %r: unbalanced field/atom syntax at %d (abstraction fails closed)' % (pattern, i))
        if c in '\r\n\t#':
            raise AnchorLost('pattern %r: character %r is outside the abstraction' % (pattern, c))
        out.append(('op', c))
        i += 1
    return out


def fields_of(pattern):
    return {t[2]: (t[1], t[3]) for t in abstract_tokens(pattern) if t[0] == 'field'}


# ------------------------------------------------------------------ unit code strings
CODE_RE = re.compile(r'^\s*\{value\}\s*(?:([*/])\s*([0-9]+(?:\.[0-9]+)?))?\s*$')


def parse_code(code):
    """'{value}', '{value} * c', '{value} / c'  ->  Fraction factor, or None if not of that shape"""
    m = CODE_RE.match(code)
    if not m:
        return None
    if not m.group(1):
        return Fraction(1)
    c = Fraction(m.group(2))
    if c == 0:
        return None
    return c if m.group(1) == '*' else 1 / c


class Config:
    """the JSON configuration compiled into the crate"""

    def __init__(self, facts, repo):
        c = facts.consts.get('constants::JSON_DATA')
        text = c.get('val') if c else None
        src = 'constants::JSON_DATA (include_str!)'
        if not isinstance(text, str):
            # fall back to the file the include_str! names
            p = os.path.join(repo, 'src', 'json', 'config.json')
            if not os.path.exists(p):
                raise AnchorLost('configuration constant JSON_DATA not found and %s missing' % p)
            text = open(p, encoding='utf-8').read()
            src = p
        self.source = src
        try:
            self.j = json.loads(text)
        except Exception as e:
            raise AnchorLost('embedded configuration does not parse as JSON: %s' % e)
        self.rx = Regexes()
        pats = []
        for fam, lst in self.j.get('parse', {}).items():
            pats += lst
        self.rx.load(pats)

    @property
    def languages(self):
        return self.j['languages']

    def parse_family(self, fam):
        lst = self.j['parse'].get(fam)
        if lst is None:
            raise AnchorLost('config.json parse family %r missing' % fam)
        out = []
        for p in lst:
            h = self.rx.hir(p)
            out.append((p, h))
        return out

    def rule_patterns(self, lang, rule):
        r = self.j['languages'][lang]['rules'].get(rule)
        return list(r['rules']) if r else []

    def units(self):
        """[(family, item dict)]"""
        out = []
        for t in self.j['types']:
            for it in t['items']:
                out.append((t['name'], it))
        return out


def decode_fmt_template(text):
    """rustc's compact format_args template (byte string constant) -> list of literal pieces and None for each
    placeholder, e.g. b"\\x02\\\\b\\xc0\\x02\\\\b\\x00" -> ['\\b', None, '\\b'].  Fails closed on anything it does not know."""
    m = re.match(r'^(?:const )?b"(.*)"$', text, re.S)
    if not m:
        raise AnchorLost('format template is not a byte-string constant: %r' % text[:60])
    raw = m.group(1)
    out = bytearray()
    i = 0
    while i < len(raw):
        c = raw[i]
        if c == '\\':
            n = raw[i + 1]
            if n == 'x':
                out.append(int(raw[i + 2:i + 4], 16))
                i += 4
            elif n in '\\"\'':
                out.append(ord(n))
                i += 2
            elif n == 'n':
                out.append(10); i += 2
            elif n == 't':
                out.append(9); i += 2
            elif n == 'r':
                out.append(13); i += 2
            elif n == '0':
                out.append(0); i += 2
            else:
                raise AnchorLost('unknown escape in format template')
        else:
            out += c.encode('utf-8')
            i += 1
    pieces = []
    j = 0
    while j < len(out):
        b = out[j]
        if b == 0:
            break
        if b < 0x80:
            pieces.append(bytes(out[j + 1:j + 1 + b]).decode('utf-8'))
            j += 1 + b
        elif b == 0xc0:
            pieces.append(None)
            j += 1
        else:
            raise AnchorLost('format template uses a placeholder encoding (0x%02x) the decoder does not know' % b)
    return pieces
