"""E3 - interval evaluation of integer value DAGs (flow-sensitive expressions of facts.Body).

Not a fixpoint analysis: loop-carried values are 'unknown' (None) and can never discharge anything; phi nodes
take the union of their branches; call results come from a frozen table (one reason per line)."""
import re
from . import facts as _facts_mod

from .facts import strip, render, phi_branch_conditions

INT_RANGE = {
    'i8': (-2**7, 2**7 - 1), 'i16': (-2**15, 2**15 - 1), 'i32': (-2**31, 2**31 - 1), 'i64': (-2**63, 2**63 - 1), 'i128': (-2**127, 2**127 - 1), 'isize': (-2**63, 2**63 - 1),
    'u8': (0, 2**8 - 1), 'u16': (0, 2**16 - 1), 'u32': (0, 2**32 - 1), 'u64': (0, 2**64 - 1), 'u128': (0, 2**128 - 1), 'usize': (0, 2**64 - 1),
}
LEN = (0, 2**63 - 1)      # collection / string lengths and iterator positions are bounded by isize::MAX

# callee regex -> (lo, hi): documented result ranges
CALL_RESULTS = [
    (r'Datelike>?::month$|::month$', (1, 12), 'chrono: month() is 1..=12'),
    (r'Datelike>?::day$|::day$', (1, 31), 'chrono: day() is 1..=31'),
    (r'Datelike>?::year$|::year$', (-262144, 262143), 'chrono: NaiveDate year range'),
    (r'Timelike>?::hour$|::hour$', (0, 23), 'chrono: hour() is 0..=23'),
    (r'Timelike>?::minute$|::minute$', (0, 59), 'chrono: minute() is 0..=59'),
    (r'Timelike>?::second$|::second$', (0, 59), 'chrono: second() is 0..=59'),
    (r'Timelike>?::num_seconds_from_midnight$|::num_seconds_from_midnight$', (0, 86399), 'chrono: seconds since midnight'),
    (r'TimeDelta::num_seconds$', (-9223372036854775, 9223372036854775), 'chrono: TimeDelta holds at most i64::MAX milliseconds'),
    (r'TimeDelta::num_days$', (-106751991167, 106751991167), 'chrono: i64::MAX ms in days'),
    (r'(Vec|VecDeque|String|BTreeMap)::<.*>::len$|String::len$|slice::<impl \[T\]>::len$|str::<impl str>::len$|Iterator::count$|::len$', LEN, 'lengths are bounded by isize::MAX'),
    (r'char::methods::<impl char>::len_utf8$', (1, 4), 'UTF-8 encodes a char in 1..=4 bytes'),
    (r'NaiveDateTime::timestamp$', (-8334632851200, 8210298412799), 'chrono: NaiveDateTime range in seconds'),
]


def union(a, b):
    if a is None or b is None:
        return None
    return (min(a[0], b[0]), max(a[1], b[1]))


def clamp(iv, ty):
    r = INT_RANGE.get(ty)
    if r is None:
        return iv
    if iv is None:
        return r
    if iv[0] < r[0] or iv[1] > r[1]:
        return None      # would wrap / overflow: caller decides
    return iv


def type_of(body, e):
    """best-effort integer type of an expression"""
    e = strip(e, transparent=False)
    k = e[0]
    if k == 'const':
        return e[1]
    if k == 'arg':
        return body.locals.get(e[1])
    if k == 'cast':
        return e[2]
    if k == 'call' and isinstance(e[3], dict):
        return e[3]['dest']['ty']
    if k == 'binop':
        t = type_of(body, e[2])
        return t
    if k == 'field' and e[1][0] == 'binop' and e[1][1].endswith('WithOverflow'):
        return type_of(body, e[1][2])
    if k == 'phi':
        for a in e[2]:
            t = type_of(body, a)
            if t:
                return t
    return None


def interval(body, e, depth=0, env=None):
    """(lo, hi) of an integer-valued expression or None when unknown. `env`: rendered text -> interval overrides
    (branch refinements supplied by the caller)."""
    if depth > 60:
        return None
    e0 = e
    e = strip(e, transparent=False)
    if env:
        hook = env.get('__leaf__')
        if hook is not None:
            r = hook(body, e)
            if r is not None:
                return r
    k = e[0]
    if k == 'const':
        v = e[2]
        if isinstance(v, bool):
            return (int(v), int(v))
        if isinstance(v, int):
            return (v, v)
        if isinstance(v, float) and v == int(v) and abs(v) < 2**63:
            return (int(v), int(v))
        return None
    if k == 'arg':
        if body.kind == 'closure' and e[1] >= 2:
            r = closure_param_interval(body, e[1], depth, env)
            if r is not None:
                return r
        elif body.kind in ('fn', 'method'):
            r = param_interval_from_callers(body, e[1], depth, env)
            if r is not None:
                return r
        return INT_RANGE.get(body.locals.get(e[1], ''))
    if k == 'cast':
        to = e[2]
        src_ty = e[4] if len(e) > 4 else None
        inner = interval(body, e[3], depth + 1, env)
        r = INT_RANGE.get(to)
        if r is None:
            return None
        if src_ty in ('f64', 'f32') or (e[1] or '').startswith('Float'):
            return r                    # float -> int casts saturate: the whole target range
        if inner is None:
            st = INT_RANGE.get(src_ty or '')
            inner = st
        if inner is None:
            return r
        if inner[0] >= r[0] and inner[1] <= r[1]:
            return inner
        return r                        # truncating / sign-changing cast: anything in the target type
    if k == 'field' and e[1][0] == 'binop' and e[1][1].endswith('WithOverflow') and e[2].lstrip('#') == '0':
        b = e[1]
        return interval(body, ('binop', b[1][:-len('WithOverflow')], b[2], b[3]), depth + 1, env)
    if k == 'binop':
        op = e[1]
        a = interval(body, e[2], depth + 1, env)
        b = interval(body, e[3], depth + 1, env)
        if op in ('Rem',) and b is not None and b[0] == b[1] and b[0] > 0:
            c = b[0]
            if a is not None and a[0] >= 0:
                return (0, min(c - 1, a[1]))
            ty = type_of(body, e[2])
            if ty and ty.startswith('u'):
                return (0, c - 1)
            return (-(c - 1), c - 1)
        if a is None or b is None:
            return None
        if op in ('Add', 'AddUnchecked'):
            return (a[0] + b[0], a[1] + b[1])
        if op in ('Sub', 'SubUnchecked'):
            return (a[0] - b[1], a[1] - b[0])
        if op in ('Mul', 'MulUnchecked'):
            ps = [a[0] * b[0], a[0] * b[1], a[1] * b[0], a[1] * b[1]]
            return (min(ps), max(ps))
        if op == 'Div':
            if b[0] <= 0 <= b[1]:
                return None
            qs = []
            for x in (a[0], a[1]):
                for y in (b[0], b[1]):
                    q = abs(x) // abs(y)
                    qs.append(q if (x >= 0) == (y >= 0) else -q)
            return (min(qs), max(qs))
        if op in ('Lt', 'Le', 'Gt', 'Ge', 'Eq', 'Ne'):
            return (0, 1)
        return None
    if k == 'unop':
        a = interval(body, e[2], depth + 1, env)
        if e[1] == 'Neg' and a is not None:
            return (-a[1], -a[0])
        if e[1] == 'PtrMetadata':
            return LEN
        return None
    if k in ('field', 'downcast'):
        # a component of a merged aggregate (`row.2` with row = one of several literal tuples): the union over its definitions
        from .facts import _spine_phi, alternatives
        if _spine_phi(e) is not None and depth < 40:
            alts = alternatives(body, e, 32)
            if alts and not any(_spine_phi(a) is not None and a[0] in ('field', 'downcast') and render(a) == render(e) for a, _ in alts):
                out = None
                for a, _c in alts:
                    iv = interval(body, a, depth + 5, env)
                    if iv is None:
                        out = None
                        break
                    out = iv if out is None else union(out, iv)
                if out is not None:
                    return out
    if k == 'phi':
        out = None
        first = True
        b2 = body.facts.bodies.get(e[5], body) if len(e) > 5 and e[5] else body
        for a, where in zip(e[2], e[4]):
            iv = interval(body, a, depth + 1, env)
            # branch refinement: the branch value itself is compared with a constant on the edge that selects it
            try:
                at = render(strip(a, transparent=False))
                for (_, d, v) in (phi_branch_conditions(b2, where) if len(e) <= 6 or e[6] is None else []):
                    ds = strip(d, transparent=False)
                    if ds[0] != 'binop' or ds[1] not in ('Lt', 'Le', 'Gt', 'Ge'):
                        continue
                    truth = (isinstance(v, tuple) and 0 in v[1]) or (not isinstance(v, tuple) and v and 0 not in v)
                    l, r = strip(ds[2], transparent=False), strip(ds[3], transparent=False)
                    op = ds[1]
                    if render(r) == at and l[0] == 'const':
                        l, r = r, l
                        op = {'Lt': 'Gt', 'Gt': 'Lt', 'Le': 'Ge', 'Ge': 'Le'}[op]
                    if render(l) != at or r[0] != 'const' or not isinstance(r[2], int):
                        continue
                    if not truth:
                        op = {'Lt': 'Ge', 'Ge': 'Lt', 'Gt': 'Le', 'Le': 'Gt'}[op]
                    c = r[2]
                    lo, hi = iv if iv is not None else (-2**200, 2**200)
                    if op == 'Lt':
                        hi = min(hi, c - 1)
                    elif op == 'Le':
                        hi = min(hi, c)
                    elif op == 'Gt':
                        lo = max(lo, c + 1)
                    elif op == 'Ge':
                        lo = max(lo, c)
                    if lo > -2**200 and hi < 2**200:
                        iv = (lo, hi)
            except Exception:
                pass
            if iv is None:
                return None
            out = iv if first else union(out, iv)
            first = False
        return out
    if k == 'call':
        path = e[1]
        if re.search(r'::abs$', path) and e[2]:
            a = interval(body, e[2][0], depth + 1, env)
            if a is None:
                return None
            m = max(abs(a[0]), abs(a[1]))
            lo = 0 if a[0] <= 0 <= a[1] else min(abs(a[0]), abs(a[1]))
            return (lo, m)
        if re.search(r'(convert::Into|convert::From)<.*>>::(into|from)$|::into$|::from$', path) and e[2]:
            return interval(body, e[2][0], depth + 1, env)
        if re.search(r'::(clone|deref|borrow)$', path) and e[2]:
            return interval(body, e[2][0], depth + 1, env)
        for rx, iv, why in CALL_RESULTS:
            if re.search(rx, path):
                return iv
        ty = e[3]['dest']['ty'] if isinstance(e[3], dict) else None
        return INT_RANGE.get(ty or '')
    if k in ('deref', 'ref'):
        return interval(body, e[1], depth + 1, env)
    if k == 'field' and body.kind == 'closure':
        root = _spine_root(e)
        if root[0] == 'arg' and root[1] >= 2:
            pe = closure_arg_expr(body, root[1])
            if pe is not None:
                from .facts import subst_args
                args = [('arg', j + 1, None) for j in range(body.argc)]
                args[root[1] - 1] = pe[1]
                return interval(pe[0], subst_args(e, args), depth + 1, env)
    if k == 'field':
        col = _array_column(e)
        if col is not None:
            out = None
            for n_, c_ in enumerate(col):
                iv = interval(body, c_, depth + 1, env)
                if iv is None:
                    out = None
                    break
                out = iv if n_ == 0 else union(out, iv)
            if out is not None:
                return out
    if k == 'field':
        # payload of Some(position(..)): an index into the iterated collection
        b_ = e[1]
        if b_[0] == 'downcast' and b_[2] == 'Some':
            src = strip(b_[1], transparent=False)
            if src[0] == 'call' and re.search(r'Iterator>?::(position|rposition)$', src[1]):
                return (0, 2**63 - 2)
        full = e[3] if len(e) > 3 else ''
        if env and ('field:' + full) in env:
            return env['field:' + full]
        ty = e[4] if len(e) > 4 else None
        return INT_RANGE.get(ty or '')
    return None


def closure_arg_expr(body, idx):
    """(parent body, expression) denoted by parameter idx (>= 2) of a closure, when the closure is handed to an Option /
    Result combinator in its creating function (map, map_or, and_then, ...: the parameter is the Some / Ok payload)"""
    parent = body.facts.bodies.get(body.rec.get('parent') or '') or getattr(body.facts, 'spliced', {}).get(body.rec.get('parent') or '')
    if parent is None or idx != 2:
        return None
    for i in parent.normal_blocks:
        t = parent.blocks[i]['term']
        if t['k'] != 'call' or not t.get('callee'):
            continue
        for a in t['args']:
            ae = strip(parent.expr(a), transparent=False)
            if ae[0] == 'aggr' and ae[1] == 'closure:' + body.path:
                path = t['callee']['path']
                m = re.search(r'(Option|Result)::<.*>::(map|map_or|map_or_else|and_then|filter|is_some_and|inspect)$', path)
                if m:
                    o = parent.expr(t['args'][0])
                    return parent, ('field', ('downcast', o, 'Some' if m.group(1) == 'Option' else 'Ok'), '0', 'core::option::Option.0')
                return None
    return None


def _spine_root(e):
    n = 0
    while e[0] in ('field', 'downcast', 'deref', 'ref') and n < 20:
        e = e[1]
        n += 1
    return e


def closure_param_interval(body, idx, depth, env):
    """interval of parameter `idx` (>= 2; 1 is the environment) of a closure, from the std combinator it is handed to in the
    creating function: Option::map / map_or / and_then / filter apply it to the Some payload; Iterator::position / any / all /
    map / filter / for_each to the items (an enumerate() item's .0 is an index)"""
    parent = body.facts.bodies.get(body.rec.get('parent') or '') or getattr(body.facts, 'spliced', {}).get(body.rec.get('parent') or '')
    if parent is None or depth > 40:
        return None
    direct = None
    n_direct = 0
    for i in parent.normal_blocks:
        t = parent.blocks[i]['term']
        if t['k'] != 'call' or not t.get('callee'):
            continue
        path = t['callee']['path']
        for k, a in enumerate(t['args']):
            ae = strip(parent.expr(a), transparent=False)
            if ae[0] == 'aggr' and ae[1] == 'closure:' + body.path:
                if re.search(r'Option::<.*>::(map|map_or|map_or_else|and_then|filter|is_some_and|inspect)$', path) and idx == 2:
                    o = parent.expr(t['args'][0])
                    return interval(parent, ('field', ('downcast', o, 'Some'), '0', 'core::option::Option.0'), depth + 1, env)
                if k == 0 and len(t['args']) == 2 and (re.search(r'ops::(function::)?Fn(Mut|Once)?::call(_mut|_once)?$', path) or path == body.path):
                    # `f(a, b)` in the creating function (after helper splicing): Fn::call(&f, (a, b))
                    tup = strip(parent.expr(t['args'][1]), transparent=False)
                    if tup[0] == 'aggr' and tup[1] == 'tuple' and idx - 2 < len(tup[2]):
                        iv = interval(parent, tup[2][idx - 2], depth + 1, env)
                        if iv is None:
                            return None
                        direct = iv if n_direct == 0 else union(direct, iv)
                        n_direct += 1
                        continue
                if re.search(r'ops::(function::)?Fn(Mut|Once)?::call(_mut|_once)?$', path) or path == body.path:
                    continue
                return None
    if direct is None:
        # a non-capturing closure coerced to a `fn(..)` pointer and called through it in the creating function (after helper
        # splicing: `shift(date.year(), n)` with shift = |year, n| year + n): the parameters are the call's arguments
        for i in parent.normal_blocks:
            t = parent.blocks[i]['term']
            if t['k'] != 'call' or t.get('callee') or not t.get('fop'):
                continue
            c = parent.expr(t['fop'])
            for _ in range(12):
                if c[0] in ('ref', 'deref'):
                    c = c[1]
                elif c[0] == 'cast':
                    c = c[3]
                else:
                    break
            if c[0] == 'phi':
                # the pointer parameter of a helper spliced at several call sites: this closure is one of the values
                cands = [x for x in c[2]]
            else:
                cands = [c]
            hit = False
            for x in cands:
                for _ in range(12):
                    if x[0] in ('ref', 'deref'):
                        x = x[1]
                    elif x[0] == 'cast':
                        x = x[3]
                    else:
                        break
                if x[0] == 'aggr' and x[1] == 'closure:' + body.path:
                    hit = True
            if not hit:
                continue
            if idx - 2 >= len(t['args']):
                return None
            iv = interval(parent, parent.expr(t['args'][idx - 2]), depth + 1, env)
            if iv is None:
                return None
            direct = iv if n_direct == 0 else union(direct, iv)
            n_direct += 1
    return direct


_PARAM_CACHE = {}


def param_interval_from_callers(body, idx, depth, env):
    """interval of an integer parameter of a crate-local function that is only ever called directly (no fn pointer, no trait
    dispatch, not a public entry): the union of the argument intervals at all its call sites (evaluated in the callers)"""
    ty = body.locals.get(idx, '')
    if ty not in INT_RANGE or depth > 30:
        return None
    key = (body.facts.path, body.path, idx)
    if key in _PARAM_CACHE:
        return _PARAM_CACHE[key]
    _PARAM_CACHE[key] = None
    if re.search(r' as .*>::', body.path) or re.match(r'^smartcalc::SmartCalc::', body.path):
        return None
    out = None
    n = 0
    for caller in body.facts.bodies.values():
        if not caller.file.startswith('src/'):
            continue
        for i in caller.normal_blocks:
            for st in caller.blocks[i]['stmts']:
                if st['k'] == 'assign' and st['rv'] == 'cast' and st.get('reify') and st['reify']['path'] == body.path:
                    return None            # address taken: callers are not enumerable
            t = caller.blocks[i]['term']
            if t['k'] == 'call' and t.get('callee') and t['callee']['path'] == body.path and idx - 1 < len(t['args']):
                iv = interval(caller, caller.expr(t['args'][idx - 1]), depth + 1, env)
                if iv is None:
                    return None
                out = iv if n == 0 else union(out, iv)
                n += 1
    if n == 0:
        return None
    _PARAM_CACHE[key] = out
    return out


def _array_column(e):
    """`(next(into_iter(ARRAY)) as Some).0 [.#k]` / `ARRAY[i] [.#k]` where ARRAY is an array literal: the list of the
    corresponding component of every element (iteration over a literal table), else None"""
    path = []
    x = e
    for _ in range(16):
        if x[0] in ('ref', 'deref'):
            x = x[1]
        elif x[0] == 'cast' and str(x[1]).startswith('PointerCoercion'):
            x = x[3]                      # &[T; N] -> &[T]
        elif x[0] == 'field':
            path.append(x[2].lstrip('#'))
            x = x[1]
        elif x[0] == 'downcast':
            x = x[1]
        elif x[0] == 'index':
            x = x[1]
            path.append('elem')
        elif x[0] == 'call' and x[2] and re.search(r'Iterator>?::next$|::into_iter$|::iter$|Deref>?::deref$|::as_slice$|Iterator for core::array::IntoIter', x[1]):
            if re.search(r'Iterator>?::next$|IntoIter.*::next$', x[1]):
                # the Option payload projection `.0` that precedes belongs to Some(..)
                if path and path[-1] == '0':
                    path.pop()
                    path.append('elem')
            x = x[2][0]
        elif x[0] == 'phi':
            # loop-carried iterator: take the non-loop branch
            br = [a for a in x[2] if a[0] != 'loop']
            if len(br) != 1:
                return None
            x = br[0]
        elif x[0] == 'const' and x[2] is None and str(x[3]).startswith('const ') and x[3][6:] in getattr(_facts_mod.CURRENT, 'bodies', {}):
            # a `const TABLE: [..; N]` item: its value is what the const body returns
            kb = _facts_mod.CURRENT.bodies[x[3][6:]]
            if kb.kind != 'const' or kb.loops():
                return None
            x = kb.ret_expr()
        elif x[0] == 'const' and x[2] is None and re.search(r'alloc\d+: &\[(.+); (\d+)\]', str(x[3])):
            # `TABLE.iter()` on a const table that rustc placed in an anonymous allocation: the one `const` item of that array type
            m_ = re.search(r'alloc\d+: &(\[.+; \d+\])', str(x[3]))
            cands = [kb for kb in getattr(_facts_mod.CURRENT, 'bodies', {}).values() if kb.kind in ('const', 'static') and str(kb.locals.get(0, '')).replace(' ', '') == m_.group(1).replace(' ', '')]
            if len(cands) != 1 or cands[0].loops():
                return None
            x = cands[0].ret_expr()
        else:
            break
    if x[0] != 'aggr' or x[1] != 'array' or 'elem' not in path:
        return None
    comps = [p_ for p_ in reversed(path)]
    # projections after 'elem'
    i = comps.index('elem')
    proj = comps[i + 1:]
    out = []
    for el in x[2]:
        cur = el
        for pj in proj:
            while cur[0] in ('ref', 'deref'):
                cur = cur[1]
            if cur[0] == 'aggr' and pj.isdigit() and int(pj) < len(cur[2]):
                cur = cur[2][int(pj)]
            elif cur[0] == 'aggr' and len(cur) > 3 and pj in (cur[3] or []):
                cur = cur[2][cur[3].index(pj)]          # a row that is a small struct: the column is a named field
            else:
                return None
        out.append(cur)
    return out or None
