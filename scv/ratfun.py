"""Exact rational functions over named symbols (quotients of multivariate polynomials with Fraction
coefficients). Used to compare arithmetic value DAGs with the formulas of the property statements
modulo field identities, so that algebraically equivalent rewrites of the code stay silent.
This is normalisation of *expressions*, not execution: no program path is explored."""
from fractions import Fraction


class Poly:
    __slots__ = ('t',)

    def __init__(self, terms=None):
        self.t = {k: v for k, v in (terms or {}).items() if v != 0}

    @staticmethod
    def const(c):
        return Poly({(): Fraction(c)})

    @staticmethod
    def sym(name):
        return Poly({((name, 1),): Fraction(1)})

    def __add__(self, o):
        t = dict(self.t)
        for k, v in o.t.items():
            t[k] = t.get(k, 0) + v
        return Poly(t)

    def __neg__(self):
        return Poly({k: -v for k, v in self.t.items()})

    def __sub__(self, o):
        return self + (-o)

    def __mul__(self, o):
        t = {}
        for k1, v1 in self.t.items():
            for k2, v2 in o.t.items():
                d = dict(k1)
                for s, e in k2:
                    d[s] = d.get(s, 0) + e
                k = tuple(sorted(d.items()))
                t[k] = t.get(k, 0) + v1 * v2
        return Poly(t)

    def __eq__(self, o):
        return self.t == o.t

    def is_zero(self):
        return not self.t

    def __repr__(self):
        if not self.t:
            return '0'
        out = []
        for k, v in sorted(self.t.items()):
            m = '*'.join(s if e == 1 else '%s^%d' % (s, e) for s, e in k)
            out.append(('%s*%s' % (v, m)) if m and v != 1 else (m or str(v)))
        return ' + '.join(out)


class Rat:
    __slots__ = ('n', 'd')

    def __init__(self, n, d=None):
        self.n = n
        self.d = d if d is not None else Poly.const(1)

    @staticmethod
    def const(c):
        return Rat(Poly.const(c))

    @staticmethod
    def sym(s):
        return Rat(Poly.sym(s))

    def __add__(self, o):
        return Rat(self.n * o.d + o.n * self.d, self.d * o.d)

    def __sub__(self, o):
        return Rat(self.n * o.d - o.n * self.d, self.d * o.d)

    def __mul__(self, o):
        return Rat(self.n * o.n, self.d * o.d)

    def __truediv__(self, o):
        return Rat(self.n * o.d, self.d * o.n)

    def __neg__(self):
        return Rat(-self.n, self.d)

    def equals(self, o):
        return (self.n * o.d) == (o.n * self.d) and not self.d.is_zero() and not o.d.is_zero()

    def __repr__(self):
        return '(%r)/(%r)' % (self.n, self.d)


class NotArithmetic(Exception):
    pass


def to_rat(e, leaf, strip, depth=0):
    """value DAG -> Rat. `leaf(e)` maps a non-arithmetic sub-expression to a symbol name or None.
    Understands f64 Add/Sub/Mul/Div, Neg, float constants, tools::do_divition (the guarded quotient is
    the plain quotient wherever it is defined; the zero-divisor case is rule G4's business)."""
    e = strip(e)
    if depth > 60:
        raise NotArithmetic('too deep')
    s = leaf(e)
    if s is not None:
        return Rat.sym(s)
    k = e[0]
    if k == 'const':
        v = e[2]
        if isinstance(v, bool) or v is None:
            raise NotArithmetic('constant %r' % (e[3],))
        if isinstance(v, (int, float)):
            return Rat.const(Fraction(str(v)) if isinstance(v, float) else Fraction(v))
        raise NotArithmetic('constant %r' % (e[3],))
    if k == 'binop':
        op = e[1]
        a = to_rat(e[2], leaf, strip, depth + 1)
        b = to_rat(e[3], leaf, strip, depth + 1)
        if op == 'Add':
            return a + b
        if op == 'Sub':
            return a - b
        if op == 'Mul':
            return a * b
        if op == 'Div':
            return a / b
        raise NotArithmetic('operator %s' % op)
    if k == 'unop' and e[1] == 'Neg':
        return -to_rat(e[2], leaf, strip, depth + 1)
    if k == 'call' and len(e[2]) == 2:
        import re
        m = re.search(r'core::ops::(?:arith::)?(Mul|Add|Sub|Div)(?:<[^>]*>)?>::(mul|add|sub|div)$', e[1])
        if m and e[1].startswith('<f64 as') or m and e[1].startswith('<&f64 as'):
            a = to_rat(e[2][0], leaf, strip, depth + 1)
            b = to_rat(e[2][1], leaf, strip, depth + 1)
            op = m.group(1)
            return a + b if op == 'Add' else a - b if op == 'Sub' else a * b if op == 'Mul' else a / b
    if k == 'call' and e[1].endswith('tools::do_divition'):
        return to_rat(e[2][0], leaf, strip, depth + 1) / to_rat(e[2][1], leaf, strip, depth + 1)
    if k == 'field':
        # a component of a small operand struct / tuple built a few lines earlier (`ops.number` with ops = Operands { number: .. })
        base = strip(e[1])
        if base[0] == 'aggr':
            names = base[3] if len(base) > 3 and base[3] else []
            nm = str(e[2])
            if nm in names and len(names) == len(base[2]):
                return to_rat(base[2][list(names).index(nm)], leaf, strip, depth + 1)
            if nm.lstrip('#').isdigit() and int(nm.lstrip('#')) < len(base[2]) and (base[1] == 'tuple' or not names):
                return to_rat(base[2][int(nm.lstrip('#'))], leaf, strip, depth + 1)
    raise NotArithmetic('node %s' % k)
