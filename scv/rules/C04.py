"""C04 - Evaluation never changes the calculator; sessions isolate and persist correctly.

F1 interior-mutable cells written during evaluation belong to the evaluating tokenizer / parser / session, never to
the configuration; F2 tokens inserted into the evaluating token list are fresh; F3 ambient inputs are limited to
the UTC clock; F4 execute() allocates its own Session and there is no global mutable state; F5 every body that
replaces the session's lines also resets the cursor; F6 session variables are only ever added.
Not decided: equality of results across histories as such.
"""
import re

from ..facts import render, strip, walk, fn_key, AnchorLost, alternatives, cond_str
from ..effects import cell_writes, collection_writes, field_assigns, fields_in, spine_fields, spine
from .. import model

OWNER_CLASSES = [
    # (name, predicate on (body, receiver expr, rendered text))
    ('line tokens of the evaluating tokenizer', lambda b, e, t: 'tokinizer::Tokinizer.token_infos' in spine_fields(e) and 'tokinizer::Tokinizer.config' not in spine_fields(e)),
    ('session cursor / variables', lambda b, e, t: any(f.startswith('session::Session.') for f in spine_fields(e))),
    ('parser cursor', lambda b, e, t: any(f == 'syntax::SyntaxParser.index' for f in spine_fields(e))),
    ('value cell of a session variable', lambda b, e, t: any(f == 'variable::VariableInfo.data' for f in spine_fields(e)) and not any(f.startswith('config::') for f in spine_fields(e))),
]


def touches_config(e):
    return sorted(f for f in spine_fields(e) if f.startswith('config::SmartCalcConfig.') or f.startswith('tokinizer::rule_tokinizer::RuleType.') or f.startswith('config::DynamicType.'))


def param_roots(b, e):
    """parameters at the root of the receiver expression, with their types"""
    out = []
    for x in spine(e):
        if x[0] == 'arg':
            out.append((x[1], x[2], b.locals.get(x[1], '?')))
    return out


def f1_cells(ctx):
    """F1 every Cell/RefCell write reachable from evaluation has a receiver owned by the evaluation itself"""
    ctx.rule('F1', 'interior-mutable writes during evaluation', floor=8)
    reach = ctx.eval_reach()
    for p in sorted(reach):
        b = ctx.facts.bodies[p]
        if b.kind == 'promoted':
            continue
        for bid, t, method, recv in cell_writes(b):
            ctx.fn(b)
            txt = render(recv)
            cfg = touches_config(recv)
            if cfg:
                ctx.finding('F1', '%s/%s/config-owned' % (fn_key(p), method),
                            'evaluation writes a cell that belongs to the shared configuration: %s.%s() with receiver %s (through %s)' % (fn_key(p), method, txt[:140], cfg[:2]), site=t['loc'])
                continue
            cls = [n for n, pred in OWNER_CLASSES if pred(b, recv, txt)]
            # receiver rooted in a parameter of another type: look at what callers pass
            leak = None
            via_caller = []
            for (idx, name, ty) in param_roots(b, recv):
                if re.search(r'Tokinizer|Session|SyntaxParser|VariableInfo', ty):
                    continue
                for caller in ctx.cg.callers_of(p):
                    cb = ctx.facts.bodies[caller]
                    for cbid, ct in cb.calls():
                        cc = ct.get('callee')
                        if cc and cc['path'] == p and idx - 1 < len(ct['args']):
                            ae = cb.expr(ct['args'][idx - 1])
                            c2 = touches_config(ae)
                            if c2:
                                leak = (caller, render(ae)[:120], c2[:2])
                            else:
                                at = render(ae)
                                via_caller.append([n for n, pred in OWNER_CLASSES if pred(cb, ae, at)])
            if not cls and not leak and via_caller and all(via_caller) and ctx.cg.owner_step(p) is not None:
                # a private helper writing a cell of its parameter: every call site hands it evaluation-owned data
                cls = ['%s (passed by the only caller)' % via_caller[0][0]]
            if leak:
                ctx.finding('F1', '%s/%s/config-owned-via-caller' % (fn_key(p), method),
                            '%s writes a cell of its parameter; caller %s passes configuration-owned data (%s through %s)' % (fn_key(p), fn_key(leak[0]), leak[1], leak[2]), site=t['loc'])
            elif not cls:
                ctx.finding('F1', '%s/%s/unclassified' % (fn_key(p), method), 'cell write with a receiver outside the known owner classes: %s' % txt[:160], site=t['loc'])
            else:
                ctx.ok('F1', '%s: %s() on %s' % (fn_key(p), method, cls[0]), 'owner', site=t['loc'])
    # evaluation entry points take &self
    for e in ('smartcalc::SmartCalc::execute', 'smartcalc::SmartCalc::execute_session'):
        b = ctx.facts.body(e)
        ty = b.locals.get(1, '')
        if ty.startswith('&mut'):
            ctx.finding('F1', '%s/mut-self' % fn_key(e), '%s takes %s' % (e, ty), site=b.loc)
        else:
            ctx.ok('F1', '%s takes %s' % (fn_key(e), ty), 'types', site=b.loc)


def f2_fresh_tokens(ctx):
    """F2 every element inserted into the evaluating tokenizer's token list is a fresh Rc::new(TokenInfo{..})"""
    ctx.rule('F2', 'tokens inserted into the line are fresh', floor=5)
    reach = ctx.eval_reach()
    for p in sorted(reach):
        b = ctx.facts.bodies[p]
        for bid, t, method, recv in collection_writes(b):
            txt = render(recv)
            if not re.search(r'\.token_infos$', txt) or method not in ('insert', 'push', 'extend', 'append', 'extend_from_slice'):
                continue
            ctx.fn(b)
            elem = b.expr(t['args'][-1])
            et = render(elem)
            if re.match(r'^Rc::new\(tokinizer::TokenInfo::TokenInfo\{', et):
                ctx.ok('F2', '%s: %s(Rc::new(TokenInfo{..}))' % (fn_key(p), method), 'fresh', site=t['loc'])
            else:
                ctx.finding('F2', '%s/%s/not-fresh' % (fn_key(p), method), 'a token that is not freshly allocated is inserted into the line\'s token list: %s' % et[:140], site=t['loc'])


AMBIENT = re.compile(r'chrono::(offset::)?(local::)?Local\b|std::env|std::fs|std::time|SystemTime|Instant::|rand::|getrandom|std::net|std::process|std::io::stdin|thread_rng')
CLOCK_OK = re.compile(r'^chrono::(offset::)?(utc::)?Utc::(now|today)$')


def consults(c):
    """does this callee read the ambient source (as opposed to computing on a value that merely has an ambient type)?"""
    p = c['path']
    if re.search(r'chrono::(offset::)?(local::)?Local\b', p + ' ' + ' '.join(c.get('gen', []))):
        return bool(re.match(r'^(chrono::TimeZone::|chrono::offset::TimeZone::|<chrono::(offset::)?(local::)?Local as |chrono::(offset::)?(local::)?Local::)', p))
    return True


def f3_ambient(ctx):
    """F3 ambient inputs reachable from evaluation: only the UTC clock"""
    ctx.rule('F3', 'ambient inputs of evaluation', floor=5)
    reach = ctx.eval_reach()
    for p in sorted(reach):
        b = ctx.facts.bodies[p]
        for bid, t in ctx.cg.ext_calls.get(p, []):
            c = t['callee']
            text = c['path'] + ' ' + ' '.join(c.get('gen', []))
            if CLOCK_OK.match(c['path']):
                ctx.fn(b)
                ctx.ok('F3', '%s reads the UTC clock (%s)' % (fn_key(p), c['path'].rsplit('::', 1)[1]), 'allowed-ambient', site=t['loc'], sample=False)
            elif AMBIENT.search(text) and not re.search(r'LocalResult', c['path']) and consults(c):
                ctx.fn(b)
                ctx.finding('F3', '%s/%s' % (fn_key(p), re.sub(r'<.*', '', c['path']).rsplit('::', 1)[-1] + ('[' + ','.join(g.rsplit('::', 1)[-1] for g in c.get('gen', [])[:1]) + ']' if c.get('gen') else '')),
                            'evaluation consults an ambient input other than the UTC clock: %s%s' % (c['path'], ('::<%s>' % ', '.join(c['gen'])) if c.get('gen') else ''), site=t['loc'])


def f4_isolation(ctx):
    """F4 execute() builds its own Session; no global mutable state"""
    ctx.rule('F4', 'separate evaluations share nothing', floor=2)
    b = ctx.facts.body('smartcalc::SmartCalc::execute')
    ctx.fn(b)
    es = list(b.calls(r'SmartCalc::execute_session$'))
    if len(es) != 1:
        raise AnchorLost('SmartCalc::execute no longer delegates to execute_session exactly once')
    s = render(b.expr(es[0][1]['args'][1]))
    alts = set(render(a) for a, _ in alternatives(b, b.expr(es[0][1]['args'][1])))
    if alts and all(a.startswith('Session::new()') or a == 'Session::new()' for a in alts):
        ctx.ok('F4', 'execute() evaluates on Session::new()', 'wiring', site=es[0][1]['loc'])
    else:
        ctx.finding('F4', 'execute/session-origin', 'execute() evaluates on %s, not on a session it just created' % s[:120], site=es[0][1]['loc'])
    for p, st in sorted(ctx.facts.statics.items()):
        ty = st['ty']
        lazy = ty.startswith('lazy_static::lazy::Lazy<') or re.search(r'(TOKEN_REGEX_PARSER|LANGUAGE_BASED_TOKEN_PARSER|RULE_FUNCTIONS)$', ty)
        if st['mutable'] or (not lazy and re.search(r'Cell<|RefCell<|Mutex<|RwLock<|Atomic|Session|OnceCell|OnceLock', ty)):
            ctx.finding('F4', 'static/%s' % p.rsplit('::', 1)[-1], 'global mutable state: static %s : %s' % (p, ty[:100]), site=st['loc'])
        elif lazy and re.search(r'Cell<|RefCell<|Mutex<|Session', re.sub(r'^lazy_static::lazy::Lazy<', '', ty)):
            ctx.finding('F4', 'static/%s' % p.rsplit('::', 1)[-1], 'lazy static holds mutable state: %s' % ty[:120], site=st['loc'])
        else:
            ctx.ok('F4', 'static %s is immutable' % p.rsplit('::', 2)[-1], 'types', site=st['loc'], sample=False)


def f5_cursor(ctx):
    """F5 coupled state: a body that assigns Session.text_parts also sets Session.position to 0 on every path to return"""
    ctx.rule('F5', 'new text resets the line cursor', floor=1)
    n = 0
    sf = model.session_fields(ctx)
    ZERO = r'((Cell|Default)::)?default(::<[^()]*>)?\(\)|Cell::new\(0\)'
    for b in ctx.facts.src_bodies():
        sites = field_assigns(b, sf['lines'])
        whole = field_assigns(b, sf['container']) if sf['container'] else []
        if not sites and not whole:
            continue
        n += 1
        ctx.fn(b)
        for abid, a in whole:
            # lines and cursor live in one struct that is replaced as a whole: the new value's cursor component is 0
            vals = [x for x, _c in alternatives(b, b.expr(a['ops'][0]))] if a.get('rv') == 'use' else []
            short = lambda xs: [str(x).rsplit('.', 1)[-1] for x in xs]
            cn = sf['cursor_name']
            if a.get('rv') == 'aggr':
                names = short(a.get('fields', []))
                ok_ = cn in names and re.fullmatch(ZERO, render(b.expr(a['ops'][names.index(cn)])))
            else:
                ok_ = bool(vals)
                for v_ in vals:
                    v0 = strip(v_)
                    names = short(v0[3]) if v0[0] == 'aggr' and len(v0) > 3 and v0[3] else []
                    if not (cn in names and re.fullmatch(ZERO, render(v0[2][names.index(cn)]))):
                        ok_ = False
            if ok_:
                ctx.ok('F5', '%s replaces lines and cursor together, the cursor at 0' % fn_key(b.path), 'wiring', site=a['loc'])
            else:
                ctx.finding('F5', '%s/cursor-not-reset' % fn_key(b.path), '%s replaces the session\'s line buffer with a value whose cursor is not 0' % fn_key(b.path), site=a['loc'])
        if not sites:
            continue
        resets = []
        for bid, t, method, recv in cell_writes(b):
            if method in ('set', 'replace') and any(f == sf['cursor'] for f in fields_in(recv)):
                val = render(b.expr(t['args'][1])) if len(t['args']) > 1 else '?'
                resets.append((bid, val, t))
        for bid, s in field_assigns(b, sf['cursor']):
            resets.append((bid, 'assigned', s))
        pd = b.postdominators()
        dom = b.dominators()
        for abid, a in sites:
            ok = [r for r in resets if r[1] in ('0', 'assigned', 'Cell::default()', 'Default::default()') and (r[0] in pd.get(abid, ()) or r[0] in dom.get(abid, ()))]
            if ok:
                ctx.ok('F5', '%s assigns text_parts and resets position on every path' % fn_key(b.path), 'post-dominance', site=a['loc'])
            else:
                ctx.finding('F5', '%s/cursor-not-reset' % fn_key(b.path),
                            '%s replaces the session\'s lines but leaves the line cursor where the previous text ended%s' % (fn_key(b.path), ' (a reset exists but not on every path)' if resets else ''), site=a['loc'])
    if n == 0:
        raise AnchorLost('no body assigns Session.text_parts')
    # giving a session its text puts the cursor on the first line on *every* path - also when the text is the one it already
    # holds (an evaluation leaves the cursor on the last line; "nothing to re-split" must still rewind)
    st = ctx.facts.find(r'^session::Session::set_text$')
    if len(st) != 1:
        raise AnchorLost('Session::set_text not found')
    b = st[0]
    ctx.fn(b)
    pd = b.postdominators()
    resets = []
    for bid, t, method, recv in cell_writes(b):
        if method in ('set', 'replace') and any(f == sf['cursor'] for f in fields_in(recv)) and len(t['args']) > 1 and render(b.expr(t['args'][1])) == '0':
            resets.append(bid)
    for bid, s_ in field_assigns(b, sf['cursor']):
        resets.append(bid)
    for bid, a in (field_assigns(b, sf['container']) if sf['container'] else []):
        resets.append(bid)
    if any(r_ == 0 or r_ in pd.get(0, ()) for r_ in resets):
        ctx.ok('F5', 'set_text puts the cursor on the first line on every path', 'post-dominance', site=b.loc)
    else:
        ctx.finding('F5', 'set_text/cursor-not-reset-on-every-path', 'Session::set_text has a path to its return that does not put the line cursor back on the first line (an early return): a session whose text was evaluated keeps its cursor on the last line', site=b.loc)
    # constructors build the whole struct: position must start at the default (0)
    for b in ctx.facts.src_bodies():
        for i in b.normal_blocks:
            for s in b.blocks[i]['stmts']:
                if s['k'] == 'assign' and s['rv'] == 'aggr' and s['adt'] == 'session::Session::Session':
                    names = [str(x).rsplit('.', 1)[-1] for x in s.get('fields', [])]
                    if sf['container'] is None and sf['cursor_name'] in names:
                        v = render(b.expr(s['ops'][names.index(sf['cursor_name'])]))
                        if re.fullmatch(r'((Cell|Default)::)?default(::<[^()]*>)?\(\)|Cell::new\(0\)', v):
                            ctx.ok('F5', '%s builds a Session with position = default' % fn_key(b.path), 'const', site=s['loc'])
                        else:
                            ctx.finding('F5', '%s/initial-position' % fn_key(b.path), 'a new Session starts with position = %s' % v[:60], site=s['loc'])


def f6_variables(ctx):
    """F6 Session.variables: only add_variable writes it, and only by insert (bindings persist)"""
    ctx.rule('F6', 'session variables persist', floor=1)
    n = 0
    for b in ctx.facts.src_bodies():
        for bid, t, method, recv in cell_writes(b):
            if not any(f == 'session::Session.variables' for f in fields_in(recv)):
                continue
            n += 1
            ctx.fn(b)
            # what is done with the RefMut?
            dl = b.dest_local(t)
            uses = [u for u in b.uses_of_local(dl)] if dl is not None else []
            methods = set()
            for (ubid, kind, node, role) in uses:
                if kind == 'stmt' and node['k'] == 'assign' and node['rv'] == 'ref':
                    # follow one more step: &mut *guard passed to deref_mut / a map method
                    l2 = node['lhs']['local']
                    for (u2b, k2, n2, r2) in b.uses_of_local(l2):
                        if k2 == 'term' and n2['k'] == 'call' and n2.get('callee'):
                            methods.add(n2['callee']['path'].rsplit('::', 1)[1])
                            d2 = b.dest_local(n2)
                            if d2 is not None:
                                for (u3b, k3, n3, r3) in b.uses_of_local(d2):
                                    if k3 == 'term' and n3['k'] == 'call' and n3.get('callee'):
                                        methods.add(n3['callee']['path'].rsplit('::', 1)[1])
                                    if k3 == 'stmt' and n3['k'] == 'assign' and n3['rv'] in ('ref', 'use'):
                                        for (u4b, k4, n4, r4) in b.uses_of_local(n3['lhs']['local']):
                                            if k4 == 'term' and n4['k'] == 'call' and n4.get('callee'):
                                                methods.add(n4['callee']['path'].rsplit('::', 1)[1])
            methods -= {'deref_mut', 'deref', 'drop'}
            if b.path != 'session::Session::add_variable':
                ctx.finding('F6', 'writer/%s' % fn_key(b.path), '%s takes a mutable borrow of Session.variables (methods used: %s); only Session::add_variable may write the bindings' % (fn_key(b.path), sorted(methods)), site=t['loc'])
            elif methods - {'insert'}:
                ctx.finding('F6', 'add_variable/methods', 'Session::add_variable does more than insert: %s' % sorted(methods), site=t['loc'])
            else:
                ctx.ok('F6', 'Session::add_variable: variables.borrow_mut().insert(..)', 'who-may-write', site=t['loc'])
    if n == 0:
        raise AnchorLost('no writer of Session.variables found')


RULES = [('F1', f1_cells), ('F2', f2_fresh_tokens), ('F3', f3_ambient), ('F4', f4_isolation), ('F5', f5_cursor), ('F6', f6_variables)]


def f7_rebinding_keys(ctx):
    """V4 (shared with C03): a session that persists keeps one binding per name only if the key under which a binding is stored
    and the key under which an assignment looks it up are built alike (both lower-cased); otherwise a re-used session
    accumulates a second binding and later lines read the stale one"""
    from .C03 import v4_keys
    v4_keys(ctx)


RULES.append(('V4', f7_rebinding_keys))
