"""C08 - Separators affect only reading and printing of numbers, never the computed value.

R1 the bodies that read the separator configuration are literal readers or printers, nothing else;
R2 no compute-layer body reaches a separator reader through the call graph (absence of reads => non-interference);
R3 the three literal readers apply the same normalisation in the same order; R4 values are stored as numbers.
Not decided: that every literal a user can write in a convention is matched by the regexes.
"""
import re

from ..facts import render, strip, fn_key, AnchorLost, cond_str, alternatives
from ..effects import field_reads
from ..common import check_literal_reader
from .. import model

SEP_FIELDS = ('config::SmartCalcConfig.decimal_seperator', 'config::SmartCalcConfig.thousand_separator')


def readers(ctx):
    out = {}
    for b in ctx.facts.bodies.values():
        if b.kind == 'promoted':
            continue
        sites = []
        for f in SEP_FIELDS:
            sites += field_reads(b, f)
        if sites:
            out[b.path] = sorted(set(sites))
    return out


def classify_reader(ctx, path, _seen=()):
    parsers = {f: fam for fam, f in model.regex_parsers(ctx)}
    if path in parsers:
        return 'literal reader (%s)' % parsers[path]
    if re.search(r' as compiler::DataItem>::print$', path):
        return 'printer'
    if path.startswith('formatter::'):
        return 'printer'
    # a helper is as good as its callers: every caller must itself be a literal reader / printer (or such a helper)
    b = ctx.facts.bodies.get(path)
    if b is not None and b.kind == 'closure':
        return classify_reader(ctx, b.rec.get('parent'), _seen)
    callers = [c for c in ctx.cg.callers_of(path) if c != path]
    if callers and path not in _seen:
        kinds = [classify_reader(ctx, c, _seen + (path,)) for c in callers]
        if all(kinds):
            return 'helper of ' + ', '.join(sorted(set(k.split(' (')[0] for k in kinds)))
    return None


def reads_separators(ctx, path, rd, depth=2):
    if path in rd:
        return True
    if depth == 0:
        return False
    return any(reads_separators(ctx, y, rd, depth - 1) for (y, k) in ctx.cg.edges.get(path, ()) if k in ('direct', 'closure'))


def r1_readers(ctx):
    """R1 who reads decimal_seperator / thousand_separator"""
    ctx.rule('R1', 'readers of the separator configuration', floor=8)
    rd = readers(ctx)
    for p, sites in sorted(rd.items()):
        cls = classify_reader(ctx, p)
        ctx.fn(ctx.facts.bodies[p])
        if cls is None:
            # setters and the constructor only *write*; a read anywhere else is a leak
            ctx.finding('R1', 'reader/%s' % fn_key(p), '%s reads the separator configuration but is neither a literal reader nor a printer' % p, site=sites[0])
        else:
            ctx.ok('R1', '%s reads separators as %s' % (fn_key(p), cls), 'layer-table', site=sites[0])
    want = ['number', 'money', 'percent']
    parsers = {fam: f for fam, f in model.regex_parsers(ctx)}
    for fam in want:
        if not reads_separators(ctx, parsers.get(fam), rd):
            ctx.finding('R1', 'literal-reader-ignores-separators/%s' % fam, 'the %s literal reader does not read the separator configuration' % fam)
        else:
            ctx.ok('R1', 'the %s literal reader honours the separators' % fam, 'coverage', sample=False)
    for item in ('number::NumberItem', 'percent::PercentItem', 'money::MoneyItem', 'dynamic_type::DynamicTypeItem'):
        pth = '<compiler::%s as compiler::DataItem>::print' % item
        if pth not in ctx.facts.bodies:
            raise AnchorLost('printer %s not found' % pth)
        if not reads_separators(ctx, pth, rd):
            ctx.finding('R1', 'printer-ignores-separators/%s' % item.split('::')[1], '%s::print does not use the configured separators' % item.split('::')[1], site=ctx.facts.bodies[pth].loc)
        else:
            ctx.ok('R1', '%s::print honours the separators' % item.split('::')[1], 'coverage', sample=False)


def compute_layer(ctx):
    out = set()
    rulefns = set(model.rule_functions(ctx).values())
    for p, b in ctx.facts.bodies.items():
        if b.kind == 'promoted':
            continue
        root = b.rec.get('parent', p) if b.kind == 'closure' else p
        if re.search(r' as compiler::DataItem>::(?!print$)[a-z_]+$', root):
            out.add(p)
        elif root in rulefns or root.endswith('rules::date_rules::small_date'):
            out.add(p)
        elif re.match(r'^compiler::(Interpreter|dynamic_type::DynamicTypeItem|money::MoneyItem|duration::DurationItem|date::DateItem|time::TimeItem|date_time::DateTimeItem|number::NumberItem|percent::PercentItem)::', root) \
                and not re.search(r'::(duration_formatter)$', root):
            out.add(p)
        elif re.match(r'^tokinizer::tools::(get_|read_currency)', root) or root == 'tools::do_divition':
            out.add(p)
    return out


def r2_layering(ctx):
    """R2 compute layer must not reach a separator reader"""
    ctx.rule('R2', 'compute layer cannot reach a separator reader', floor=40)
    rd = set(readers(ctx))
    layer = compute_layer(ctx)
    cg = ctx.cg
    # which local bodies can reach a reader at all?
    reach_reader = {}

    def reaches(p):
        if p in reach_reader:
            return reach_reader[p]
        pred = cg.reachable([p])
        hit = sorted(x for x in pred if x in rd)
        reach_reader[p] = (cg.path_to(pred, hit[0]) if hit else None)
        return reach_reader[p]
    seen_keys = set()
    from ..report import load_known
    known_keys = set(k['key'] for k in load_known() if k.get('property') == 'C08' and k.get('status') == 'known')
    for p in sorted(layer):
        ctx.fn(ctx.facts.bodies[p])
        bad = False
        if p in rd:
            bad = True      # R1 reports it as a reader already
        for (y, kind) in sorted(cg.edges.get(p, ())):
            if y in layer:
                continue
            path = reaches(y)
            if path:
                bad = True
                # a private helper of compute-layer functions is reported under the functions it works for (extract-method
                # must not rename a finding): its direct callers inside the layer, when it has no other kind of caller
                who = [p]
                edges_in = [(c, k2) for c, es in cg.edges.items() for (yy, k2) in es if yy == p and c != p]
                own_key = 'C08/R2/%s->%s' % (fn_key(p), fn_key(y))
                if own_key not in known_keys and edges_in and all(k2 == 'direct' and c in layer for c, k2 in edges_in) and not re.search(r' as .*>::', p):
                    cands = sorted(set(c for c, _ in edges_in))
                    if any('C08/R2/%s->%s' % (fn_key(c), fn_key(y)) in known_keys for c in cands):
                        who = cands
                for w in who:
                    k_ = '%s->%s' % (fn_key(w), fn_key(y))
                    if k_ in seen_keys:
                        continue
                    seen_keys.add(k_)
                    ctx.finding('R2', k_,
                                'compute-layer function %s calls %s%s, which reaches the separator reader %s: computed values depend on the separator configuration' % (
                                    fn_key(w), fn_key(y), '' if w == p else ' (through its helper %s)' % fn_key(p), fn_key(path[-1])),
                                site=ctx.facts.bodies[w].loc, detail={'call_path': ([w] if w != p else []) + [p] + path})
        if not bad:
            ctx.ok('R2', '%s reaches no separator reader' % fn_key(p), 'call-graph', sample=False)


def r3_siblings(ctx):
    """R3 number / money / percent readers: remove thousands separator, then decimal separator -> ".", then parse::<f64>"""
    ctx.rule('R3', 'the three literal readers normalise alike', floor=3)
    check_literal_reader(ctx, 'R3', r'regex_tokinizer::number::number_regex_parser$', 'Number', ['DECIMAL'], 'number_regex_parser')
    check_literal_reader(ctx, 'R3', r'regex_tokinizer::money::money_regex_parser$', 'Money', ['PRICE'], 'money_regex_parser')
    check_literal_reader(ctx, 'R3', r'regex_tokinizer::percent::percent_regex_parser$', 'Percent', ['NUMBER'], 'percent_regex_parser')


def r4_values(ctx):
    """R4 evaluated items hold numbers / chrono values, never literal text (nothing is re-read later)"""
    ctx.rule('R4', 'items store values, not text', floor=6)
    for im in ctx.facts.impls_of(r'^compiler::DataItem$'):
        adt = ctx.facts.adts.get(im['self_ty'])
        if not adt:
            continue
        for v in adt['variants']:
            tys = [f['ty'] for f in v['fields']]
            if any(re.search(r'(^|::)String$|&str|Cell<', t) for t in tys):
                ctx.finding('R4', 'item-holds-text/%s' % im['self_ty'].rsplit('::', 1)[-1], '%s stores %s' % (im['self_ty'], tys), site=adt['loc'])
            else:
                ctx.ok('R4', '%s(%s)' % (im['self_ty'].rsplit('::', 1)[-1], ', '.join(tys)), 'types', site=adt['loc'])


def r5_conventions(ctx):
    """R5 the three literal families accept the same number shapes in every separator convention of the quantifier: sample
    renderings with thousands groups and a fraction, plain and as a percentage, are members of the number and percent
    regexes (shared with C15 A4)"""
    from .C15 import a4_numbers
    a4_numbers(ctx)


RULES = [('R1', r1_readers), ('R2', r2_layering), ('R3', r3_siblings), ('R4', r4_values), ('A4', r5_conventions)]


def r5_lexical(ctx):
    """R5 decimal literals of every separator convention are number tokens (E7b lexical competition model: month stage, regex families in TOKEN_REGEX_PARSER order with first-claim-wins,
    alias stage; samples generated from the configuration)"""
    from ..lexrules import run_samples, number_samples, based_samples, money_samples, unit_samples, month_samples, zone_samples, duration_samples, percent_samples, keyword_samples
    ctx.rule('R5', 'decimal literals of every separator convention are number tokens', floor=80)
    run_samples(ctx, 'R5', number_samples())


RULES.append(('R5', r5_lexical))


def r6_no_extra_skip(ctx):
    """R6 a literal reader turns every capture into a token unless its text does not parse (or, for money, names no known
    currency): the creation of the token is dominated only by loop conditions, the presence of capture groups, parse success and
    the currency lookup. Any further condition on the text (a grouping check, a length test) drops literals that the statement
    says denote a number in that convention."""
    ctx.rule('R6', 'literal readers skip a capture only when it does not parse', floor=3)
    HEAD_OK = re.compile(r'(Iterator(<.*>)?>?::next|::next|Regex::captures_iter|Captures::(<.*>::)?(name|get)|::parse|from_str_radix|read_currency|SmartCalcConfig::get_currency)$')
    WRAP = re.compile(r'(Option|Result)::<.*>::(ok|as_ref|cloned|copied|as_deref|map_err|ok_or|ok_or_else)$|Try>::branch$')

    class _A:
        @staticmethod
        def match(txt):
            return True

    def allowed(d):
        """the decision is a discriminant of (wrappers around) an iterator step, a capture-group lookup, a parse or the
        currency lookup"""
        x = strip(d, transparent=False)
        if x[0] != 'discr':
            return False
        x = strip(x[1], transparent=False)
        for _ in range(8):
            if x[0] == 'call' and WRAP.search(x[1]) and x[2]:
                x = strip(x[2][0], transparent=False)
            elif x[0] == 'field' or x[0] == 'downcast':
                x = strip(x[1], transparent=False)
            else:
                break
        if x[0] == 'phi' and _depth[0] < 4:
            # an Option / Result merged from arms (a helper that hands back None when the text does not parse): the decision is
            # in the vocabulary when every arm is selected by decisions that are
            _depth[0] += 1
            try:
                alts = alternatives(cur_body[0], x)
                ok_ = bool(alts) and all(strip(a_)[0] in ('aggr', 'call', 'field', 'const') for a_, _c in alts) and all(allowed(d_) for _a, cs_ in alts for d_, _v in cs_)
            except Exception:
                ok_ = False
            _depth[0] -= 1
            return ok_
        return x[0] == 'call' and bool(HEAD_OK.search(x[1]))
    _depth = [0]
    cur_body = [None]
    for rx in (r'regex_tokinizer::number::number_regex_parser$', r'regex_tokinizer::money::money_regex_parser$', r'regex_tokinizer::percent::percent_regex_parser$'):
        b = ctx.facts.one(rx)
        ctx.fn(b)
        cur_body[0] = b
        sites = list(b.calls(r"Tokinizer::(<'a>::)?add_token_location$|Tokinizer::(<'a>::)?add_token_from_match$"))
        if not sites:
            raise AnchorLost('%s creates no token' % fn_key(b.path))
        for bid, t in sites:
            extra = []
            for (_, d, v) in b.conditions(bid):
                if allowed(d):
                    continue
                extra.append(cond_str(d, v))
            # decisions inside the capture loop that separate "a token is created" from "this capture is skipped" (a `continue`
            # in one arm of the reader does not dominate the creation site, so it is found on the CFG: a switch with one edge that
            # can still reach the creation in this iteration and one that cannot)
            loops = [L for L in b.loops() if bid in L['body']]
            if loops:
                L = min(loops, key=lambda l: len(l['body']))
                head = L['head']
                for sb in sorted(L['body']):
                    tt = b.blocks[sb]['term']
                    if tt['k'] != 'switch' or sb == bid:
                        continue
                    succ = [tg for _, tg in tt['vals']] + [tt['otherwise']]
                    succ = [x for x in succ if x is not None and x >= 0 and b.blocks[x]['term']['k'] != 'unreachable']   # the `otherwise` of an exhaustive match
                    reach = [(x == bid) or b.can_reach(x, bid, avoid={head}) for x in succ]
                    if any(reach) and not all(reach) and not b.can_reach(bid, sb, avoid={head}):
                        de = b.expr(tt['discr'])
                        if not allowed(de) and render(de) not in extra:
                            extra.append(render(de))
            if extra:
                ctx.finding('R6', '%s/extra-condition' % fn_key(b.path), '%s creates its token only under %s: captures that parse but fail this test are dropped (the literal then denotes nothing)' % (fn_key(b.path), ' and '.join(x[:110] for x in extra[:2])), site=t['loc'])
            else:
                ctx.ok('R6', '%s: every capture that parses becomes a token' % fn_key(b.path), 'guard-dom', site=t['loc'])


RULES.append(('R6', r6_no_extra_skip))


def r7_stateless(ctx):
    """R7 literal readers carry no state from one capture of the line to the next (shared rule, scv/common.py)"""
    from ..common import reader_stateless
    reader_stateless(ctx, 'R7', None)


RULES.append(('R7', r7_stateless))
