"""C19 - Every configured language is a relabelling of the same calculator.

L1 per-language table completeness; L2 every configured month spelling is recognised by the regex that
load_from_json builds for it (template from the code x names from the data, through regex-syntax);
L3 printers look up the session language and hand it on; L4 word-free rules are identical in every language;
L5 per-language duration formats and the formatter's fallback.
Not decided: value equality of translated lines.
"""
import re

from ..facts import render, strip, walk, fn_key, AnchorLost
from ..data import abstract_tokens, decode_fmt_template, hir_accepts
from .. import model
from .C10 import du5_formats


def l1_tables(ctx):
    """L1 months 1..12 (long + short), constant kinds 1..11, referenced word groups, alias values"""
    ctx.rule('L1', 'per-language table completeness', floor=30)
    atom_hirs = [h for p, h in ctx.config.parse_family('atom') if h]
    for lang, l in sorted(ctx.config.languages.items()):
        for which in ('long_months', 'short_months'):
            have = set(l[which].values())
            for m in range(1, 13):
                if m not in have:
                    ctx.finding('L1', '%s/%s/%d' % (lang, which, m), 'language %s has no %s name for month %d: dates of that month cannot be written or printed' % (lang, which[:-7], m), site='config.json languages.%s.%s' % (lang, which))
                else:
                    ctx.ok('L1', '%s %s month %d' % (lang, which, m), 'data', sample=False)
            for name, m in l[which].items():
                if not (1 <= m <= 12):
                    ctx.finding('L1', '%s/%s/out-of-range/%s' % (lang, which, name), 'month name %r maps to month number %r' % (name, m), site='config.json languages.%s.%s' % (lang, which))
                if name != name.lower():
                    ctx.finding('L1', '%s/%s/not-lowercase/%s' % (lang, which, name), 'month name %r is not lower-case; month names are matched on the lower-cased line' % name, site='config.json languages.%s.%s' % (lang, which))
        kinds = set(l['constant_pair'].values())
        for k in range(1, 12):
            if k not in kinds:
                ctx.finding('L1', '%s/constant_pair/%d' % (lang, k), 'language %s has no word for constant kind %d (1 day .. 7 hour, 8 today, 9 tomorrow, 10 yesterday, 11 now)' % (lang, k), site='config.json languages.%s.constant_pair' % lang)
            else:
                ctx.ok('L1', '%s constant kind %d' % (lang, k), 'data', sample=False)
        for w, k in l['constant_pair'].items():
            if not (1 <= k <= 11):
                ctx.finding('L1', '%s/constant_pair/unknown-kind/%s' % (lang, w), 'word %r maps to unknown constant kind %r (dropped at load time)' % (w, k), site='config.json languages.%s.constant_pair' % lang)
        groups = set(l['word_group'])
        for rn, p, org in model.all_patterns(ctx, lang):
            for t in abstract_tokens(p):
                if t[0] == 'field' and t[1] == 'GROUP':
                    if t[3] not in groups:
                        ctx.finding('L1', '%s/group/%s/%s' % (lang, rn, t[3]), 'pattern %r of rule %s refers to word group %r, which language %s does not define: the pattern token is dropped and the rule changes meaning' % (p, rn, t[3], lang), site=org)
                    else:
                        ctx.ok('L1', '%s rule %s group %s exists' % (lang, rn, t[3]), 'data', sample=False)
        # duration words used by patterns must map to constants
        dg = l['word_group'].get('duration_group', [])
        for w in dg:
            if w not in l['constant_pair']:
                ctx.finding('L1', '%s/duration_group/%s' % (lang, w), 'duration word %r of %s has no constant kind: "N %s" is matched by duration_parse but rejected' % (w, lang, w), site='config.json languages.%s.word_group.duration_group' % lang)
            else:
                ctx.ok('L1', '%s duration word %r -> kind %d' % (lang, w, l['constant_pair'][w]), 'data', sample=False)
        for a, v in l['alias'].items():
            if v.startswith('['):
                ok = any(hir_accepts(h, v) for h in atom_hirs)
                m = re.fullmatch(r'\[([A-Z_]+):(.*)\]', v)
                if not ok or not m:
                    ctx.finding('L1', '%s/alias/%s' % (lang, a), 'alias %r -> %r is not a well-formed atom' % (a, v), site='config.json languages.%s.alias' % lang)
                elif m.group(1) != 'OPERATOR' or len(m.group(2)) != 1:
                    ctx.finding('L1', '%s/alias-atom/%s' % (lang, a), 'alias %r -> %r: only one-character OPERATOR atoms are safe as alias targets' % (a, v), site='config.json languages.%s.alias' % lang)
                else:
                    ctx.ok('L1', '%s alias %r -> operator %s' % (lang, a, m.group(2)), 'data', sample=False)
            else:
                ctx.ok('L1', '%s alias %r -> text %r' % (lang, a, v), 'data', sample=False)


def month_template(ctx):
    """the format template whose result load_from_json compiles into the per-month regex: pieces, arg field names"""
    b = ctx.facts.body('config::SmartCalcConfig::load_from_json')
    found = []
    ARGS = r'fmt::Arguments::<.*>::new$|Arguments::new$|Arguments::new_v1$'

    def first_args_node(e):
        for x in walk(e):
            if x[0] == 'call' and re.search(ARGS, x[1]):
                return x
        return None

    def flatten(x, depth=0):
        """(pieces with None for each placeholder, field read by each placeholder) of a format_args node whose arguments may be
        formatted strings themselves (a `whole word` helper applied to each name): the composed template"""
        tpl = strip(x[2][0])
        if tpl[0] != 'const' or depth > 3:
            return None
        pieces = decode_fmt_template(tpl[3])
        arr = strip(x[2][1]) if len(x[2]) > 1 else ('aggr', 'array', [])
        argv = list(arr[2]) if arr[0] == 'aggr' else []
        out_p, out_f = [], []
        it = iter(argv)
        for pc in pieces:
            if pc is not None:
                if out_p and out_p[-1] is not None:
                    out_p[-1] += pc
                else:
                    out_p.append(pc)
                continue
            a = next(it, None)
            inner = first_args_node(a) if a is not None else None
            sub = flatten(inner, depth + 1) if inner is not None else None
            if sub is not None:
                for q_ in sub[0]:
                    if q_ is not None and out_p and out_p[-1] is not None:
                        out_p[-1] += q_
                    else:
                        out_p.append(q_)
                out_f += sub[1]
            else:
                m_ = re.findall(r'\.(long|short)\b', render(a) if a is not None else '')
                out_p.append(None)
                out_f.append(m_[-1] if m_ else '?')
        return out_p, out_f
    for hb, t, args in model.deep_calls(ctx, b, r'Regex::new$', depth=1):     # also inside the closures of iterator chains
        x = first_args_node(args[0])
        if x is None:
            continue
        fl = flatten(x)
        if fl is not None and fl[1] and all(f_ in ('long', 'short') for f_ in fl[1]):
            found.append((fl[0], fl[1], t['loc']))
    if len(found) != 1:
        raise AnchorLost('load_from_json: expected exactly one regex built from MonthInfo.long/short, found %d' % len(found))
    return found[0]


def l2_month_spellings(ctx):
    """L2 every configured month spelling is accepted by the regex load_from_json builds for that month"""
    ctx.rule('L2', 'every configured month spelling is recognisable', floor=40)
    pieces, fields, loc = month_template(ctx)
    b = ctx.facts.body('config::SmartCalcConfig::load_from_json')
    ctx.fn(b)
    # how many spellings per month survive loading?  month_object.long = name is an assignment: one per month
    keeps_one = {}
    for which in ('long', 'short'):
        assigns = [s for i in b.normal_blocks for s in b.blocks[i]['stmts'] if s['k'] == 'assign' and s['lhs']['proj'] and
                   isinstance(s['lhs']['proj'][-1], dict) and s['lhs']['proj'][-1].get('field') == 'constants::MonthInfo.%s' % which]
        pushes = [t for bid, t in b.calls(r'(Vec|String)::<.*>::(push|push_str|insert)$|Vec::push$') if ('.%s' % which) in render(b.expr(t['args'][0]))[-12:]]
        keeps_one[which] = bool(assigns) and not pushes
    for lang, l in sorted(ctx.config.languages.items()):
        for which, table in (('long', l['long_months']), ('short', l['short_months'])):
            by_month = {}
            for name, m in sorted(table.items()):          # BTreeMap iteration order = sorted keys: the last one wins
                by_month.setdefault(m, []).append(name)
            other = l['short_months'] if which == 'long' else l['long_months']
            for m, names in sorted(by_month.items()):
                survivor = sorted(names)[-1] if keeps_one[which] else None
                partner = sorted(n for n, mm in other.items() if mm == m)
                partner = partner[-1] if partner else ''
                for name in names:
                    if keeps_one[which] and name != survivor:
                        ctx.finding('L2', '%s/%s/%s/dropped' % (lang, which, name),
                                    'month spelling %r (%s, month %d) is configured but load_from_json keeps a single %s name per month (%r wins): a date written with %r is not recognised' % (name, lang, m, which, survivor, name),
                                    site='config.json languages.%s.%s_months' % (lang, which))
                        continue
                    # instantiate the template: long, short in the order of `fields`
                    vals = {'long': name if which == 'long' else partner, 'short': name if which == 'short' else partner}
                    it = iter(fields)
                    pat = ''.join(p if p is not None else vals[next(it)] for p in pieces)
                    h = ctx.config.rx.hir(pat)
                    if h is None:
                        ctx.finding('L2', '%s/%s/%s/regex' % (lang, which, name), 'the month regex %r does not compile: month %d of %s is never recognised' % (pat, m, lang), site=loc)
                    elif not hir_accepts(h, name):
                        ctx.finding('L2', '%s/%s/%s/not-matched' % (lang, which, name), 'the month regex %r built by load_from_json does not match its own configured spelling %r (%s)' % (pat, name, lang), site=loc)
                    else:
                        ctx.ok('L2', '%s %s %r matched by %r' % (lang, which, name, pat), 'regex-accepts', sample=False)
    # the month parser runs on the lower-cased line, for the session language
    mp = ctx.facts.one(r'regex_tokinizer::month::month_parser$')
    ctx.fn(mp)
    lk = [render(mp.expr(t['args'][1])) for bid, t in mp.calls(r'BTreeMap::<.*>::get$')]
    if lk and all('tokinizer.language' in x for x in lk):
        ctx.ok('L2', 'month_parser looks up config.month_regex[tokinizer.language]', 'wiring', site=mp.loc)
    else:
        ctx.finding('L2', 'month_parser/language', 'month_parser selects its regex list by %s' % lk, site=mp.loc)
    # every match of a month regex must become a token (captures_iter over the whole line, not the first hit only)
    it = list(mp.calls(r'Regex::captures_iter$|Regex::find_iter$'))
    first_only = list(mp.calls(r'Regex::(find|captures|is_match|shortest_match)$'))
    if it and not first_only:
        ctx.ok('L2', 'month_parser tokenises every occurrence of a month name', 'shape', site=mp.loc)
    else:
        ctx.finding('L2', 'month_parser/first-occurrence-only', 'month_parser no longer iterates over all matches of a month regex: a second month name on a line stays plain text', site=mp.loc)


def l3_printers(ctx):
    """L3 Duration / Date / DateTime printers use config.format[session language] (fallback en) and pass that language on"""
    ctx.rule('L3', 'printers use the session language', floor=3)
    for item in ('duration::DurationItem', 'date::DateItem', 'date_time::DateTimeItem'):
        b = ctx.facts.body('<compiler::%s as compiler::DataItem>::print' % item)
        ctx.fn(b)
        gets = [(bid, t) for bid, t in b.calls(r'BTreeMap::<.*>::get$') if render(b.expr(t['args'][0])).endswith('config.format')]
        keys = [render(b.expr(t['args'][1])) for bid, t in gets]
        first = [k for k in keys if 'Session::get_language(session)' in k]
        fallback = [k for k in keys if k == '"en"']
        # the session lookup must come first: the "en" lookup only under its None arm
        ok_order = False
        for (bid, t), k in zip(gets, keys):
            if k == '"en"':
                ok_order = any('get_language(session)' in c.replace('$', '') and (c.endswith('!=[1]') or c.endswith('=[0]')) for c in b.cond_text(bid))
        name = item.split('::')[1]
        if not first:
            ctx.finding('L3', '%s::print/language' % name, '%s::print selects its formats by %s, not by the session language' % (name, keys), site=b.loc)
        elif fallback and not ok_order:
            ctx.finding('L3', '%s::print/fallback-order' % name, '%s::print consults the "en" formats before / independent of the session language' % name, site=b.loc)
        else:
            ctx.ok('L3', '%s::print: config.format[session language], else "en"' % name, 'wiring', site=b.loc)
        for bid, t in b.calls(r'formatter::get_month_info$'):
            a = render(b.expr(t['args'][1]))
            if '.language' not in a and 'get_language' not in a:
                ctx.finding('L3', '%s::print/month-language' % name, '%s::print asks for month names of %s' % (name, a[:60]), site=t['loc'])
            else:
                ctx.ok('L3', '%s::print: month names of the selected format\'s language' % name, 'wiring', site=t['loc'])
    # format.language is set to the language key at load time
    lf = ctx.facts.body('config::SmartCalcConfig::load_from_json')
    setl = [s for i in lf.normal_blocks for s in lf.blocks[i]['stmts'] if s['k'] == 'assign' and s['lhs']['proj'] and isinstance(s['lhs']['proj'][-1], dict) and s['lhs']['proj'][-1].get('field') == 'constants::JsonFormat.language']
    if not setl:
        ctx.finding('L3', 'load_from_json/format-language', 'load_from_json no longer stamps each format table with its language', site=lf.loc)


WORD_FREE_HINT = ('percent_calculator', 'convert_money', 'division_cleanup', 'combine_durations')


def l4_word_free(ctx):
    """L4 rules whose patterns contain no words have identical pattern sets in every language that configures them"""
    ctx.rule('L4', 'word-free rules are identical across languages', floor=4)
    langs = sorted(ctx.config.languages)
    rules = sorted(set(r for l in langs for r in ctx.config.languages[l]['rules']))
    ref = 'en' if 'en' in langs else langs[0]
    for r in rules:
        sets = {}
        for l in langs:
            pats = ctx.config.rule_patterns(l, r)
            if pats:
                sets[l] = pats
        if len(sets) < 2:
            if ref in sets and len(langs) > 1:
                missing = [l for l in langs if l not in sets]
                ctx.note('L4: rule %s is configured for %s only (not for %s)' % (r, sorted(sets), missing))
            continue
        wordy = any(t[0] == 'word' for ps in sets.values() for p in ps for t in abstract_tokens(p))
        if wordy:
            continue
        base = sorted(sets[ref]) if ref in sets else sorted(list(sets.values())[0])
        for l, ps in sorted(sets.items()):
            if sorted(ps) != base:
                ctx.finding('L4', '%s/%s' % (r, l), 'word-free rule %s differs between %s and %s: %s vs %s' % (r, ref, l, base, sorted(ps)), site='config.json languages.%s.rules.%s' % (l, r))
            else:
                ctx.ok('L4', 'rule %s: %s == %s' % (r, l, ref), 'data', sample=False)
    # operator words: every operator that has a word in one language has one in the others (NOTE only)
    ops = {}
    for l in langs:
        for a, v in ctx.config.languages[l]['alias'].items():
            m = re.fullmatch(r'\[OPERATOR:(.)\]', v)
            if m:
                ops.setdefault(m.group(1), set()).add(l)
    for o, ls in sorted(ops.items()):
        if len(ls) < len(langs):
            ctx.note('L4: operator %r has a word in %s but not in %s' % (o, sorted(ls), sorted(set(langs) - ls)))


def l5_formats(ctx):
    """L5 duration unit words per language and the formatter's generic fallback"""
    du5_formats(ctx)


def l6_alias_case(ctx):
    """L6 operator / alias words of every language work in any letter case (shared with C16 W1, alias clause)"""
    from .C16 import alias_case
    ctx.rule('L6', 'alias words are matched case-insensitively', floor=20)
    alias_case(ctx, 'L6')


def l7_alias_whole_words(ctx):
    """L7 an alias key is compiled as \\b<key>\\b and applied with is_match to a token's text: the key must stay between the
    two word boundaries (a top-level alternation a|b|c binds the boundaries to a and c only, so stems match inside words)"""
    ctx.rule('L7', 'alias keys match whole words only', floor=20)
    tables = [('alias', ctx.config.j.get('alias', {}))] + [('languages.%s.alias' % l, ctx.config.languages[l].get('alias', {})) for l in sorted(ctx.config.languages)]
    pats = ['\\b%s\\b' % k for _, t in tables for k in t]
    ctx.config.rx.load(pats)
    for where, t in tables:
        for k in t:
            h = ctx.config.rx.hir('\\b%s\\b' % k)
            if h is None:
                ctx.finding('L7', '%s/%s/unparsable' % (where, k), 'alias key %r does not compile as \\b%s\\b: the alias is dropped at load time' % (k, k), site='config.json ' + where)
                continue
            subs = h['subs'] if h['k'] == 'concat' else []
            if len(subs) >= 3 and subs[0]['k'] == 'look' and subs[-1]['k'] == 'look' and subs[0].get('look') == 'word' and subs[-1].get('look') == 'word':
                ctx.ok('L7', '%s %r is bounded by \\b on both sides' % (where, k), 'regex-shape', site='config.json ' + where, sample=False)
            else:
                ctx.finding('L7', '%s/%s/unanchored' % (where, k), 'alias key %r compiled as \\b%s\\b is not bounded by the two word boundaries (%s at top level): parts of it match inside longer words, which then turn into %r'
                            % (k, k, h['k'], t[k]), site='config.json ' + where)


RULES = [('L7', l7_alias_whole_words), ('L6', l6_alias_case), ('L1', l1_tables), ('L2', l2_month_spellings), ('L3', l3_printers), ('L4', l4_word_free), ('DU5', l5_formats)]


def l8_first_letter(ctx):
    """L8 printed month names are capitalised on their first *character*: uppercase_first_letter takes it with chars(), never
    with a byte range (a multi-byte initial such as the ş of şubat would be cut or lost)"""
    ctx.rule('L8', 'month names are capitalised by character', floor=1)
    b = ctx.facts.one(r'^formatter::uppercase_first_letter$')
    ctx.fn(b)
    bad = []
    for bid, t in b.calls(r'str::<impl str>::(get|get_unchecked|split_at|split_at_checked|as_bytes|bytes)$|ops::Index<core::ops::Range|Index<.*Range.*>>::index$|str::traits::<impl .*SliceIndex.*>'):
        bad.append(t)
    chars = list(b.calls(r'str::<impl str>::chars$|str::<impl str>::char_indices$'))
    if bad:
        for t in bad:
            ctx.finding('L8', 'uppercase_first_letter/byte-slice', 'uppercase_first_letter takes a piece of the name by byte offsets (%s): names that start with a multi-byte letter (şubat, ağustos) lose or corrupt their initial' % t['callee']['path'].rsplit('::', 1)[-1], site=t['loc'])
    elif not chars:
        ctx.finding('L8', 'uppercase_first_letter/no-chars', 'uppercase_first_letter no longer walks the characters of the name', site=b.loc)
    else:
        ctx.ok('L8', 'uppercase_first_letter splits the name with chars()', 'units', site=b.loc)


def l9_month_numbers(ctx):
    """D6 (shared with C09): the month table is numbered index + 1, which is how get_month_info finds the name to print"""
    from .C09 import d6_month_numbers
    d6_month_numbers(ctx)


RULES += [('L8', l8_first_letter), ('D6', l9_month_numbers)]


# a rule, a date pattern or a unit registered for a language is tokenised in that language: shared with C18 (Y5)
from .C18 import y5_history_free as _y5   # noqa: E402

RULES.append(('Y5', _y5))
