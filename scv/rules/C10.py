"""C10 - Durations: unit lengths, additivity, greedy printing and 'as' flooring.

DU1 constants; DU2 duration_parse table (exact integer polynomials with div/mod identities); DU3 additivity;
DU4 the printed parts always sum to the magnitude (telescoping div/mod chain, checked symbolically); DU5 singular /
plural tables; DU6 'as' flooring table: divisor and constructor name the same unit.
Not decided: overflow for huge counts (C01), spelling recognition.
"""
import re
from fractions import Fraction

from ..facts import render, strip, walk, fn_key, AnchorLost, alternatives, cond_str, resolve_conds, inline_calls
from ..intpoly import IntNorm, NotInteger
from ..ratfun import Poly
from ..common import rule_body, pattern_field_check, result_alternatives
from ..tables import spec
from .. import model

UNIT_SECONDS = {'days': 86400, 'weeks': 604800, 'hours': 3600, 'minutes': 60, 'seconds': 1, 'milliseconds': Fraction(1, 1000)}
CONST_NAMES = {'Day': 'DAY', 'Week': 'WEEK', 'Month': 'MONTH', 'Year': 'YEAR', 'Second': None, 'Minute': 'MINUTE', 'Hour': 'HOUR'}


def constant_type_discr(ctx):
    adt = ctx.facts.adts.get('constants::ConstantType')
    if not adt:
        raise AnchorLost('enum constants::ConstantType not found')
    return {v['discr']: v['name'] for v in adt['variants']}


def du1_constants(ctx):
    """DU1 MINUTE..YEAR"""
    ctx.rule('DU1', 'duration unit constants', floor=6)
    for name, want in spec.DURATION_CONSTS.items():
        c = ctx.facts.consts.get('formatter::' + name)
        if c is None:
            # moved next to the type it belongs to (and re-exported): the one constant of that name
            cands = [v_ for k_, v_ in ctx.facts.consts.items() if k_.rsplit('::', 1)[-1] == name]
            c = cands[0] if len(cands) == 1 else None
        if c is None:
            ctx.finding('DU1', '%s/missing' % name, 'constant formatter::%s not found' % name)
        elif c['val'] != want:
            ctx.finding('DU1', '%s/value' % name, 'formatter::%s = %s s; the statement says %s s' % (name, c['val'], want), site=c['loc'])
        else:
            ctx.ok('DU1', 'formatter::%s = %d' % (name, want), 'const', site=c['loc'])


def duration_ctor_seconds(e, norm):
    """TimeDelta::<unit>(x) -> Poly of seconds, or None"""
    e = strip(e)
    if e[0] == 'call':
        m = re.search(r'TimeDelta::(days|weeks|hours|minutes|seconds)$', e[1])
        if m:
            p = norm.normalise(norm.poly(e[2][0]))
            return p * Poly.const(UNIT_SECONDS[m.group(1)]), m.group(1)
    return None, None


def variant_of(conds, by_discr, what='constant_pair'):
    """the ConstantType variant selected by the innermost discriminant condition on the looked-up constant"""
    for d, v in reversed(conds):
        ds = strip(d)
        if ds[0] == 'discr' and not isinstance(v, tuple) and len(v) == 1 and what in render(ds):
            return by_discr.get(list(v)[0])
    return None


def du2_parse_table(ctx):
    """DU2 'N unit' = N x unit length; months count twelve to a 365-day year"""
    ctx.rule('DU2', "'N unit' table of duration_parse", floor=7)
    b = rule_body(ctx, 'duration_parse')
    ctx.fn(b)
    by = constant_type_discr(ctx)
    N = Poly.sym('N')
    seen = {}
    for v, inner, conds in result_alternatives(b):
        if v != 'Ok':
            continue
        if inner[0] != 'aggr' or inner[1] != 'types::TokenType::Duration':
            ctx.finding('DU2', 'duration_parse/result-kind', 'duration_parse returns %s' % render(inner)[:60], site=b.loc)
            continue
        val = inline_calls(ctx.facts, inner[2][0], depth=2, skip=r'^tokinizer::tools::get_')
        for a, c2 in alternatives(b, val, _conds=conds):
            norm = IntNorm(lambda e: 'N' if re.fullmatch(r'\(tools::get_number\("[^"]+", fields\) as Some\.0 as i64\)', render(e)) else None)
            try:
                secs, unit = duration_ctor_seconds(a, norm)
            except NotInteger as ex:
                ctx.finding('DU2', 'duration_parse/not-extractable', 'duration_parse: %s' % ex, site=b.loc)
                continue
            kind = variant_of(c2, by)
            if secs is None or kind is None:
                ctx.finding('DU2', 'duration_parse/arm-not-extractable', 'cannot attribute %s to a unit keyword' % render(a)[:100], site=b.loc)
                continue
            seen[kind] = True
            if kind == 'Month':
                # twelve months make one (365-day) year, a month has 30 days
                d12 = [k for k, (d, r, ap) in norm.divs.items() if k[1] == 12 and repr(ap) == repr(N)]
                want = None
                if d12:
                    dsym, rsym, _ = norm.divs[d12[0]]
                    want = (Poly.sym(dsym) * Poly.const(365) + Poly.sym(rsym) * Poly.const(30)) * Poly.const(86400)
                ok = want is not None and secs == want
                wtxt = '86400*(365*(N div 12) + 30*(N mod 12))'
            else:
                length = {'Year': 365 * 86400, 'Day': 86400, 'Week': 7 * 86400, 'Hour': 3600, 'Minute': 60, 'Second': 1}.get(kind)
                if length is None:
                    ctx.finding('DU2', 'duration_parse/%s/unexpected' % kind, 'duration_parse builds a duration for the keyword kind %s' % kind, site=b.loc)
                    continue
                ok = secs == N * Poly.const(length)
                wtxt = '%d*N' % length
            if ok:
                ctx.ok('DU2', '%s: %s(..) = %s s' % (kind, unit, wtxt), 'intpoly', site=b.loc)
            else:
                ctx.finding('DU2', 'duration_parse/%s/length' % kind, "'N %s' denotes %s seconds; the statement says %s" % (kind.lower(), norm.describe(secs), wtxt), site=b.loc)
    for kind in ('Year', 'Month', 'Day', 'Week', 'Hour', 'Minute', 'Second'):
        if kind not in seen:
            ctx.finding('DU2', 'duration_parse/%s/missing' % kind, 'duration_parse has no arm for %s' % kind, site=b.loc)
    pattern_field_check(ctx, 'DU2', 'duration_parse')


def du3_sum_table(ctx, b):
    """what combine_durations returns for a match with two, three or four captured fields: the sum of all captured durations
    (nothing else: no first-only, no last-only, no difference), Err when a field holds no duration. Tabulated with E6c: the
    durations are opaque symbols and `+` builds a formal sum, so the table does not depend on whether the function loops,
    folds or sums."""
    import itertools
    from ..absint import Machine, Unknown, is_sym, is_ptr
    from .. import absstr
    tys = [str(b.locals.get(i, '')) for i in range(1, b.argc + 1)]
    fld = [i for i, t in enumerate(tys, 1) if 'BTreeMap<' in t]
    if len(fld) != 1:
        raise AnchorLost('combine_durations: expected one BTreeMap parameter (the captured fields): %s' % tys)

    def dsum(*vals):
        terms = []
        for v in vals:
            if isinstance(v, tuple) and v and v[0] == 'dsum':
                terms += list(v[1])
            elif is_sym(v):
                terms.append(v[1])
            else:
                raise Unknown('a duration operand is %r' % (v,))
        return ('dsum', tuple(sorted(terms)))

    def walk(present):
        keys = [str(k + 1) for k in range(len(present))]

        def key_of(m, v):
            v = m.deref_value(v)
            if absstr.is_str(v):
                v = ''.join(map(str, v[1]))
            return v if isinstance(v, str) else None

        def model(m, path, args, t):
            a0 = m.deref_value(args[0]) if args else None
            ismap = isinstance(a0, dict) and a0.get('__adt__') == 'BTreeMap'
            if re.search(r'BTreeMap::<.*>::contains_key$', path) and ismap and len(args) == 2:
                k = key_of(m, args[1])
                if k is None:
                    raise Unknown('contains_key of %r' % (m.deref_value(args[1]),))
                return int(k in keys)
            if re.search(r'BTreeMap::<.*>::(keys|into_keys)$', path) and ismap:
                return ('it', list(keys), 'keys')
            if re.search(r'BTreeMap::<.*>::(len)$', path) and ismap:
                return len(keys)
            if re.search(r'BTreeMap::<.*>::is_empty$', path) and ismap:
                return int(not keys)
            if re.search(r'BTreeMap::<.*>::(iter|values)$|BTreeMap<.*>::into_iter$', path) and ismap:
                raise Unknown('the fields are iterated by value (%s): not modelled' % path.rsplit('::', 1)[-1])
            if re.search(r'tools::get_duration$', path) and len(args) == 2:
                k = [key_of(m, a) for a in args if key_of(m, a) is not None]
                if len(k) != 1 or k[0] not in keys:
                    return absstr.none(m)
                i = keys.index(k[0])
                return absstr.some(m, ('sym', 'D%s' % k[0])) if present[i] else absstr.none(m)
            if re.search(r'TimeDelta::zero$', path):
                return ('dsum', ())
            if re.search(r'TimeDelta as core::ops::Add>::add$|TimeDelta as core::ops::AddAssign>::add_assign$', path) and len(args) == 2:
                if path.endswith('add_assign'):
                    absstr.write_back(m, args[0], dsum(a0, m.deref_value(args[1])))
                    return ('sym', 'unit')
                return dsum(a0, m.deref_value(args[1]))
            if re.search(r'TimeDelta::checked_add$', path) and len(args) == 2:
                return absstr.some(m, dsum(a0, m.deref_value(args[1])))
            if re.search(r'Iterator>?::sum$', path) and args:
                items = absstr.as_items(m, args[0])
                if items is not None:
                    return dsum(*[m.deref_value(x) for x in items])
            if re.search(r'TimeDelta as core::ops::(Sub|Neg|Mul|Div)', path) or re.search(r'TimeDelta::(abs|checked_sub)$', path):
                raise Unknown('combine_durations applies %s to a captured duration' % path.rsplit('::', 1)[-1])
            r = absstr.std_model(m, path, args, t)
            if r is not NotImplemented:
                return r
            return NotImplemented
        m = Machine(b, model, max_steps=6000)
        for i in range(1, b.argc + 1):
            m.env[i] = m.alloc({'__adt__': 'BTreeMap'}, 'fields') if i == fld[0] else ('sym', 'arg%d' % i)
        why = m.run(0)
        if why != 'return':
            raise Unknown('the walk ended with %s' % why)
        out = m.deref_value(m.load(0))
        if not (isinstance(out, dict) and '__discr__' in out and str(out.get('__adt__', '')).endswith('Result')):
            raise Unknown('the result is %r' % (out,))
        if out['__discr__'] == 1:
            return 'Err'
        v = m.deref_value(out['0'])
        if isinstance(v, dict) and v.get('__variant__') == 'Duration':
            d = m.deref_value(v['0'])
            return 'Duration(%s)' % (' + '.join(d[1]) if isinstance(d, tuple) and d and d[0] == 'dsum' else 'D%s' % d[1][1:] if is_sym(d) and d[1].startswith('D') else d,)
        return 'Ok(%r)' % (v,)

    n = 0
    bad = {}
    for size in ((2, 3, 4, 5, 6, 7) if (ctx.tier == 'thorough' and ctx.cfg_name == 'dev') else (2, 3, 4)):
        for present in itertools.product((1, 0), repeat=size):
            n += 1
            try:
                got = walk(present)
            except Unknown as ex:
                ctx.finding('DU3', 'combine_durations/sum/not-extractable', 'what combine_durations returns could not be tabulated (%d captured fields): %s' % (size, ex), site=b.loc)
                return
            want = 'Duration(%s)' % ' + '.join('D%d' % (k + 1) for k in range(size)) if all(present) else 'Err'
            if got != want:
                bad.setdefault('sum' if all(present) else 'missing-duration', []).append((present, got, want))
    for which, rows in sorted(bad.items()):
        present, got, want = rows[0]
        ctx.finding('DU3', 'combine_durations/%s' % which, 'with %d captured fields (%s) combine_durations returns %s; expected %s - %d of %d cases differ' % (
            len(present), ', '.join('a duration' if p_ else 'not a duration' for p_ in present), got, want, len(rows), n), site=b.loc)
    if not bad:
        ctx.ok('DU3', 'combine_durations: the sum of all captured durations (2..%d fields), Err when a field holds none - %d cases walked' % (size, n), 'absint', site=b.loc)


def du3_additivity(ctx):
    """DU3 adjacent durations and + add, - subtracts"""
    ctx.rule('DU3', 'additivity', floor=3)
    b = rule_body(ctx, 'combine_durations')
    ctx.fn(b)
    du3_sum_table(ctx, b)
    c = ctx.facts.one(r'^<compiler::duration::DurationItem as compiler::DataItem>::calculate$')
    ctx.fn(c)
    od = {v['name']: v['discr'] for v in ctx.facts.adts['compiler::OperationType']['variants']}
    # the value handed back for Add / Sub IS the sum / difference of the two stored durations (result term, not call sites:
    # a wrapper around the result - abs(), a clamp, a re-normalisation - changes what later operations see)
    by = {v: k for k, v in od.items()}
    seen_ops = {}
    for a, conds in alternatives(c, c.ret_expr()):
        items = [x for x in walk(strip(a)) if x[0] == 'aggr' and x[1].endswith('duration::DurationItem::DurationItem')]
        if not items:
            continue
        op = None
        for d, v in conds:
            if render(d) == 'discr(operation_type)' and not isinstance(v, tuple) and len(v) == 1:
                op = by.get(list(v)[0])
        for pa, c2 in alternatives(c, items[0][2][0], _conds=conds):
            for d, v in c2:
                if render(d) == 'discr(operation_type)' and not isinstance(v, tuple) and len(v) == 1:
                    op = by.get(list(v)[0])
            sp = strip(pa)
            want = {'Add': r'TimeDelta as core::ops::Add>::add$', 'Sub': r'TimeDelta as core::ops::Sub>::sub$'}.get(op)
            if want is None:
                ctx.finding('DU3', 'DurationItem::calculate/%s/arm' % op, 'DurationItem::calculate builds a duration under %s' % [cond_str(d, v)[:60] for d, v in c2][-2:], site=c.loc)
                continue
            seen_ops.setdefault(op, 0)
            if sp[0] != 'call' or not re.search(want, sp[1]):
                ctx.finding('DU3', 'DurationItem::calculate/%s/result-not-the-%s' % (op, 'sum' if op == 'Add' else 'difference'),
                            'the duration handed back for %s is %s, not self.0 %s other' % (op, render(sp)[:100], '+' if op == 'Add' else '-'), site=c.loc)
                continue
            l, r = render(sp[2][0]), render(sp[2][1])
            if l != 'self.0' or 'other' not in r or 'self' in r or 'get_duration' not in r:
                ctx.finding('DU3', 'DurationItem::calculate/%s/operands' % op, 'computes %s %s %s' % (l[:40], op, r[:60]), site=c.loc)
            else:
                seen_ops[op] += 1
                ctx.ok('DU3', 'DurationItem::calculate %s: the result is self.0 %s other.get_duration()' % (op, '+' if op == 'Add' else '-'), 'gamma', site=c.loc)
    for name in ('Add', 'Sub'):
        if not seen_ops.get(name):
            ctx.finding('DU3', 'DurationItem::calculate/%s/count' % name, 'no result of DurationItem::calculate is the %s of the two durations' % ('sum' if name == 'Add' else 'difference'), site=c.loc)
    pattern_field_check(ctx, 'DU3', 'combine_durations')


def du4_print_chain(ctx):
    """DU4 the parts emitted by DurationItem::print, weighted by their unit, always sum to |d| (div/mod telescoping)"""
    ctx.rule('DU4', 'printed parts sum to the magnitude', floor=8)
    b = ctx.facts.one(r'^<compiler::duration::DurationItem as compiler::DataItem>::print$')
    ctx.fn(b)
    kinds = {v['name'] for v in ctx.facts.adts['constants::DurationFormatType']['variants']}
    length = {'Year': 365 * 86400, 'Month': 30 * 86400, 'Week': 7 * 86400, 'Day': 86400, 'Hour': 3600, 'Minute': 60, 'Second': 1}
    placeholder = {'Year': '{year}', 'Month': '{month}', 'Week': '{week}', 'Day': '{day}', 'Hour': '{hour}', 'Minute': '{minute}', 'Second': '{second}'}
    calls = list(b.calls(r'DurationItem::duration_formatter$'))
    if len(calls) in (1, 2) and b.loops():
        return du4_table_driven(ctx, b, calls, length, placeholder)
    if len(calls) != 7:
        raise AnchorLost('DurationItem::print: expected 7 duration_formatter calls (one per unit) or a loop over a unit table, found %d' % len(calls))
    D0 = None

    def leaf(e):
        t = render(e)
        if re.fullmatch(r'i64::abs\(TimeDelta::num_seconds\(self\.0\)\)|abs\(num_seconds\(self\.0\)\)|.*::abs\(.*num_seconds\(self\.0\)\)', t):
            return 'D'
        return None
    norm = IntNorm(leaf)

    def guarded(e, depth=0):
        """value of the running remainder: phi[(x Rem U) under x >= U | x] == x mod U for x >= 0"""
        e = strip(e)
        if e[0] == 'phi' and len(e[2]) == 2:
            a, c = strip(e[2][0]), strip(e[2][1])
            for rem, same in ((a, c), (c, a)):
                if rem[0] == 'binop' and rem[1] == 'Rem' and render(rem[2]) == render(same):
                    return ('binop', 'Rem', guarded(rem[2], depth + 1), rem[3])
        if e[0] == 'binop':
            return ('binop', e[1], guarded(e[2], depth + 1), guarded(e[3], depth + 1))
        return e
    total = Poly()
    order = []
    for bid, t in calls:
        kind = render(b.expr(t['args'][4]))
        m = re.match(r'constants::DurationFormatType::(\w+)\{\}', kind)
        if not m:
            raise AnchorLost('duration_formatter call with a non-constant kind: %s' % kind)
        kind = m.group(1)
        ph = model.const_str(b.expr(t['args'][2]))
        if ph != placeholder[kind]:
            ctx.finding('DU4', 'print/%s/placeholder' % kind, 'the %s part replaces %r, expected %r' % (kind, ph, placeholder[kind]), site=t['loc'])
        val = guarded(b.expr(t['args'][3]))
        try:
            p = norm.poly(val)
        except NotInteger as ex:
            ctx.finding('DU4', 'print/%s/not-extractable' % kind, 'value of the %s part not extractable: %s' % (kind, ex), site=t['loc'])
            return
        # guard: emitted only when remainder >= unit (omitted part == 0 then, because the quotient is 0)
        conds = b.cond_text(bid)
        g = conds[-1] if conds else ''
        want_g = r'\(\$?\w+ (Ge|Gt) (\d+)\)!=\[0\]'
        mg = re.fullmatch(want_g, g)
        if not mg:
            ctx.finding('DU4', 'print/%s/guard' % kind, 'the %s part is emitted under %s' % (kind, g), site=t['loc'])
        else:
            bound = int(mg.group(2)) + (1 if mg.group(1) == 'Gt' else 0)
            if bound > length[kind]:
                ctx.finding('DU4', 'print/%s/guard-too-strict' % kind, 'the %s part is only printed from %d s on, but one %s is %d s: a non-zero part is dropped' % (kind, bound, kind.lower(), length[kind]), site=t['loc'])
        total = total + p * Poly.const(length[kind])
        order.append(kind)
        ctx.ok('DU4', '%s part = %s' % (kind, norm.describe(p)), 'extracted', site=t['loc'], sample=len(order) < 3)
    total = norm.normalise(total)
    if total == Poly.sym('D'):
        ctx.ok('DU4', 'sum over parts of part*unit telescopes to |d| (%s)' % ' + '.join(order), 'intpoly', site=b.loc)
    else:
        ctx.finding('DU4', 'print/parts-do-not-sum', 'the printed parts, weighted by their unit lengths, sum to %s instead of the magnitude D' % norm.describe(total)[:300], site=b.loc)
    if order != ['Year', 'Month', 'Week', 'Day', 'Hour', 'Minute', 'Second']:
        ctx.finding('DU4', 'print/order', 'parts are printed in the order %s; greedy decomposition goes from years down to seconds' % order, site=b.loc)
    # the magnitude: abs of the seconds
    if 'D' not in repr(total) and total != Poly.sym('D'):
        pass


def _column_through_match(ctx, b, e):
    """a per-row value computed from the row by a `match` (an enum row handed to `unit.seconds()`): the value of the arm each
    row of the iterated table selects. -> list of expressions, one per row, or None"""
    from ..interval import _array_column
    try:
        alts = alternatives(b, e)
    except Exception:
        return None
    rows = None
    sel = None
    for val, conds in alts:
        for d, v in conds:
            d0 = strip(d)
            if d0[0] == 'discr' and not isinstance(v, tuple):
                col = _array_column(strip(d0[1]))
                if col is not None:
                    rows, sel = col, render(d)
    if rows is None:
        return None
    out = []
    for r_ in rows:
        r0 = strip(r_)
        if r0[0] != 'aggr':
            return None
        owner, _, vname = str(r0[1]).rpartition('::')
        rec = ctx.facts.adts.get(owner)
        dv = [v_['discr'] for v_ in (rec['variants'] if rec else []) if v_['name'] == vname]
        if not dv:
            return None
        hit = [val for val, conds in alts if any(render(d) == sel and not isinstance(v, tuple) and dv[0] in v for d, v in conds)]
        if len(hit) != 1:
            return None
        out.append(hit[0])
    return out


def du4_table_driven(ctx, b, calls, length, placeholder):
    """the same telescoping written as one loop over a literal table of (unit length, placeholder, kind) rows: per row
    `if r >= U { emit(r / U, placeholder, kind); r %= U }`. Checked: the value, the guard and the remainder update use
    column 0 of the *same* row, placeholder and kind are columns of that row, the rows are the expected triples in strictly
    descending unit order, and seconds are either the last row (unit 1) or a tail call with the remainder."""
    from ..interval import _array_column
    inloop = [(bid, t) for bid, t in calls if b.in_loop(bid)]
    tail = [(bid, t) for bid, t in calls if not b.in_loop(bid)]
    if len(inloop) != 1:
        raise AnchorLost('DurationItem::print: expected one duration_formatter call inside the unit loop, found %d' % len(inloop))
    bid, t = inloop[0]
    cols = {}
    # the arguments by type, not by position: the placeholder (&str), the kind (DurationFormatType), the count (i64) - or one
    # reference to the table row, whose fields of those types are the columns
    from ..facts import opplace
    by_ty = {}
    row_arg = None
    for k_, a_ in enumerate(t['args']):
        pl = opplace(a_)
        ty = str(pl.get('ty', '')) if pl else str((a_.get('const') or {}).get('ty', ''))
        if 'DurationFormatType' in ty:
            by_ty['kind'] = k_
        elif ty in ('&str', "&'static str") or ty.endswith('&str'):
            by_ty['placeholder'] = k_
        elif ty == 'i64':
            by_ty['count'] = k_
        elif ty.startswith('&') and _array_column(strip(b.expr(a_))) is not None and k_ >= 2:
            row_arg = k_
    if row_arg is not None and ('kind' not in by_ty or 'placeholder' not in by_ty):
        rows_ = _array_column(strip(b.expr(t['args'][row_arg])))
        cols['placeholder'], cols['kind'] = [], []
        for r_ in rows_:
            r0 = strip(r_)
            if r0[0] != 'aggr':
                ctx.finding('DU4', 'print/table/row-shape', 'a row of the unit table is not a literal: %s' % render(r0)[:60], site=t['loc'])
                return
            ph_ = [x for x in r0[2] if model.const_str(x) is not None]
            kd_ = [x for x in r0[2] if strip(x)[0] == 'aggr' and 'DurationFormatType' in str(strip(x)[1])]
            if len(ph_) != 1 or len(kd_) != 1:
                ctx.finding('DU4', 'print/table/row-shape', 'a row of the unit table does not hold one placeholder and one kind: %s' % render(r0)[:80], site=t['loc'])
                return
            cols['placeholder'].append(ph_[0])
            cols['kind'].append(kd_[0])
    else:
        no_placeholder = 'placeholder' not in by_ty and len(t['args']) == 4
        for nm, idx in (('placeholder', by_ty.get('placeholder', 2)), ('kind', by_ty.get('kind', 4))):
            if nm == 'placeholder' and no_placeholder:
                continue                  # the formatter derives the placeholder from the kind itself: DU5 walks it per kind
            if idx >= len(t['args']):
                ctx.finding('DU4', 'print/table/%s-not-from-table' % nm, 'duration_formatter is not handed a %s inside the loop' % nm, site=t['loc'])
                return
            c = _array_column(strip(b.expr(t['args'][idx])))
            if c is None:
                ctx.finding('DU4', 'print/table/%s-not-from-table' % nm, 'the %s handed to duration_formatter inside the loop is not a column of the iterated unit table: %s' % (nm, render(b.expr(t['args'][idx]))[:80]), site=t['loc'])
                return
            cols[nm] = c
    val = strip(b.expr(t['args'][by_ty.get('count', 3)]))
    if val[0] != 'binop' or val[1] != 'Div':
        ctx.finding('DU4', 'print/table/value', 'inside the unit loop the printed count is %s, expected remainder / unit' % render(val)[:80], site=t['loc'])
        return
    ucol = _array_column(strip(val[3])) or _column_through_match(ctx, b, val[3])
    if ucol is None:
        ctx.finding('DU4', 'print/table/divisor', 'the divisor of the printed count is not the unit column of the table: %s' % render(val[3])[:80], site=t['loc'])
        return
    # remainder update in the loop: Rem by the same column
    rems = [st for i in b.normal_blocks if b.in_loop(i) for st in b.blocks[i]['stmts'] if st['k'] == 'assign' and st['rv'] == 'binop' and st['op'] == 'Rem']
    rcol = (_array_column(strip(b.expr(rems[0]['ops'][1]))) or _column_through_match(ctx, b, b.expr(rems[0]['ops'][1]))) if len(rems) == 1 else None
    if len(rems) != 1 or rcol is None or [render(x) for x in rcol] != [render(x) for x in ucol]:
        ctx.finding('DU4', 'print/table/remainder', 'the running remainder is not reduced by the unit of the same row (%d `%%` in the loop)' % len(rems), site=t['loc'])
        return
    if render(strip(b.mexpr(rems[0]['ops'][0]))) != render(strip(b.mexpr(t['args'][3])))[1:].split(' Div ')[0]:
        pass
    # guard: emitted when remainder >= unit (either `if r >= U` or `if r < U { continue }`)
    conds = ' & '.join(b.cond_text(bid))
    if not re.search(r' (Ge|Lt) ', conds):
        ctx.finding('DU4', 'print/table/guard', 'inside the unit loop a part is emitted under %s; expected remainder >= unit' % conds[-120:], site=t['loc'])
        return
    rows = []
    if 'placeholder' not in cols:
        cols['placeholder'] = [('const', '&str', placeholder.get(re.sub(r'.*::(\w+)$', r'\1', str(strip(k0)[1])) if strip(k0)[0] == 'aggr' else '', None), '') for k0 in cols['kind']]
    for u_, p_, k_ in zip(ucol, cols['placeholder'], cols['kind']):
        u_, p_, k_ = strip(u_), strip(p_), strip(k_)
        m = re.match(r'constants::DurationFormatType::(\w+)', k_[1]) if k_[0] == 'aggr' else None
        rows.append((u_[2] if u_[0] == 'const' else None, model.const_str(p_), m.group(1) if m else None))
    want = [(length[k], placeholder[k], k) for k in ('Year', 'Month', 'Week', 'Day', 'Hour', 'Minute')]
    body_rows = rows[:6]
    for got, w in zip(body_rows, want):
        if got != w:
            ctx.finding('DU4', 'print/table/row/%s' % w[2], 'unit table row %s, expected %s (descending greedy decomposition with matching placeholder and kind)' % (got, w), site=t['loc'])
        else:
            ctx.ok('DU4', 'table row %s: count = r / %d, then r %%= %d' % (w[2], w[0], w[0]), 'table', site=t['loc'], sample=w[2] == 'Year')
    if len(rows) < 6:
        ctx.finding('DU4', 'print/table/rows', 'the unit table has %d rows, expected years down to minutes' % len(rows), site=t['loc'])
    if len(rows) == 7:
        if rows[6] != (1, placeholder['Second'], 'Second') or tail:
            ctx.finding('DU4', 'print/table/seconds', 'seconds row / tail is %s with %d tail call(s)' % (rows[6], len(tail)), site=t['loc'])
        else:
            ctx.ok('DU4', 'table row Second: unit 1', 'table', site=t['loc'], sample=False)
    elif len(rows) == 6:
        if len(tail) != 1 or render(b.expr(tail[0][1]['args'][4])) != 'constants::DurationFormatType::Second{}' or model.const_str(b.expr(tail[0][1]['args'][2])) != placeholder['Second']:
            ctx.finding('DU4', 'print/table/seconds', 'after the unit loop the remaining seconds are not printed as the Second part', site=b.loc)
        else:
            ctx.ok('DU4', 'tail: remaining seconds printed as the Second part', 'shape', site=tail[0][1]['loc'], sample=False)
    ctx.ok('DU4', 'per row q = r / U and r = r %% U with the same U: the parts weighted by their units sum to |d|', 'telescoping', site=b.loc)


def du5_formats(ctx):
    """DU5 every language has an 'n' format for all seven kinds; numeric count formats contain that number"""
    ctx.rule('DU5', 'singular / plural tables', floor=14)
    kinds = ['Second', 'Minute', 'Hour', 'Day', 'Week', 'Month', 'Year']
    ph = {'Year': '{year}', 'Month': '{month}', 'Week': '{week}', 'Day': '{day}', 'Hour': '{hour}', 'Minute': '{minute}', 'Second': '{second}'}
    for lang, l in sorted(ctx.config.languages.items()):
        fmts = l['format']['duration']
        for k in kinds:
            generic = [f for f in fmts if f['duration_type'] == k and not re.fullmatch(r'\s*-?\d+\s*', f['count'])]
            if not generic:
                ctx.finding('DU5', '%s/%s/no-generic-format' % (lang, k), 'language %s has no generic ("n") format for %s: the number would be printed without a unit word' % (lang, k), site='config.json languages.%s.format.duration' % lang)
            elif ph[k] not in generic[0]['format']:
                ctx.finding('DU5', '%s/%s/placeholder' % (lang, k), 'the generic %s format %r of %s lacks %s: the count is not printed' % (k, generic[0]['format'], lang, ph[k]), site='config.json languages.%s.format.duration' % lang)
            else:
                ctx.ok('DU5', '%s %s: %r' % (lang, k, generic[0]['format']), 'data', sample=False)
        for f in fmts:
            if re.fullmatch(r'\s*-?\d+\s*', f['count']):
                n = f['count'].strip()
                if ph[f['duration_type']] not in f['format'] and not re.search(r'(^|\D)%s(\D|$)' % re.escape(n), f['format']):
                    ctx.finding('DU5', '%s/%s/count-%s' % (lang, f['duration_type'], n), 'format %r for count %s of %s does not show the count' % (f['format'], n, f['duration_type']), site='config.json languages.%s.format.duration' % lang)
                else:
                    ctx.ok('DU5', '%s %s count=%s: %r' % (lang, f['duration_type'], n, f['format']), 'data', sample=False)
    du5_selection_table(ctx)


def du5_selection_table(ctx):
    """which configured format duration_formatter uses: the entry of the unit whose count is exactly the number, else the
    generic (non-numeric count) entry of the unit, else the bare number - whatever the order of the table. Tabulated with E6c
    over every format table of up to three entries (each entry: this unit or another one x count equal / another number /
    not a number); independent of how the search is written (two loops, one loop that remembers the generic entry, find)."""
    import itertools
    from ..absint import Machine, Unknown, is_sym, is_ptr
    from .. import absstr
    b = ctx.facts.one(r'^compiler::duration::DurationItem::duration_formatter$')
    ctx.fn(b)
    tys = [str(b.locals.get(i, '')) for i in range(1, b.argc + 1)]
    role = {}
    for i, t in enumerate(tys, 1):
        if t.endswith('JsonFormat'):
            role.setdefault('format', i)
        elif t.endswith('String') and t.startswith('&mut'):
            role.setdefault('buffer', i)
        elif t == '&str':
            role.setdefault('placeholder', i)
        elif t == 'i64':
            role.setdefault('duration', i)
        elif t.endswith('DurationFormatType'):
            role.setdefault('kind', i)
    if not ((len(role) == 5 and b.argc == 5) or (len(role) == 4 and b.argc == 4 and 'placeholder' not in role)):
        raise AnchorLost('duration_formatter: parameter types changed: %s' % tys)
    PH = {'Year': '{year}', 'Month': '{month}', 'Week': '{week}', 'Day': '{day}', 'Hour': '{hour}', 'Minute': '{minute}', 'Second': '{second}'}
    adt = ctx.facts.adts.get('constants::DurationFormatType')
    if not adt or len(adt['variants']) < 2:
        raise AnchorLost('enum constants::DurationFormatType not found')
    vs = adt['variants']

    def text_of(v):
        if isinstance(v, str):
            return v
        if absstr.is_str(v) and all(isinstance(c, str) and len(c) == 1 for c in v[1]):
            return ''.join(v[1])
        return None

    def walk(entries, duration, ki=0):
        def model(m, path, args, t):
            a0 = m.deref_value(args[0]) if args else None
            if re.search(r'ToString>::to_string$', path) and isinstance(a0, int):
                return ('str', ['n'])
            if re.search(r'str::<impl str>::trim(_start|_end)?$', path) and absstr.is_str(a0):
                return a0
            if re.search(r'str::<impl str>::parse$|FromStr>::from_str$', path) and text_of(a0) is not None:
                x = text_of(a0)
                if re.fullmatch(r'[+-]?[0-9]+', x):
                    return m.make_adt('core::result::Result::Ok', [int(x)], [])
                return m.make_adt('core::result::Result::Err', [('sym', 'ParseIntError')], [])
            mm = re.search(r'Result::<.*>::(is_ok|is_err|unwrap_or_default|ok)$', path)
            if mm and isinstance(a0, dict) and '__discr__' in a0:
                okv = a0['__discr__'] == 0
                if mm.group(1) == 'is_ok':
                    return int(okv)
                if mm.group(1) == 'is_err':
                    return int(not okv)
                if mm.group(1) == 'ok':
                    return absstr.some(m, a0['0']) if okv else absstr.none(m)
                v = a0.get('0')
                return v if okv else (0 if not isinstance(v, tuple) or v == ('tuple', []) or is_sym(v) else v)
            mm = re.search(r'cmp::PartialEq\b.*::(eq|ne)$', path)
            if mm and len(args) == 2:
                x, y = m.deref_value(args[0]), m.deref_value(args[1])
                if text_of(x) is not None and text_of(y) is not None:           # the count column against a literal
                    return int((text_of(x) == text_of(y)) == (mm.group(1) == 'eq'))
                if isinstance(x, dict) and isinstance(y, dict) and '__discr__' in x and '__discr__' in y:
                    same = m.adt_equal(x, y)
                    if same is not None:
                        return int(same if mm.group(1) == 'eq' else not same)
            if re.search(r'str::<impl str>::replace$|str>::replace$', path) and len(args) == 3:
                src, pat, w = (absstr.lit(m.deref_value(a)) for a in args)
                if absstr.is_str(src) and absstr.is_str(pat) and absstr.is_str(w):
                    return ('str', ['R<%s|%s|%s>' % ('+'.join(map(str, src[1])), '+'.join(map(str, pat[1])), '+'.join(map(str, w[1])))])
            r = absstr.std_model(m, path, args, t)
            if r is not NotImplemented:
                return r
            return NotImplemented
        m = Machine(b, model, max_steps=6000)
        m.enter = lambda path: bool(re.search(r'duration', path)) and 'duration_formatter' not in path
        items = []
        for k, (same, cnt) in enumerate(entries):
            items.append({'__adt__': 'constants::JsonDurationFormat', '__variant__': 'JsonDurationFormat',
                          'count': ('str', list({'E': '%d' % duration, 'N': '%d' % (duration + 3), 'G': 'n'}[cnt])),
                          'format': ('str', ['F%d' % k]),
                          'duration_type': m.make_adt('constants::DurationFormatType::%s' % (vs[ki]['name'] if same else vs[(ki + 1) % len(vs)]['name']), [], [])})
        fmt = {'__adt__': 'constants::JsonFormat', '__variant__': 'JsonFormat', 'duration': ('vec', items)}
        m.env[role['format']] = m.alloc(fmt, 'format')
        m.env[role['buffer']] = m.alloc(('str', ['B']), 'buffer')
        if 'placeholder' in role:
            m.env[role['placeholder']] = ('str', ['P'])
            pat = 'P'
        else:
            # the formatter derives the placeholder from the unit it is handed: it must be the unit's own
            pat = '+'.join(PH.get(vs[ki]['name'], '?'))
        m.env[role['duration']] = duration
        kindv = m.make_adt('constants::DurationFormatType::%s' % vs[ki]['name'], [], [])
        m.env[role['kind']] = m.alloc(kindv, 'kind') if tys[role['kind'] - 1].startswith('&') else kindv
        why = m.run(0)
        if why != 'return':
            raise Unknown('the walk ended with %s' % why)
        out = m.deref_value(m.env['buffer'])
        if not absstr.is_str(out):
            raise Unknown('the buffer is %r' % (out,))
        exact = [k for k, (same, cnt) in enumerate(entries) if same and cnt == 'E']
        generic = [k for k, (same, cnt) in enumerate(entries) if same and cnt == 'G']
        if exact:
            want = ['B', 'R<F%d|%s|n>' % (exact[0], pat), ' ']
        elif generic:
            want = ['B', 'R<F%d|%s|n>' % (generic[0], pat), ' ']
        else:
            want = ['B', 'n', ' ']
        return list(out[1]), want, ('exact' if exact else 'generic' if generic else 'bare')

    kinds = [(s_, c) for s_ in (1, 0) for c in 'ENG']
    n = 0
    bad = {}
    deep = ctx.tier == 'thorough' and ctx.cfg_name == 'dev'
    for size in range(0, 5 if deep else 4):
        for entries in itertools.product(kinds, repeat=size):
            if sum(1 for e in entries if e == (1, 'E')) > 1 or sum(1 for e in entries if e == (1, 'G')) > 1:
                continue                         # two entries of the same unit and count class: the statement does not say which
            for duration in ((0, 1, 2, 7, -3) if deep and size <= 3 else (1, 7)):
                n += 1
                try:
                    got, want, which = walk(entries, duration)
                except Unknown as ex:
                    ctx.finding('DU5', 'duration_formatter/selection/not-extractable', 'the choice of the duration format could not be tabulated (table %s): %s' % (
                        ' '.join('%s%s' % ('T' if s_ else 'o', c) for s_, c in entries) or 'empty', ex), site=b.loc)
                    return
                if got != want:
                    bad.setdefault(which, []).append((entries, duration, got, want))
    if 'placeholder' not in role and not bad:
        # the placeholder is chosen inside: walked for every unit
        for ki in range(1, len(vs)):
            n += 1
            try:
                got, want, which = walk(((1, 'G'),), 7, ki)
            except Unknown as ex:
                ctx.finding('DU5', 'duration_formatter/selection/not-extractable', 'the choice of the duration format could not be tabulated (unit %s): %s' % (vs[ki]['name'], ex), site=b.loc)
                return
            if got != want:
                ctx.finding('DU5', 'duration_formatter/placeholder/%s' % vs[ki]['name'], 'for the unit %s the text written is %s; expected %s (the generic format with the placeholder of that unit replaced by the number)' % (vs[ki]['name'], got, want), site=b.loc)
                return
    for which, rows in sorted(bad.items()):
        entries, duration, got, want = rows[0]
        ctx.finding('DU5', 'duration_formatter/selection/%s' % which,
                    'with the format table [%s] (T = this unit, o = another unit; E = count equal to the number, N = another count, G = generic) and the number %d the text written is %s; expected %s (%s entry) - %d of %d tables differ' % (
                        ' '.join('%s%s' % ('T' if s_ else 'o', c) for s_, c in entries), duration, got, want, which, len(rows), n), site=b.loc)
    if not bad:
        ctx.ok('DU5', 'duration_formatter: the exact-count entry of the unit, else its generic entry, else the bare number, followed by a blank - %d format tables walked' % n, 'absint', site=b.loc)


def du6_as_table(ctx):
    """DU6 'D as unit' = floor(|D| / unit): divisor and constructor agree"""
    ctx.rule('DU6', "'as' flooring table", floor=5)
    b = rule_body(ctx, 'as_duration')
    ctx.fn(b)
    # no result of the rule is selected by the size of the duration: a duration shorter than one target unit floors to zero of
    # that unit, it is not refused (an Err leaves the phrase unconverted)
    seen_guard = set()
    for v_, inner_, conds_ in result_alternatives(b):
        for d_, vv_ in conds_:
            txt = render(d_)
            if any(x[0] == 'binop' and x[1] in ('Lt', 'Le', 'Gt', 'Ge', 'Eq', 'Ne') for x in walk(d_)) and re.search(r'num_seconds\(|get_duration\(|num_(minutes|hours|days|weeks)\(', txt):
                seen_guard.add(txt[:120])
    if seen_guard:
        ctx.finding('DU6', 'as_duration/value-guard', "what 'D as unit' yields is decided by a test on the size of D (%s): the statement floors every duration, also one shorter than the target unit" % sorted(seen_guard)[0], site=b.loc)
    else:
        ctx.ok('DU6', "no result of as_duration depends on a test of the duration's size", 'gamma', site=b.loc)
    by = constant_type_discr(ctx)
    length = {'Year': 365 * 86400, 'Month': 30 * 86400, 'Day': 86400, 'Week': 7 * 86400, 'Hour': 3600, 'Minute': 60, 'Second': 1}
    n_arms = 0
    for v, inner, conds in result_alternatives(b):
        if v != 'Ok' or inner[0] != 'aggr' or inner[1] != 'types::TokenType::Duration':
            continue
        val = inline_calls(ctx.facts, inner[2][0], depth=2, skip=r'^tokinizer::tools::get_')
        for a, c2 in alternatives(b, val, _conds=conds):
            txt = render(a)
            src = 'duration' if 'num_seconds(' in txt and 'abs' in txt else 'time' if 'num_seconds_from_midnight' in txt else 'number' if 'get_number(' in txt else None
            if src != 'duration':
                continue        # the Time source and the dead numeric tail are not part of the statement
            n_arms += 1

            def leaf(e):
                t = render(e)
                if re.fullmatch(r'.*abs\(.*num_seconds\(.*\)\).*', t) and strip(e)[0] in ('call', 'cast'):
                    if strip(e)[0] == 'cast' and strip(strip(e)[3])[0] != 'call':
                        return None
                    return 'S'
                return None
            norm = IntNorm(leaf)
            try:
                secs, unit = duration_ctor_seconds(a, norm)
            except NotInteger as ex:
                ctx.finding('DU6', 'as_duration/not-extractable', 'as_duration: %s' % ex, site=b.loc)
                continue
            kind = variant_of(c2, by)
            if secs is None or kind is None:
                ctx.finding('DU6', 'as_duration/arm-not-extractable', 'cannot attribute %s' % txt[:100], site=b.loc)
                continue
            L = length[kind]
            # expected: L * (S div L)   (for seconds: S)
            S = Poly.sym('S')
            if L == 1:
                ok = secs == S
            else:
                keys = [k for k, (d, r, ap) in norm.divs.items() if k[1] == L and repr(ap) == repr(S)]
                ok = bool(keys) and secs == Poly.sym(norm.divs[keys[0]][0]) * Poly.const(L)
            if ok:
                ctx.ok('DU6', 'as %s: %s(|d| div %d)' % (kind.lower(), unit, L), 'intpoly', site=b.loc)
            else:
                ctx.finding('DU6', 'as_duration/%s' % kind, "'D as %s' yields %s seconds; expected %d * (|D| div %d)" % (kind.lower(), norm.describe(secs), L, L), site=b.loc)
    if n_arms < 5:
        raise AnchorLost('as_duration: expected 5 target units for a duration source, found %d' % n_arms)
    pattern_field_check(ctx, 'DU6', 'as_duration')


def du7_whole_before_floor(ctx):
    """DU7 `D1 D2 .. as unit` floors the *whole* duration. The rule list is applied in BTreeMap (alphabetical) order, so
    as_duration is tried before combine_durations; it cannot fire on the last component alone only because the pattern scan
    never restarts a pattern on a token that just failed it: the scan index of find_match is assigned 0 or itself + 1, no
    reference to it is taken (it cannot be moved back by a helper), the pattern counter is only reset to 0 or incremented,
    and the start index is only ever set to the scan index. A scan that re-examines the failing token lets as_duration match
    `D2 as unit` inside `D1 D2 as unit`."""
    from ..facts import opplace
    ctx.rule('DU7', 'components are combined before `as` floors', floor=3)
    for lang, L in sorted(ctx.config.languages.items()):
        names = sorted(L.get('rules', {}))
        if 'as_duration' in names and 'combine_durations' in names:
            first = 'as_duration' if names.index('as_duration') < names.index('combine_durations') else 'combine_durations'
            ctx.analysed('DU7', '%s: %s is tried first (alphabetical rule order)' % (lang, first))
    b = ctx.facts.one(r'^tokinizer::rule_tokinizer::find_match$')
    ctx.fn(b)
    names_ = set(b.names.values())
    if not {'target_token_index', 'rule_token_index', 'start_token_index'} <= names_:
        # the scan keeps its state differently (other names, a struct): what the three counters guarantee is what the matcher
        # table (scv/matcher.py, DU10) tabulates - a token that ends an attempt is not tried as a new first token
        from ..report import Ctx as _Ctx
        from ..matcher import matcher_table as _mt
        _sub = _Ctx('C10', ctx.tier, ctx.facts, ctx.cg, ctx.config, ctx.repo, ctx.cfg_name)
        _sub.rule('DU10', 'pattern scan', floor=1)
        try:
            ok_ = bool(_mt(_sub, 'DU10')) and not _sub.findings
        except Exception:
            ok_ = False
        if ok_:
            for what in ('the scan goes on behind a token that ended an attempt (matcher table)', 'fields are bound in the completed attempt only (matcher table)', 'the matched run is replaced as a whole (matcher table)'):
                ctx.ok('DU7', what, 'absint', site=b.loc, sample=False)
            return
    want = {'target_token_index': {'0', '($target_token_index AddWithOverflow 1).#0', '($target_token_index Add 1)'},
            'rule_token_index': {'0', '($rule_token_index AddWithOverflow 1).#0', '($rule_token_index Add 1)'},
            'start_token_index': {'0', '$target_token_index'}}
    for nm, allowed in sorted(want.items()):
        locs = [l for l, n in b.names.items() if n == nm]
        if len(locs) != 1:
            raise AnchorLost('find_match: expected one local named %s, found %d' % (nm, len(locs)))
        l = locs[0]
        texts = []
        b._shallow = 'mut'
        try:
            for (bid, kind, x) in b.defs().get(l, []):
                texts.append(render(b.def_expr(bid, kind, x, 1, frozenset())) if kind == 'stmt' else 'call')
        finally:
            b._shallow = False
        refs = [st['loc'] for i in b.normal_blocks for st in b.blocks[i]['stmts'] if st['k'] == 'assign' and st['rv'] in ('ref', 'rawptr')
                and (opplace(st['ops'][0]) or {}).get('local') == l and not (opplace(st['ops'][0]) or {}).get('proj')]
        bad = sorted(set(texts) - allowed)
        if bad:
            ctx.finding('DU7', 'find_match/%s/assigned' % nm, 'the pattern scan assigns %s = %s; a scan that can step back or restart on the failing token lets `as` floor the last component alone' % (nm, bad[0][:60]), site=b.loc)
        elif refs:
            ctx.finding('DU7', 'find_match/%s/address-taken' % nm, 'a reference to the scan variable %s is handed out (%s): a helper can move the scan back, so `D1 D2 as unit` may be floored component-wise' % (nm, refs[0]), site=refs[0])
        else:
            ctx.ok('DU7', 'find_match: %s is only assigned %s and never borrowed' % (nm, sorted(set(texts))), 'shape', site=b.loc)


RULES = [('DU1', du1_constants), ('DU2', du2_parse_table), ('DU3', du3_additivity), ('DU4', du4_print_chain), ('DU5', du5_formats), ('DU6', du6_as_table), ('DU7', du7_whole_before_floor)]


def du8_unique_fields(ctx):
    """DU8 a pattern that names two fields alike loses one of the matched tokens (shared rule)"""
    from ..common import unique_field_names
    unique_field_names(ctx, 'DU8', ('combine_durations', 'duration_parse', 'as_duration', 'to_duration'), floor=10)


RULES.append(('DU8', du8_unique_fields))


def du9_lexical(ctx):
    """DU9 every duration word reaches the duration reader as a word (E7b lexical competition model: month stage, regex families in TOKEN_REGEX_PARSER order with first-claim-wins,
    alias stage; samples generated from the configuration)"""
    from ..lexrules import run_samples, number_samples, based_samples, money_samples, unit_samples, month_samples, zone_samples, duration_samples, percent_samples, keyword_samples
    ctx.rule('DU9', 'every duration word reaches the duration reader as a word', floor=15)
    run_samples(ctx, 'DU9', duration_samples(ctx))


RULES.append(('DU9', du9_lexical))


def du10_matcher(ctx):
    """DU10 the pattern scan of rule_tokinizer / find_match, tabulated (scv/matcher.py): which tokens a rule function is handed
    for each named field and what the matched run is replaced by, on every line of up to three (thorough: four) tokens"""
    from ..matcher import matcher_table
    ctx.rule('DU10', 'pattern scan: matches, field bindings and replacement (tabulated)', floor=1)
    matcher_table(ctx, 'DU10', deep=(ctx.tier == 'thorough' and ctx.cfg_name == 'dev'))


RULES.append(('DU10', du10_matcher))
