"""C16 - Blanks, comments and letter case of keywords never change a value.

W1 case normalisation for the keyword classes the statement names: every comparison on a Text / Symbol / Group
   payload lower-cases both sides; the currency, month, zone, alias and variable-name lookups normalise the user's
   text and their tables are stored in the normalised case (code + data).
W2 noise tokens: comment and whitespace parsers claim exactly group 0 of their own match, type-less; cleanup keeps
   typed tokens only; type-less tokens never reach the parser.
W3 the comment parser claims its span before any other token producer (stage / registry order).
W4 a claimed span cannot be re-tokenised: the collision predicate of add_token_location rejects every interval
   ordering that shares a byte (finite enumeration).
W5 blanks: the whitespace regex is exactly one-or-more blanks; pattern matching walks typed tokens only.
Not decided: invariance under extra blanks for all lines (regexes with optional blanks).
"""
import re

from ..facts import render, strip, walk, fn_key, AnchorLost, resolve_elements
from ..common import check_case_insensitive_compares
from ..units import Origins
from .. import model
from .C03 import v4_keys
from .C17 import collision_table, NAMED


def _has_call(e, rx):   # existential; the keyword rules use _always_through (universal)
    return any(x[0] == 'call' and re.search(rx, x[1]) for x in walk(e))


from ..common import always_through as _always_through   # noqa: E402


def _fn_item(e):
    x = e
    for _ in range(8):
        if x[0] in ('ref', 'deref'):
            x = x[1]
        elif x[0] == 'cast':
            x = x[3]
        else:
            break
    return x[1] if x[0] == 'fnitem' else None


def alias_case(ctx, rid):
    """alias words (plus, times, artı, çarpı, ...) of the global and of every language table are matched on the
    lower-cased token text - every definition of the matched text passes through to_lowercase - and the keys are lower-case
    (shared with C19: an operator word of a language must work in any letter case, including non-ASCII capitals)"""
    F = ctx.facts
    j = ctx.config.j
    # (alias words: plus, times, ...) matched on the lower-cased token text; keys are lower-case
    al = F.one(r'^tokinizer::alias_tokinizer::alias_tokinizer$')
    ctx.fn(al)
    ms = model.deep_calls(ctx, al, r'Regex::is_match$')
    if len(ms) < 1:
        raise AnchorLost('alias_tokinizer: no is_match site found (also not in its helpers)')
    for wb, t, margs in ms:
        a = resolve_elements(F, margs[1])          # the element of a zipped / mapped / collected sequence, position for position
        if _always_through(a, r'::to_lowercase$') and 'original_text' in render(a):
            ctx.ok(rid, 'alias_tokinizer: is_match(to_lowercase(original_text))', 'shape', site=t['loc'])
        else:
            ctx.finding(rid, 'alias_tokinizer/raw-text', 'alias words are matched on %s, not on the lower-cased token text' % render(a)[:60], site=t['loc'])
    keys = [('alias', k) for k in j.get('alias', {})] + [('languages.%s.alias' % l, k) for l, L in j['languages'].items() for k in L.get('alias', {})]
    for where, k in sorted(keys):
        if k != k.lower():
            ctx.finding(rid, 'data/%s/%s' % (where, k), 'alias word %r (%s) is not lower-case but is matched on lower-cased text' % (k, where), site='config.json ' + where)
        else:
            ctx.ok(rid, 'alias %r lower-case' % k, 'data', sample=False)


def w1_case(ctx):
    """W1 case-insensitive keyword classes"""
    ctx.rule('W1', 'case normalisation of keyword classes', floor=20)
    F = ctx.facts
    # (connective keywords, group words, symbols) comparison family
    check_case_insensitive_compares(ctx, 'W1', floor_total=10)
    # (currency) read_currency lower-cases both lookups
    b = F.one(r'^tokinizer::tools::read_currency$')
    ctx.fn(b)
    gets = model.deep_calls(ctx, b, r'BTreeMap::<.*>::get$')
    if len(gets) < 2:
        raise AnchorLost('read_currency: expected the alias and the code lookup, found %d' % len(gets))
    for wb, t, gargs in gets:
        key = gargs[1]
        tbl = render(gargs[0])
        if _always_through(key, r'::to_lowercase$') and 'currency' in render(key):
            ctx.ok('W1', 'read_currency: %s.get(to_lowercase(currency))' % tbl, 'shape', site=t['loc'])
        else:
            ctx.finding('W1', 'read_currency/raw-key/%s' % tbl.rsplit('.', 1)[-1], 'read_currency looks up %s with %s: the currency name is not lower-cased' % (tbl, render(key)[:60]), site=t['loc'])
    lj = F.one(r'^config::SmartCalcConfig::load_from_json$')
    ctx.fn(lj)
    from ..effects import spine_fields
    def last_field(e):
        e = strip(e)
        return e[3] if e[0] == 'field' and len(e) > 3 else None
    ins = [(bid, t) for bid, t in lj.calls(r'BTreeMap::<.*>::insert$') if last_field(lj.expr(t['args'][0])) == 'config::SmartCalcConfig.currency']
    if len(ins) != 1:
        raise AnchorLost('load_from_json: expected one insert into config.currency, found %d' % len(ins))
    if _always_through(lj.expr(ins[0][1]['args'][1]), r'::to_lowercase$'):
        ctx.ok('W1', 'load_from_json stores currency codes lower-cased', 'shape', site=ins[0][1]['loc'])
    else:
        ctx.finding('W1', 'load_from_json/currency-key', 'currency codes are stored as %s, but looked up lower-cased' % render(lj.expr(ins[0][1]['args'][1]))[:60], site=ins[0][1]['loc'])
    j = ctx.config.j
    for k in sorted(j.get('currency_alias', {})):
        if k != k.lower():
            ctx.finding('W1', 'data/currency_alias/%s' % k, 'currency alias %r is not lower-case: read_currency lower-cases the text, so the alias can never match' % k, site='config.json currency_alias')
        else:
            ctx.ok('W1', 'currency alias %r is lower-case' % k, 'data', sample=False)
    # (month) the month parsers see the lower-cased line; configured names are lower-case
    lt = F.one(r'^tokinizer::regex_tokinizer::language_tokinizer$')
    ctx.fn(lt)
    O = Origins(ctx, NAMED)
    n = 0
    for i in lt.normal_blocks:
        t = lt.blocks[i]['term']
        if t['k'] == 'call' and not t.get('callee') and t.get('fop') is not None and len(t['args']) >= 3:
            if _fn_item(lt.expr(t['fop'])) is not None and _fn_item(lt.expr(t['fop'])) not in model.language_parsers(ctx):
                continue               # a regex parser run through a "run this parser" helper, not a language parser
            n += 1
            og = O.origin(lt, lt.expr(t['args'][2]))
            if og == {'derived:to_lowercase(DATA)'}:
                ctx.ok('W1', 'language parsers are handed to_lowercase(line)', 'wiring', site=t['loc'])
            else:
                ctx.finding('W1', 'language_tokinizer/haystack', 'language parsers (month names) are handed %s; month names are configured lower-case, so other letter cases would not be recognised' % sorted(og), site=t['loc'])
    if n != 1:
        raise AnchorLost('language_tokinizer: expected one call through LANGUAGE_BASED_TOKEN_PARSER, found %d' % n)
    for lang, L in sorted(j['languages'].items()):
        for tbl in ('long_months', 'short_months'):
            for name in sorted(L.get(tbl, {})):
                if name != name.lower():
                    ctx.finding('W1', 'data/%s/%s/%s' % (lang, tbl, name), 'month name %r (%s) is not lower-case but is matched on the lower-cased line' % (name, lang), site='config.json languages.%s.%s' % (lang, tbl))
                else:
                    ctx.ok('W1', 'month %r (%s) lower-case' % (name, lang), 'data', sample=False)
    # (zone) parse_timezone upper-cases; the zone parser scans the upper-cased line; expressible keys are upper-case
    pt = F.one(r'^tools::parse_timezone$')
    ctx.fn(pt)
    zg = [(bid, t) for bid, t in pt.calls(r'BTreeMap::<.*>::get$') if 'timezones' in render(pt.expr(t['args'][0]))]
    if len(zg) != 1:
        raise AnchorLost('parse_timezone: expected one lookup in config.timezones, found %d' % len(zg))
    if _always_through(pt.expr(zg[0][1]['args'][1]), r'::to_uppercase$'):
        ctx.ok('W1', 'parse_timezone: timezones.get(to_uppercase(name))', 'shape', site=zg[0][1]['loc'])
    else:
        ctx.finding('W1', 'parse_timezone/raw-key', 'zone names are looked up as %s: not upper-cased' % render(pt.expr(zg[0][1]['args'][1]))[:60], site=zg[0][1]['loc'])
    parsers = dict(model.regex_parsers(ctx))
    tz = F.body(parsers['timezone'])
    ctx.fn(tz)
    sc = list(tz.calls(r'Regex::captures_iter$'))
    if len(sc) != 1:
        raise AnchorLost('timezone parser: expected one captures_iter, found %d' % len(sc))
    og = O.origin(tz, tz.expr(sc[0][1]['args'][1]))
    if og == {'derived:to_uppercase(DATA)'}:
        ctx.ok('W1', 'zone parser scans to_uppercase(line)', 'wiring', site=sc[0][1]['loc'])
    else:
        # a case-insensitive regex on the line itself would also do: accept when every zone regex carries the (?i) flag
        pats = ctx.config.j['parse'].get('timezone', [])
        if og <= {'DATA', 'LINE'} and pats and all(p.startswith('(?i)') for p in pats):
            ctx.ok('W1', 'zone parser scans the line with case-insensitive regexes', 'data', site=sc[0][1]['loc'])
        else:
            ctx.finding('W1', 'timezone-parser/haystack', 'the zone regex ([A-Z]{2,4}) is matched on %s: lower-case zone names would not be recognised' % sorted(og), site=sc[0][1]['loc'])
    zins = [(bid, t) for bid, t in lj.calls(r'BTreeMap::<.*>::insert$') if last_field(lj.expr(t['args'][0])) == 'config::SmartCalcConfig.timezones']
    if len(zins) != 1:
        raise AnchorLost('load_from_json: expected one insert into config.timezones, found %d' % len(zins))
    if _always_through(lj.expr(zins[0][1]['args'][1]), r'::to_uppercase$'):
        ctx.ok('W1', 'load_from_json stores zone names upper-cased', 'shape', site=zins[0][1]['loc'])
    else:
        up = [k for k in j.get('timezones', {}) if re.fullmatch(r'[A-Za-z]{2,4}', k) and k != k.upper()]
        for k in sorted(up):
            ctx.finding('W1', 'data/timezones/%s' % k, 'zone %r is expressible by the zone syntax but is not stored upper-case, so the upper-cased lookup never finds it' % k, site='config.json timezones')
        ctx.ok('W1', '%d zone names expressible by [A-Z]{2,4} are stored upper-case' % sum(1 for k in j.get('timezones', {}) if re.fullmatch(r'[A-Z]{2,4}', k)), 'data')
    mixed = sorted(k for k in j.get('timezones', {}) if not re.fullmatch(r'[A-Za-z]{2,4}', k))
    if mixed:
        ctx.note('W1: %d zone names are longer than the zone syntax [A-Z]{2,4} allows (excluded by the quantifier): %s' % (len(mixed), ', '.join(mixed[:20])))
    st = F.one(r'^smartcalc::SmartCalc::set_timezone$')
    ctx.fn(st)
    alias_case(ctx, 'W1')
    # unit words / day keywords are looked up with the raw text (not among the classes the statement lists)
    raw = []
    for fnrx in (r'regex_tokinizer::text::text_regex_parser$', r'rules::duration_rules::duration_parse$', r'rules::duration_rules::as_duration$'):
        for fb in F.find(fnrx):
            for bid, t in fb.calls(r'BTreeMap::<.*>::get$'):
                if 'constant_pair' in render(fb.expr(t['args'][0])) or any('constant' in render(x) for x in [fb.expr(t['args'][0])]):
                    k = fb.expr(t['args'][1])
                    if not _always_through(k, r'::to_lowercase$'):
                        raw.append(fn_key(fb.path))
    if raw:
        ctx.note('W1: duration-unit words and day keywords (constant_pair) are looked up with the raw text in %s: `5 Days`, `Today` are not recognised; these words are not among the classes the statement lists' % sorted(set(raw)))


def w1b_names(ctx):
    """W1 (variable names) both key constructions lower-case"""
    v4_keys(ctx, 'W1n')


def w2_noise(ctx):
    """W2 comment and whitespace tokens are type-less, cover exactly their match, and are dropped"""
    ctx.rule('W2', 'noise tokens are type-less and dropped', floor=5)
    F = ctx.facts
    parsers = dict(model.regex_parsers(ctx))
    for fam in ('comment', 'whitespace'):
        if fam not in parsers:
            raise AnchorLost('TOKEN_REGEX_PARSER has no %r entry' % fam)
        b = F.body(parsers[fam])
        ctx.fn(b)
        adds = list(b.calls(r'Tokinizer::<.*>::add_token_(from_match|location)$|Tokinizer::add_token_(from_match|location)$'))
        if not adds:
            ctx.finding('W2', '%s/no-token' % fam, 'the %s parser no longer claims its span' % fam, site=b.loc)
            continue
        for bid, t in adds:
            name = t['callee']['path'].rsplit('::', 1)[1]
            if name != 'add_token_from_match':
                ctx.finding('W2', '%s/span-not-from-match' % fam, 'the %s parser claims a span through %s with hand-made bounds (%s, %s) instead of exactly its match' % (
                    fam, name, render(b.expr(t['args'][1]))[:50], render(b.expr(t['args'][2]))[:50]), site=t['loc'])
                continue
            m = b.expr(t['args'][1])
            grp = [strip(x[2][1]) for x in walk(m) if x[0] == 'call' and re.search(r'Captures::<.*>::get$|Captures::get$', x[1]) and len(x[2]) > 1]
            ty = strip(b.expr(t['args'][2]))
            typeless = ty[0] == 'aggr' and ty[1].endswith('Option::None')
            if not grp or grp[0][0] != 'const' or grp[0][2] != 0:
                ctx.finding('W2', '%s/not-group-0' % fam, 'the %s parser claims %s, not the whole match (group 0)' % (fam, render(m)[:60]), site=t['loc'])
            elif not typeless:
                ctx.finding('W2', '%s/typed' % fam, 'the %s parser gives its token the type %s: noise would reach the computation' % (fam, render(ty)[:60]), site=t['loc'])
            else:
                ctx.ok('W2', '%s parser: add_token_from_match(capture.get(0), None)' % fam, 'wiring', site=t['loc'])
    # the haystack of the two parsers is the tokenizer's copy of the line
    O = Origins(ctx, NAMED)
    for fam in ('comment', 'whitespace'):
        b = F.body(parsers[fam])
        for bid, t in b.calls(r'Regex::captures_iter$'):
            og = O.origin(b, b.expr(t['args'][1]))
            if og <= {'DATA', 'LINE'}:
                ctx.ok('W2', '%s parser scans the line' % fam, 'identity', site=t['loc'], sample=False)
            else:
                ctx.finding('W2', '%s/haystack' % fam, 'the %s parser scans %s' % (fam, sorted(og)), site=t['loc'])
    # cleanup keeps typed tokens only
    c = F.find(r"^tokinizer::Tokinizer::<'a>::cleanup_token_infos::\{closure#0\}$")
    if len(c) != 1:
        raise AnchorLost('cleanup_token_infos retain-closure not found')
    r = render(c[0].ret_expr(), transparent=False)
    if re.search(r'Option::<.*>::is_some\(|is_some\(', r) and 'token_type' in r:
        ctx.ok('W2', 'cleanup_token_infos retains tokens whose type is Some', 'shape', site=c[0].loc)
    else:
        ctx.finding('W2', 'cleanup/retain-predicate', 'cleanup_token_infos keeps tokens by %s; expected token_type.is_some()' % r[:100], site=c[0].loc)
    for name in ('regex_tokinizer', 'language_tokinizer'):
        b = F.one(r'^tokinizer::regex_tokinizer::%s$' % name)
        ctx.fn(b)
        cl = [bid for bid, t in b.calls(r'cleanup_token_infos$')]
        rets = [i for i in b.normal_blocks if b.blocks[i]['term']['k'] == 'return']
        if cl and all(any(b.dominates(x, r_) for x in cl) for r_ in rets):
            ctx.ok('W2', '%s ends with cleanup_token_infos()' % name, 'dominance', site=b.loc, sample=False)
        else:
            ctx.finding('W2', '%s/no-cleanup' % name, '%s can return without dropping the type-less tokens' % name, site=b.loc)
    # token_generator only forwards typed, active tokens
    g = F.one(r"^tokinizer::Tokinizer::<'a>::token_generator$")
    ctx.fn(g)
    pushes = [(bid, t) for bid, t in g.calls(r'Vec::<.*>::push$')]
    good = False
    for bid, t in pushes:
        conds = ' & '.join(g.cond_text(bid))
        if 'token_type' in conds or 'Some' in conds or 'discr(' in conds:
            good = True
    if not good:
        # iterator form: the values pass through filter_map / flatten over the Option<TokenType>, which lets only Some payloads through
        fm = model.deep_calls(ctx, g, r'Iterator>?::(filter_map|flatten|flat_map)$')
        srcs = ' '.join(render(a_) for _b, _t, as_ in fm for a_ in as_)
        clos = ' '.join(render(ctx.facts.bodies[x[1][8:]].ret_expr()) for _b, _t, as_ in fm for a_ in as_ for x in walk(a_) if x[0] == 'aggr' and x[1].startswith('closure:') and x[1][8:] in ctx.facts.bodies)
        if fm and 'token_type' in (srcs + clos):
            good = True
    if good:
        ctx.ok('W2', 'token_generator forwards tokens under a Some(token_type) guard', 'guard-dom', site=g.loc)
    else:
        ctx.finding('W2', 'token_generator/unguarded', 'token_generator forwards tokens without testing that they are typed', site=g.loc)


def stage_producers(ctx, stage_body):
    """token producers of one stage in execution (dominance) order: direct calls to registered parser functions and
    the loop over a parser registry (TOKEN_REGEX_PARSER / LANGUAGE_BASED_TOKEN_PARSER)"""
    reg = model.regex_parsers(ctx)
    by_fn = {f: fam for fam, f in reg}
    lang = model.language_parsers(ctx)
    events = []
    for bid, t in stage_body.calls():
        c = t.get('callee')
        if c and c['path'] in by_fn:
            events.append((bid, [(by_fn[c['path']], t['loc'])]))
        elif c and c['path'] in lang:
            events.append((bid, [(fn_key(c['path']), t['loc'])]))
        elif not c and t.get('fop') is not None and _fn_item(stage_body.expr(t['fop'])) is not None:
            # a call through a pointer whose value is a known function (a shared "run this parser" helper spliced in)
            fp = _fn_item(stage_body.expr(t['fop']))
            if fp in by_fn:
                events.append((bid, [(by_fn[fp], t['loc'])]))
            elif fp in lang:
                events.append((bid, [(fn_key(fp), t['loc'])]))
        elif not c and t.get('fop') is not None:
            derefs = ' '.join(tt['callee']['path'] for _, tt in stage_body.calls(r'as core::ops::Deref>::deref$') if tt.get('callee'))
            # a registry that is a `const` array is named by the constant the pointer is read from
            derefs += ' ' + ' '.join(str(x[3]) for x in walk(stage_body.expr(t['fop'])) if x[0] == 'const' and x[2] is None)
            if 'LANGUAGE_BASED_TOKEN_PARSER' in derefs:
                events.append((bid, [(fn_key(f), t['loc']) for f in lang]))
            elif 'TOKEN_REGEX_PARSER' in derefs:
                events.append((bid, [(fam, t['loc']) for fam, f in reg]))
            else:
                raise AnchorLost('%s calls through a function pointer whose registry is not recognised' % fn_key(stage_body.path))
    # execution order: x before y when x can reach y and y cannot reach x (a guarded call need not dominate)
    import functools

    def before(x, y):
        return x != y and stage_body.can_reach(x, y) and not stage_body.can_reach(y, x)
    events.sort(key=functools.cmp_to_key(lambda p, q: -1 if before(p[0], q[0]) else (1 if before(q[0], p[0]) else 0)))
    for (x, _), (y, _) in zip(events, events[1:]):
        if not before(x, y):
            raise AnchorLost('%s: token producers are not sequential' % fn_key(stage_body.path))
    out = []
    for _, lst in events:
        out += lst
    return out


def producers(ctx, entry_rx):
    """ordered token producers of a tokenizer entry point: [(stage, parser key or fn, site)]"""
    b = ctx.facts.one(entry_rx)
    seq = []
    for bid, t in b.calls(local=True):
        name = t['callee']['path'].rsplit('::', 1)[1]
        if name in ('language_tokinizer', 'regex_tokinizer'):
            seq.append((name, bid, t))
    order = sorted(seq, key=lambda x: len(b.dominators().get(x[1], ())))
    for (a, abid, at), (c, cbid, ct) in zip(order, order[1:]):
        if not b.dominates(abid, cbid):
            raise AnchorLost('%s: stages %s and %s are not sequential' % (fn_key(b.path), a, c))
    out = []
    for name, bid, t in order:
        sb = ctx.facts.one(r'^tokinizer::regex_tokinizer::%s$' % name)
        ctx.fn(sb)
        for who, loc in stage_producers(ctx, sb):
            out.append((name, who, loc))
    return b, out


def w3_comment_first(ctx):
    """W3 the comment parser claims spans before any other token producer. Type-less claims are forgotten at the end of
    every stage (cleanup_token_infos), so the comment parser must be the first producer of *each* stage."""
    ctx.rule('W3', 'comment parser runs before every other token producer, in every stage', floor=3)
    for rx in (r"^tokinizer::Tokinizer::<'a>::tokinize$", r"^tokinizer::Tokinizer::<'a>::basic_tokinize$"):
        b, prod = producers(ctx, rx)
        ctx.fn(b)
        stages = []
        for stage, who, loc in prod:
            if not stages or stages[-1][0] != stage:
                stages.append((stage, []))
            stages[-1][1].append((who, loc))
        if not stages:
            raise AnchorLost('%s runs no tokenizer stage' % fn_key(b.path))
        for stage, lst in stages:
            names = [w for w, _ in lst]
            key_fn = fn_key(b.path).rsplit('::', 1)[-1]
            if 'comment' not in names:
                ctx.finding('W3', '%s/%s/no-comment-parser' % (key_fn, stage), 'stage %s of %s produces tokens (%s) but runs no comment parser first' % (stage, fn_key(b.path), ', '.join(names[:3])), site=lst[0][1])
                continue
            before = lst[:names.index('comment')]
            if not before:
                ctx.ok('W3', '%s / %s: comment is the first of %d token producers' % (fn_key(b.path), stage, len(lst)), 'order', site=lst[0][1])
            for who, loc in before:
                ctx.finding('W3', '%s/producer-before-comment/%s' % (key_fn, who.rsplit('::', 1)[-1]),
                            '%s runs the %s parser (stage %s) before the comment parser: text inside a comment is tokenised and reaches the computation' % (fn_key(b.path), who, stage), site=loc)


def w4_claimed(ctx):
    """W4 first claimant wins: add_token_location rejects every ordering in which an end point of the new span falls
    inside a claimed one (or the spans are equal). Strict containment of a claimed token by a later match is reported as a
    NOTE only: with the comment parser first no configured parser can produce it (every later regex is word-bounded,
    letters-only or a single character), and no failing input exists."""
    ctx.rule('W4', 'claimed spans cannot be re-tokenised', floor=1)
    b = ctx.facts.one(r"^tokinizer::Tokinizer::<'a>::add_token_location$")
    ctx.fn(b)
    table = collision_table(ctx, b, ('start', 'end'))
    unknown = [sig for sig, (v, o) in table.items() if v == '?']
    if unknown:
        raise AnchorLost('add_token_location: the collision decision could not be evaluated for %d orderings' % len(unknown))
    ctx.analysed('W4', 'add_token_location: %d orderings of (item.start, item.end, start, end); overlapping=%d rejected=%d' % (
        len(table), sum(1 for v, o in table.values() if o), sum(1 for v, o in table.values() if v == 'reject')))
    bad = 0
    for sig, (verdict, overlap) in sorted(table.items()):
        if not overlap or verdict == 'reject':
            continue
        a_, b_, s_, e_ = sig
        if s_ < a_ and b_ < e_:
            ctx.note('W4: add_token_location accepts a span that strictly contains a claimed token (ranks %s); not reachable with the configured parsers once the comment parser runs first' % (sig,))
            continue
        bad += 1
        ctx.finding('W4', 'add_token_location/overlap-accepted/%s' % ''.join(map(str, sig)),
                    'add_token_location accepts a span that shares bytes with an already claimed one (ranks item.start=%d item.end=%d start=%d end=%d): a later parser can re-tokenise claimed text' % sig, site=b.loc)
    if not bad:
        ctx.ok('W4', 'add_token_location rejects every ordering in which an end point of the new span lies in a claimed one', 'finite-orderings', site=b.loc)
    pushes = list(b.calls(r'Vec::<.*>::push$'))
    if len(pushes) != 1:
        raise AnchorLost('add_token_location: expected one push, found %d' % len(pushes))


def w5_blanks(ctx):
    """W5 blanks: the whitespace regex is [ ]+; pattern matching skips nothing but typed-token boundaries"""
    ctx.rule('W5', 'blanks are one type-less token class', floor=1)
    from ..data import enumerate_language
    fam = ctx.config.parse_family('whitespace')
    if len(fam) != 1 or fam[0][1] is None:
        raise AnchorLost('expected one whitespace regex')
    h = fam[0][1]

    def only_blank_plus(h):
        k = h['k']
        if k == 'cap':
            return only_blank_plus(h['sub'])
        if k == 'rep':
            sub = h['sub']
            one = (sub['k'] == 'lit' and sub['s'] == ' ') or (sub['k'] == 'class' and [tuple(r) for r in sub['ranges']] == [(32, 32)])
            return one and h['min'] >= 1 and h['max'] is None
        return False
    if only_blank_plus(h):
        ctx.ok('W5', 'whitespace regex is [ ]+ (any number of blanks is one type-less token)', 'regex-structure', site='config.json parse.whitespace')
    else:
        ctx.finding('W5', 'whitespace/regex', 'the whitespace regex %r is not "one or more blanks"' % fam[0][0], site='config.json parse.whitespace')
    # no other parse regex requires an exact number (>1) of blanks
    for famname, pats in sorted(ctx.config.j['parse'].items()):
        for p in pats:
            if re.search(r' \{[2-9]', p) or re.search(r'\[ \]\{[2-9]', p):
                ctx.finding('W5', '%s/fixed-blank-count' % famname, 'regex %r of %s demands a fixed number of blanks' % (p, famname), site='config.json parse.%s' % famname)


RULES = [('W1', w1_case), ('W1n', w1b_names), ('W2', w2_noise), ('W3', w3_comment_first), ('W4', w4_claimed), ('W5', w5_blanks)]


def w6_lexical(ctx):
    """W6 connective keywords reach the rules as plain words (E7b lexical competition model: month stage, regex families in TOKEN_REGEX_PARSER order with first-claim-wins,
    alias stage; samples generated from the configuration)"""
    from ..lexrules import run_samples, number_samples, based_samples, money_samples, unit_samples, month_samples, zone_samples, duration_samples, percent_samples, keyword_samples
    ctx.rule('W6', 'connective keywords reach the rules as plain words', floor=10)
    run_samples(ctx, 'W6', keyword_samples(ctx))


RULES.append(('W6', w6_lexical))
