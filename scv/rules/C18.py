"""C18 - Custom rules and user-defined unit families: registration, effect, removal.

Y1 add_rule appends exactly one API entry (false only for an unknown language, without a write); delete_rule removes
the first API entry of that name with an order-preserving remove and nothing else; who may write config.rule;
Y2 the three rewrite arms (internal rule, API rule, unit literal) follow one protocol; Y3 field names reach the user
rule unchanged; Y4 duplicate family names / item indices return false before any write; Y5 user-supplied patterns and
indices cannot panic the evaluator (panic obligations over user data).
Not decided: behaviour of user RuleTrait code; histories as such.
"""
import re

from ..facts import render, strip, walk, fn_key, AnchorLost, alternatives, cond_str
from ..effects import collection_writes, cell_writes, spine_fields, fields_in
from .. import model


def writes_to(b, field):
    out = []
    for bid, t, method, recv in collection_writes(b):
        if field in spine_fields(recv):
            out.append((bid, t, method, recv))
    return out


def y1_rule_list(ctx):
    """Y1 shape of add_rule / delete_rule and the writers of config.rule"""
    ctx.rule('Y1', 'ordered rule list: append, remove-first-by-name', floor=4)
    F = 'config::SmartCalcConfig.rule'
    allowed = {'config::SmartCalcConfig::load_from_json', 'smartcalc::SmartCalc::set_date_rule', 'smartcalc::SmartCalc::add_rule', 'smartcalc::SmartCalc::delete_rule'}
    for b in ctx.facts.src_bodies():
        ws = [w for w in writes_to(b, F) if w[2] not in ('get_mut',)]
        if ws and b.path not in allowed and not (b.kind == 'closure' and b.rec.get('parent') in allowed):
            ctx.finding('Y1', 'writer/%s' % fn_key(b.path), '%s modifies the rule list (%s)' % (fn_key(b.path), ws[0][2]), site=ws[0][1]['loc'])
    a = ctx.facts.body('smartcalc::SmartCalc::add_rule')
    ctx.fn(a)
    ws = [w for w in writes_to(a, F) if w[2] != 'get_mut']
    if len(ws) != 1 or ws[0][2] != 'push':
        ctx.finding('Y1', 'add_rule/write-shape', 'add_rule changes the rule list with %s; expected exactly one push (append)' % [w[2] for w in ws], site=a.loc)
    else:
        bid, t, m, recv = ws[0]
        val = render(a.expr(t['args'][1]))
        conds = a.cond_text(bid)
        if not re.match(r'tokinizer::rule_tokinizer::RuleType::API\{', val) or not val.rstrip('}').endswith(', rule'):
            ctx.finding('Y1', 'add_rule/entry', 'add_rule appends %s; expected RuleType::API{tokens_list, rule}' % val[:100], site=t['loc'])
        elif not re.search(r'BTreeMap::get_mut\(self\.config\.rule, language\) as Some\.0$', render(recv)):
            ctx.finding('Y1', 'add_rule/target-list', 'add_rule appends to %s, not to the list of the requested language' % render(recv)[:100], site=t['loc'])
        else:
            ctx.ok('Y1', 'add_rule: rule[language].push(API{tokens_list, rule})', 'shape', site=t['loc'])
        rets = sorted((render(x), tuple(c for c in [cond_str(d, v) for d, v in cs] if 'get_mut' in c)) for x, cs in alternatives(a, a.ret_expr()))
        good = [('False', ('discr(BTreeMap::get_mut(self.config.rule, language))!=[1]',)), ('True', ('discr(BTreeMap::get_mut(self.config.rule, language))=[1]',))]
        good2 = [('False', ('discr(BTreeMap::get_mut(self.config.rule, language))=[0]',)), ('True', ('discr(BTreeMap::get_mut(self.config.rule, language))=[1]',))]
        if rets in (good, good2):
            ctx.ok('Y1', 'add_rule returns false exactly for an unknown language (no write on that path)', 'gamma', site=a.loc)
        else:
            ctx.finding('Y1', 'add_rule/return', 'add_rule return value: %s' % rets, site=a.loc)
    d = ctx.facts.body('smartcalc::SmartCalc::delete_rule')
    ctx.fn(d)
    ws = [w for w in writes_to(d, F) if w[2] != 'get_mut']
    if len(ws) != 1 or ws[0][2] != 'remove':
        ctx.finding('Y1', 'delete_rule/write-shape', 'delete_rule changes the rule list with %s; expected exactly one order-preserving Vec::remove' % [w[2] for w in ws], site=(ws[0][1]['loc'] if ws else d.loc))
    else:
        bid, t, m, recv = ws[0]
        idx = render(d.expr(t['args'][1]))
        if not re.search(r'position\(.*\) as Some\.0$', idx) or 'closure' not in idx:
            ctx.finding('Y1', 'delete_rule/index', 'delete_rule removes index %s; expected the position of the first matching API rule' % idx[:100], site=t['loc'])
        else:
            ctx.ok('Y1', 'delete_rule: rule[language].remove(position(first API rule with that name))', 'shape', site=t['loc'])
    cl = ctx.facts.find(r'^smartcalc::SmartCalc::delete_rule::\{closure#0\}$')
    if len(cl) != 1:
        raise AnchorLost('delete_rule: predicate closure not found')
    c = cl[0]
    alts = [(render(x), [cond_str(dd, v) for dd, v in cs]) for x, cs in alternatives(c, c.ret_expr())]
    radt = {v['name']: v['discr'] for v in ctx.facts.adts['tokinizer::rule_tokinizer::RuleType']['variants']}
    # the predicate holds exactly for API entries whose name equals the requested one: every alternative is either the
    # constant false, or - under "the entry is API" - the name comparison itself or `true` under "the comparison holds"
    ok = False
    const_false = []
    bad_alt = []
    for x, cs in alts:
        api = any(re.search(r'discr\(.*\)=\[%d\]' % radt['API'], k) for k in cs)
        named = any('RuleTrait::name' in k and re.search(r'eq\(', k) and k.endswith('!=[0]') for k in cs)
        if x == 'False':
            const_false.append(x)
        elif 'RuleTrait::name' in x and re.search(r'eq\(', x) and api:
            ok = True
        elif x == 'True' and api and named:
            ok = True
        else:
            bad_alt.append(x)
    if bad_alt:
        ok = False
    if ok and const_false:
        ctx.ok('Y1', 'delete_rule matches API rules by name only (internal rules are never removed)', 'gamma', site=c.loc)
    else:
        ctx.finding('Y1', 'delete_rule/predicate', 'delete_rule selects the entry to remove by %s' % alts, site=c.loc)


def rewrite_sites(ctx):
    """the three places that replace a matched token range by one new token"""
    out = []
    for rx in (r'^tokinizer::rule_tokinizer::rule_tokinizer$', r'^tokinizer::dynamic_type_tokinizer::dynamic_type_tokinizer$'):
        b = ctx.facts.one(rx)
        for bid, t, method, recv in collection_writes(b):
            if method == 'insert' and 'tokinizer::Tokinizer.token_infos' in spine_fields(recv):
                out.append((b, bid, t))
    return out


def y2_siblings(ctx):
    """Y2 sibling agreement of the rewrite protocol"""
    from ..facts import rebuild
    ctx.rule('Y2', 'rewrite protocol siblings', floor=3)
    sites = rewrite_sites(ctx)
    if len(sites) != 3:
        raise AnchorLost('expected 3 rewrite sites (internal rule, API rule, unit literal), found %d' % len(sites))
    # which tuple positions of find_match's result are the start / end index of the match
    fm = ctx.facts.one(r'^tokinizer::rule_tokinizer::find_match$')
    fm._shallow = 'mut'
    try:
        rt = strip(fm.ret_expr())
    finally:
        fm._shallow = False
    pos = {}
    for n, x in enumerate(rt[2] if rt[0] == 'aggr' and (rt[1] == 'tuple' or (len(rt) > 3 and rt[3] and len(rt[3]) == len(rt[2]))) else []):
        x = strip(x)
        if x[0] == 'var':
            pos[n] = x[2]
            if rt[1] != 'tuple':
                pos[rt[3][n]] = x[2]          # a small result struct: the component is addressed by its field name
    role = {'start_token_index': 'START', 'target_token_index': 'TARGET'}

    def norm(e):
        def f(n):
            if n[0] == 'var' and n[2] in role:
                return ('var', 0, role[n[2]])
            if n[0] == 'field' and strip(n[1])[0] == 'call' and strip(n[1])[1].endswith('rule_tokinizer::find_match'):
                nm = pos.get(int(n[2].lstrip('#'))) if n[2].lstrip('#').isdigit() else pos.get(n[2])
                if nm in role:
                    return ('var', 0, role[nm])
            return n
        return rebuild(e, f)
    summaries = []
    # the two sites in rule_tokinizer are what the matcher table (Y7, scv/matcher.py) tabulates - Removed over the matched run, one
    # Active token spanning it inserted at its start; when the table agrees they are not judged a second time by their shape
    from ..report import Ctx as _Ctx
    from ..matcher import matcher_table as _mt
    _sub = _Ctx('C18', ctx.tier, ctx.facts, ctx.cg, ctx.config, ctx.repo, ctx.cfg_name)
    _sub.rule('Y7', 'pattern scan', floor=1)
    try:
        table_ok = bool(_mt(_sub, 'Y7')) and not _sub.findings
    except Exception:
        table_ok = False
    for b, bid, t in sites:
        ctx.fn(b)
        if table_ok and b.path.endswith('rule_tokinizer::rule_tokinizer'):
            ctx.ok('Y2', '%s: rewrite protocol tabulated by Y7' % fn_key(b.path), 'absint', site=t['loc'])
            continue
        idx = render(norm(b.mexpr(t['args'][1])))
        tok = norm(b.mexpr(t['args'][2]))
        ag = [x for x in walk(tok) if x[0] == 'aggr' and x[1] == 'tokinizer::TokenInfo::TokenInfo']
        if not ag:
            ctx.finding('Y2', '%s/new-token' % fn_key(b.path), 'the inserted element is not a freshly built TokenInfo', site=t['loc'])
            continue
        f = dict(zip(ag[0][3], ag[0][2]))
        sets = []
        for cbid, ct, method, recv in cell_writes(b):
            if method == 'set' and 'tokinizer::TokenInfo.status' in fields_in(recv) and b.can_reach(cbid, bid):
                b._shallow = 'mut'
                try:
                    r2 = render(norm(b.expr(ct['args'][0])))
                    v2 = render(b.expr(ct['args'][1]))
                finally:
                    b._shallow = False
                sets.append((r2, v2, cbid))
        # the set that belongs to this site is the closest one (largest dominator depth among those that reach it)
        sets.sort(key=lambda x: -len(b.dominators().get(x[2], ())))
        mine = sets[0] if sets else ('', '', None)
        summ = (idx, render(f['start']), render(f['end']), render(f['status']), mine[0], mine[1])
        summaries.append((b, t, summ))
    want = ('$START', 'index(tokinizer.token_infos, $START).start', None, None, None, None)
    ref = None
    for b, t, summ in summaries:
        idx, st, en, status, setr, setv = summ
        problems = []
        if idx != '$START':
            problems.append('inserted at %s, not at the start index of the match' % idx[:60])
        if st != 'index(tokinizer.token_infos, $START).start':
            problems.append('start = %s' % st[:80])
        if en not in ('index(tokinizer.token_infos, ($TARGET SubWithOverflow 1).#0).end', 'index(tokinizer.token_infos, ($TARGET Sub 1)).end'):
            problems.append('end = %s' % en[:80])
        if 'Active' not in status:
            problems.append('status = %s' % status[:60])
        if not re.fullmatch(r'index\(tokinizer\.token_infos, range::next\(core::ops::Range::Range\{\$START, \$TARGET\}\) as Some\.0\)\.status', setr) or 'Removed' not in setv:
            problems.append('Removed is set over %s (%s), not over START..TARGET' % (setr[:100], setv))
        if problems:
            ctx.finding('Y2', '%s/protocol' % fn_key(b.path), 'rewrite site in %s deviates from the sibling protocol: %s' % (fn_key(b.path), '; '.join(problems)), site=t['loc'])
        else:
            ctx.ok('Y2', '%s: Removed over START..TARGET, one Active token [tokens[START].start, tokens[TARGET-1].end] inserted at START' % fn_key(b.path), 'sibling-summary', site=t['loc'])


def y3_field_names(ctx):
    """Y3 the user rule receives the matched fields under the names of the pattern"""
    ctx.rule('Y3', 'field names reach the user rule', floor=1)
    b = ctx.facts.one(r'^tokinizer::rule_tokinizer::rule_tokinizer$')
    calls = list(b.calls(r'^smartcalc::RuleTrait::call$'))
    if len(calls) != 1:
        raise AnchorLost('rule_tokinizer: expected one RuleTrait::call site')
    arg = render(b.mexpr(calls[0][1]['args'][2]))
    cl = [x for x in ctx.facts.find(r'^tokinizer::rule_tokinizer::rule_tokinizer::\{closure#\d+\}$')]
    keyed = False
    for c in cl:
        r = strip(c.ret_expr())
        if r[0] == 'aggr' and r[1] == 'tuple' and len(r[2]) == 2:
            k = render(r[2][0], transparent=False)
            v = render(r[2][1])
            if re.fullmatch(r'to_string\(arg\d\.#?0\)', k):
                keyed = 'token_type' in v
    if keyed and 'collect' in arg and 'BTreeMap::iter(' in arg and 'find_match' in arg:
        ctx.ok('Y3', 'simple_fields = fields.iter().map(|(k, v)| (k.to_string(), v.token_type..clone())).collect()', 'shape', site=calls[0][1]['loc'])
    else:
        ctx.finding('Y3', 'simple_fields', 'the map handed to RuleTrait::call is %s' % arg[:160], site=calls[0][1]['loc'])
    # a rule that declines (None) writes nothing
    bid = calls[0][0]
    for cbid, ct, method, recv in cell_writes(b):
        pass


def y4_duplicates(ctx):
    """Y4 add_dynamic_type / add_dynamic_type_item: every write is guarded by "not there yet"; false is returned otherwise"""
    ctx.rule('Y4', 'duplicate registrations change nothing', floor=3)
    F = 'config::SmartCalcConfig.types'
    allowed = {'config::SmartCalcConfig::load_from_json', 'smartcalc::SmartCalc::add_dynamic_type', 'smartcalc::SmartCalc::add_dynamic_type_item'}
    for b in ctx.facts.src_bodies():
        ws = [w for w in writes_to(b, F) if w[2] != 'get_mut']
        if ws and b.path not in allowed:
            ctx.finding('Y4', 'writer/%s' % fn_key(b.path), '%s modifies the unit families (%s)' % (fn_key(b.path), ws[0][2]), site=ws[0][1]['loc'])
    a = ctx.facts.body('smartcalc::SmartCalc::add_dynamic_type')
    ctx.fn(a)
    ws = [w for w in writes_to(a, F) if w[2] != 'get_mut']
    if len(ws) != 1 or ws[0][2] != 'insert':
        ctx.finding('Y4', 'add_dynamic_type/write-shape', 'add_dynamic_type writes with %s' % [w[2] for w in ws], site=a.loc)
    else:
        from ..facts import implied_conds
        conds = a.cond_text(ws[0][0]) + implied_conds(a, ws[0][0])
        if any(re.fullmatch(r'discr\(BTreeMap::get\(self\.config\.types, name\)\)=\[0\]', c) or re.fullmatch(r'BTreeMap::contains_key\(self\.config\.types, name\)=\[0\]', c) for c in conds):
            ctx.ok('Y4', 'add_dynamic_type inserts only when the family name is new', 'guard-dom', site=ws[0][1]['loc'])
        else:
            ctx.finding('Y4', 'add_dynamic_type/unguarded-insert', 'add_dynamic_type inserts under %s: a duplicate family name replaces the existing family' % conds, site=ws[0][1]['loc'])
    i = ctx.facts.body('smartcalc::SmartCalc::add_dynamic_type_item')
    ctx.fn(i)
    ws = [w for w in writes_to(i, F) if w[2] != 'get_mut']
    if len(ws) != 1 or ws[0][2] != 'insert':
        ctx.finding('Y4', 'add_dynamic_type_item/write-shape', 'add_dynamic_type_item writes with %s' % [w[2] for w in ws], site=i.loc)
    else:
        from ..facts import implied_conds
        conds = i.cond_text(ws[0][0]) + implied_conds(i, ws[0][0])
        fam = any(re.search(r'discr\(BTreeMap::get(_mut)?\(self\.config\.types, name\)\)=\[1\]', c) for c in conds)
        fresh = any(re.search(r'contains_key\(.*, index\)=\[0\]', c) or re.search(r'discr\(BTreeMap::get\(.*, index\)\)=\[0\]', c) for c in conds)
        if fam and fresh:
            ctx.ok('Y4', 'add_dynamic_type_item inserts only into an existing family at a free index', 'guard-dom', site=ws[0][1]['loc'])
        else:
            ctx.finding('Y4', 'add_dynamic_type_item/unguarded-insert', 'add_dynamic_type_item inserts under %s: a duplicate index replaces the registered item (even if false is returned)' % conds[-3:], site=ws[0][1]['loc'])
    for fn_, b in (('add_dynamic_type', a), ('add_dynamic_type_item', i)):
        rets = set(render(x) for x, cs in alternatives(b, b.ret_expr()))
        if rets != {'True', 'False'}:
            ctx.finding('Y4', '%s/return' % fn_, '%s returns %s' % (fn_, sorted(rets)), site=b.loc)
        else:
            ctx.ok('Y4', '%s returns constant true / false per path' % fn_, 'gamma', site=b.loc)


RULES = [('Y1', y1_rule_list), ('Y2', y2_siblings), ('Y3', y3_field_names), ('Y4', y4_duplicates)]


def y5_history_free(ctx):
    """Y5 a registration depends on the configuration, the language and the pattern text only: the tokens stored for a rule,
    a unit item or a date rule are, on every path, the result of Tokinizer::token_infos on a session created for that one
    pattern - never a value kept from an earlier registration; the calculator has no state besides its configuration"""
    ctx.rule('Y5', 'registrations are history-free', floor=7)
    adt = ctx.facts.adts.get('smartcalc::SmartCalc')
    if not adt:
        raise AnchorLost('struct smartcalc::SmartCalc not found')
    fields = [(f['name'], f['ty']) for v in adt['variants'] for f in v['fields']]
    extra = [(n, t) for n, t in fields if not re.search(r'SmartCalcConfig$', t)]
    if extra:
        for n, t in extra:
            ctx.finding('Y5', 'SmartCalc/state/%s' % n, 'the calculator keeps state besides its configuration: field %s: %s (what is registered or evaluated may now depend on earlier calls)' % (n, t[:80]), site=adt.get('loc'))
    else:
        ctx.ok('Y5', 'SmartCalc holds its configuration and nothing else', 'types', site=adt.get('loc'))
    for fn_ in ('add_rule', 'add_dynamic_type_item', 'set_date_rule'):
        b = ctx.facts.body('smartcalc::SmartCalc::' + fn_)
        ctx.fn(b)
        bodies = [b] + model.closures_of(ctx, b)
        calls = [(c, bid, t) for c in bodies for bid, t in c.calls(r"Tokinizer::<'a>::token_infos$|Tokinizer::token_infos$")]
        if not calls:
            ctx.finding('Y5', '%s/no-tokenisation' % fn_, '%s does not tokenise its patterns with Tokinizer::token_infos' % fn_, site=b.loc)
            continue
        for c, bid, t in calls:
            sess = strip(c.expr(t['args'][1]))
            cfg = render(c.expr(t['args'][0]))
            mcap = re.fullmatch(r'arg1\.#?(\d+)', cfg)
            if mcap and c.kind == 'closure':
                # a value the closure captured: what the function that makes the closure put there
                for pb in bodies:
                    for i_ in pb.normal_blocks:
                        for s_ in pb.blocks[i_]['stmts']:
                            if s_['k'] == 'assign' and s_['rv'] == 'aggr' and s_.get('adt') == 'closure:' + c.path and int(mcap.group(1)) < len(s_['ops']):
                                cfg = render(pb.expr(s_['ops'][int(mcap.group(1))]))
            if sess[0] == 'call' and re.search(r'session::Session::new$', sess[1]) and cfg.endswith('.config'):
                ctx.ok('Y5', '%s: token_infos(self.config, fresh session)' % fn_, 'use-def', site=t['loc'])
            else:
                ctx.finding('Y5', '%s/session' % fn_, '%s tokenises a pattern with token_infos(%s, %s): the session must be created for this one pattern' % (fn_, cfg[:40], render(sess)[:60]), site=t['loc'])
        # what is collected: every value pushed into a list of token lists is such a result
        n = 0
        for c in bodies:
            for bid, t in c.calls(r'Vec::<.*>::push$'):
                from ..facts import opplace
                p = opplace(t['args'][1])
                ty = c.locals.get(p['local'], '') if p else ''
                if not re.match(r'^alloc::vec::Vec<alloc::rc::Rc<tokinizer::TokenInfo>>$', ty.replace(' ', '')) and 'Vec<alloc::rc::Rc<tokinizer::TokenInfo>>' not in ty:
                    continue
                if ty.count('Vec<') != 1:
                    continue
                n += 1
                bad = []
                for a, conds in alternatives(c, c.expr(t['args'][1])):
                    sa = strip(a, transparent=False)
                    if not (sa[0] == 'call' and re.search(r'Tokinizer::(<.*>::)?token_infos$', sa[1])):
                        bad.append(render(a)[:90])
                if bad:
                    ctx.finding('Y5', '%s/token-source' % fn_, '%s stores pattern tokens that are not freshly tokenised on every path: %s' % (fn_, ' | '.join(bad)), site=t['loc'])
                else:
                    ctx.ok('Y5', '%s: every stored token list is a token_infos result' % fn_, 'gamma', site=t['loc'])
        if not n:
            # iterator form: the closure(s) handed to map/collect return the token_infos result
            for c in bodies[1:]:
                r = strip(c.ret_expr(), transparent=False)
                if any(x[0] == 'call' and re.search(r'token_infos$', x[1]) for x in walk(c.ret_expr())):
                    n += 1
                    alts = [strip(a, transparent=False) for a, _ in alternatives(c, c.ret_expr())]
                    if all(a[0] == 'call' and re.search(r'token_infos$', a[1]) for a in alts):
                        ctx.ok('Y5', '%s: the mapping closure returns the token_infos result' % fn_, 'gamma', site=c.loc)
                    else:
                        ctx.finding('Y5', '%s/token-source' % fn_, '%s: the mapping closure returns %s' % (fn_, [render(a)[:60] for a in alts]), site=c.loc)
            if not n:
                raise AnchorLost('%s: cannot see how the token lists are collected (no push of a token list, no mapping closure)' % fn_)


def y6_field_syntax(ctx):
    """Y6 a pattern field {TYPE:name:extra} is read by the first field regex: NAME must exclude nothing a name may contain
    and EXTRA must accept every character an expected word can have (upper case, digits, non-ASCII letters); otherwise the
    pattern falls through to the two-part regex and is bound under the name 'name:extra' without the word constraint"""
    from ..data import all_groups, alphabet, ranges_subset
    ctx.rule('Y6', 'pattern field syntax', floor=2)
    fam = ctx.config.parse_family('field')
    if len(fam) < 2:
        raise AnchorLost('config.json parse.field: expected the three-part and the two-part field regex')
    need = [(0x30, 0x39), (0x41, 0x5a), (0x61, 0x7a), (0x5f, 0x5f), (0xc0, 0x24f), (0x400, 0x4ff)]
    three = [(p, h) for p, h in fam if h is not None and 'EXTRA' in all_groups(h)]
    two = [(p, h) for p, h in fam if h is not None and 'EXTRA' not in all_groups(h)]
    if not three or not two:
        raise AnchorLost('config.json parse.field: a field regex with and one without an EXTRA group are expected')
    for p, h in three:
        g = all_groups(h)
        for name in ('NAME', 'EXTRA'):
            if name not in g:
                ctx.finding('Y6', 'field/%s-missing' % name, 'field regex %r has no %s group' % (p, name), site='config.json parse.field')
                continue
            al = alphabet(g[name])
            if ranges_subset(need, al):
                ctx.ok('Y6', 'three-part field regex: %s accepts letters of any case, digits, non-ASCII letters' % name, 'regex-alphabet', site='config.json parse.field')
            else:
                miss = [r for r in need if not ranges_subset([r], al)]
                ctx.finding('Y6', 'field/%s-alphabet' % name, 'the %s part of {TYPE:name:extra} only accepts %s: a pattern whose %s contains e.g. %s falls through to the two-part regex, is bound under the wrong name and loses its expected word'
                            % (name, p[p.find('(?P<%s>' % name):][:40], name.lower(), ', '.join(repr(chr(lo)) for lo, _ in miss[:3])), site='config.json parse.field')
    # order: the three-part regex is tried first (the list order is the match priority for equal spans)
    if [p for p, _ in fam].index(three[0][0]) > [p for p, _ in fam].index(two[0][0]):
        ctx.finding('Y6', 'field/order', 'the two-part field regex precedes the three-part one', site='config.json parse.field')


RULES += [('Y5', y5_history_free), ('Y6', y6_field_syntax)]


def y7_matcher(ctx):
    """Y7 the pattern scan of rule_tokinizer / find_match, tabulated (scv/matcher.py): which tokens a rule function is handed
    for each named field and what the matched run is replaced by, on every line of up to three (thorough: four) tokens"""
    from ..matcher import matcher_table
    ctx.rule('Y7', 'pattern scan: matches, field bindings and replacement (tabulated)', floor=1)
    matcher_table(ctx, 'Y7', deep=(ctx.tier == 'thorough' and ctx.cfg_name == 'dev'))


RULES.append(('Y7', y7_matcher))
