"""C12 - Unit conversion matches the unit definitions; linear, invertible, transitive.

Decided: K1 adjacent steps are inverse; K2 every step / bridge equals the definition quoted in the
property; K5 every code string is linear; K4 the walk in calculate_unit applies the current item's
upgrade code when going up, downgrade code when going down, one index per step; K3 bridges connect
families of one kind and the family searched after a bridge depends on the bridge record; K6 the
arithmetic decision table of DynamicTypeItem::calculate; K7 unit literal patterns.
Not decided: f64 rounding of chained multiplications; separator dependence of the code strings (C08).
"""
import re
from fractions import Fraction

from ..facts import fn_key, render, strip, alternatives, resolve_conds, cond_str, walk, AnchorLost, field_path, implied_strs
from ..data import parse_code, abstract_tokens
from ..tables import spec
from ..common import check_binop_table, short_fn
from .. import model


def families(ctx):
    fam = {}
    for t in ctx.config.j['types']:
        fam[t['name']] = {it['index']: it for it in t['items']}
    return fam


def k5_linear(ctx):
    """K5 every unit / bridge code string is `{value}`, `{value} * c` or `{value} / c` with c > 0"""
    r = ctx.rule('K5', 'unit and bridge code strings are linear maps', floor=60)
    for fam, items in families(ctx).items():
        for idx, it in sorted(items.items()):
            for which in ('upgrade_code', 'downgrade_code'):
                code = it.get(which)
                if code is None:
                    ctx.ok('K5', '%s[%d].%s absent: item skipped by load_from_json' % (fam, idx, which), 'data')
                    continue
                f = parse_code(code)
                if f is None or f <= 0:
                    ctx.finding('K5', '%s/%s/%s' % (fam, it['names'][0] if it['names'] else idx, which),
                                'unit code %r of %s[%d] is not a positive linear map of {value}' % (code, fam, idx),
                                site='src/json/config.json types.%s[%d].%s' % (fam, idx, which))
                else:
                    ctx.ok('K5', '%s[%d].%s = %r -> x * %s' % (fam, idx, which, code, f), 'data')
    for n, tc in enumerate(ctx.config.j['type_conversion']):
        for which in ('to_source_calculation', 'to_target_calculation'):
            f = parse_code(tc[which])
            if f is None or f <= 0:
                ctx.finding('K5', 'bridge/%s-%s/%s' % (tc['source']['name'], tc['target']['name'], which),
                            'bridge code %r is not a positive linear map' % tc[which], site='src/json/config.json type_conversion[%d]' % n)
            else:
                ctx.ok('K5', 'bridge %s->%s %s = x * %s' % (tc['source']['name'], tc['target']['name'], which, f), 'data')


def k1_inverse(ctx):
    """K1 for adjacent indices (i, i+1) of a family: upgrade(i) o downgrade(i+1) = identity"""
    ctx.rule('K1', 'adjacent unit steps are mutually inverse', floor=25)
    for fam, items in families(ctx).items():
        for i in sorted(items):
            if i + 1 not in items:
                continue
            a, b = items[i], items[i + 1]
            up = parse_code(a.get('upgrade_code') or '')
            down = parse_code(b.get('downgrade_code') or '')
            if up is None or down is None:
                continue   # K5 reports it
            na, nb = a['names'][0], b['names'][0]
            if up * down != 1:
                ctx.finding('K1', '%s/%s-%s' % (fam, na, nb),
                            'unit steps not inverse in %s: %s -> %s multiplies by %s but %s -> %s multiplies by %s (product %s, must be 1)' % (
                                fam, na, nb, up, nb, na, down, up * down),
                            site='src/json/config.json types.%s items %d,%d' % (fam, i, i + 1),
                            detail={'upgrade_code': a['upgrade_code'], 'downgrade_code': b['downgrade_code']})
            else:
                ctx.ok('K1', '%s: %s<->%s factors %s * %s = 1' % (fam, na, nb, up, down), 'data')
    for n, tc in enumerate(ctx.config.j['type_conversion']):
        a = parse_code(tc['to_source_calculation'])
        b = parse_code(tc['to_target_calculation'])
        if a is None or b is None:
            continue
        if a * b != 1:
            ctx.finding('K1', 'bridge/%s-%s' % (tc['source']['name'], tc['target']['name']),
                        'bridge codes are not inverse: %r and %r' % (tc['to_source_calculation'], tc['to_target_calculation']),
                        site='src/json/config.json type_conversion[%d]' % n)
        else:
            ctx.ok('K1', 'bridge %s<->%s factors %s * %s = 1' % (tc['source']['name'], tc['target']['name'], a, b), 'data')


def k2_definitions(ctx):
    """K2 every step equals the ratio of the definitions quoted in the property; bridges equal 25.4 / 28349.5231"""
    ctx.rule('K2', 'unit steps and bridges equal the definitions of the statement', floor=50)
    fams = families(ctx)
    for fam, items in fams.items():
        ref = spec.UNIT_VALUE.get(fam)
        if ref is None:
            ctx.note('K2: family %r is not among the families the property names; only K1/K5 apply to it' % fam)
            continue
        for i in sorted(items):
            it = items[i]
            name = it['names'][0]
            if name not in ref:
                ctx.finding('K2', '%s/%s/unknown-unit' % (fam, name), 'unit %r of %s has no definition in the reference table' % (name, fam),
                            site='src/json/config.json types.%s[%d]' % (fam, i))
                continue
            if i + 1 in items and items[i + 1]['names'][0] in ref:
                nxt = items[i + 1]
                ratio = ref[nxt['names'][0]] / ref[name]       # 1 next = ratio this
                up = parse_code(it.get('upgrade_code') or '')
                down = parse_code(nxt.get('downgrade_code') or '')
                if up is not None:
                    if up * ratio != 1:
                        ctx.finding('K2', '%s/%s/upgrade' % (fam, name),
                                    '%s -> %s multiplies by %s; by definition 1 %s = %s %s, so it must multiply by %s' % (
                                        name, nxt['names'][0], up, nxt['names'][0], ratio, name, 1 / ratio),
                                    site='src/json/config.json types.%s[%d].upgrade_code' % (fam, i))
                    else:
                        ctx.ok('K2', '%s: %s->%s factor %s = 1/%s' % (fam, name, nxt['names'][0], up, ratio), 'data')
                if down is not None:
                    if down != ratio:
                        ctx.finding('K2', '%s/%s/downgrade' % (fam, nxt['names'][0]),
                                    '%s -> %s multiplies by %s; by definition 1 %s = %s %s' % (
                                        nxt['names'][0], name, down, nxt['names'][0], ratio, name),
                                    site='src/json/config.json types.%s[%d].downgrade_code' % (fam, i + 1))
                    else:
                        ctx.ok('K2', '%s: %s->%s factor %s' % (fam, nxt['names'][0], name, down), 'data')
    for n, tc in enumerate(ctx.config.j['type_conversion']):
        s, t = tc['source'], tc['target']
        try:
            su = fams[s['name']][s['index']]['names'][0]
            tu = fams[t['name']][t['index']]['names'][0]
        except KeyError:
            ctx.ok('K2', 'bridge %d names a missing unit: dropped by load_from_json' % n, 'data')
            continue
        want = spec.BRIDGES.get(((s['name'], su), (t['name'], tu)))
        inv = spec.BRIDGES.get(((t['name'], tu), (s['name'], su)))
        if want is None and inv is not None:
            want = 1 / inv
        if want is None:
            ctx.note('K2: bridge %s:%s -> %s:%s is not among the bridges the property names' % (s['name'], su, t['name'], tu))
            continue
        a = parse_code(tc['to_source_calculation'])   # applied when converting FROM the bridge's `source` family (see K3)
        b = parse_code(tc['to_target_calculation'])
        for which, got, exp in (('to_source_calculation', a, want), ('to_target_calculation', b, 1 / want)):
            if got is None:
                continue
            if got != exp:
                ctx.finding('K2', 'bridge/%s-%s/%s' % (su, tu, which), 'bridge %s<->%s: %s multiplies by %s, definition says %s' % (su, tu, which, got, exp),
                            site='src/json/config.json type_conversion[%d].%s' % (n, which))
            else:
                ctx.ok('K2', 'bridge %s<->%s %s = %s' % (su, tu, which, got), 'data')


def k3_kinds(ctx):
    """K3 bridges connect families of one kind; after a bridge the target unit is searched in the bridged family only"""
    ctx.rule('K3', 'no conversion across kinds', floor=3)
    for n, tc in enumerate(ctx.config.j['type_conversion']):
        ks, kt = spec.FAMILY_KIND.get(tc['source']['name']), spec.FAMILY_KIND.get(tc['target']['name'])
        if ks is None or kt is None:
            ctx.note('K3: bridge %d connects a family without a declared kind' % n)
            continue
        if ks != kt:
            ctx.finding('K3', 'bridge/%s-%s' % (tc['source']['name'], tc['target']['name']), 'bridge connects %s (%s) with %s (%s)' % (tc['source']['name'], ks, tc['target']['name'], kt),
                        site='src/json/config.json type_conversion[%d]' % n)
        else:
            ctx.ok('K3', 'bridge %s<->%s both %s' % (tc['source']['name'], tc['target']['name'], ks), 'data')
    # code clause: in DynamicTypeItem::convert the `group` argument of the LAST calculate_unit call (the one
    # after the bridge code ran) must be derived from the bridge record (type_conversion.{source,target}.name),
    # not from an iteration over all families.
    b = ctx.facts.one(r'DynamicTypeItem::convert$')
    ctx.fn(b)
    calls = list(b.calls(r'DynamicTypeItem::calculate_unit$'))
    if len(calls) < 2:
        raise AnchorLost('convert no longer calls calculate_unit for both the in-family and the bridged case')
    bridged = []
    for bid, t in calls:
        from ..facts import inline_calls
        num = render(inline_calls(ctx.facts, b.expr(t['args'][1]), depth=2))
        if 'basic_execute' in num:
            bridged.append((bid, t))
    if not bridged:
        raise AnchorLost('no calculate_unit call in convert consumes the bridged number')
    for bid, t in bridged:
        grp = b.expr(t['args'][4])
        txt = render(grp)
        tgt = render(b.expr(t['args'][3]))
        uses_bridge = bool(re.search(r'type_conversion|JsonTypeConversion', txt)) or any(
            x[0] == 'field' and x[2] in ('source', 'target') and 'JsonTypeConversion' in (x[3] if len(x) > 3 else '') for x in walk(grp))
        iterates_all = 'config.types' in txt and re.search(r'Iter|iter|next', txt)
        if not uses_bridge:
            ctx.finding('K3', 'convert/target-family-independent-of-bridge',
                        'after a bridge, the family in which the target unit is looked up does not depend on the bridge record: group = %s' % txt[:160],
                        site=t['loc'], detail={'group': txt, 'target': tgt, 'iterates_all_families': bool(iterates_all)})
        else:
            ctx.ok('K3', 'bridged calculate_unit searches family derived from the bridge record', 'slice', site=t['loc'])


def k4_walk(ctx):
    """K4 calculate_unit: upgrade code of the current item when source.index < target.index, else downgrade; index moves by 1"""
    ctx.rule('K4', 'shape of the unit walk', floor=4)
    b = ctx.facts.one(r'DynamicTypeItem::calculate_unit$')
    ctx.fn(b)
    be = model.deep_calls(ctx, b, r'SmartCalc::basic_execute$')
    if len(be) != 1:
        raise AnchorLost('calculate_unit: expected one basic_execute call (in it or in a private helper), found %d' % len(be))
    wb, t, bargs = be[0]
    arg = strip(bargs[0])
    src_n, tgt_n = b.arg_names.get(3, 'source_type'), b.arg_names.get(4, 'target_type')

    def direction_of(c):
        """'up' when the condition says target.index > source.index (the two are known to differ), 'down' for the opposite"""
        m = re.fullmatch(r'\((\w+)\.index (Gt|Lt|Ge|Le) (\w+)\.index\)(!?)=\[0\]', c or '')
        if not m or {m.group(1), m.group(3)} != {src_n, tgt_n}:
            return None
        l, op, r, neg = m.groups()
        holds = neg == '!'
        # normalise to a statement about (source ? target)
        if l == tgt_n:
            op = {'Gt': 'Lt', 'Lt': 'Gt', 'Ge': 'Le', 'Le': 'Ge'}[op]
        src_less = op in ('Lt', 'Le')
        return 'up' if src_less == holds else 'down'
    if arg[0] != 'call' or not re.search(r'str.*::replace$', arg[1]):
        raise AnchorLost('calculate_unit: basic_execute argument is not code.replace("{value}", ..): %s' % render(arg)[:120])
    code = arg[2][0]
    alts = alternatives(b, code)
    seen = {}
    for a, conds in alts:
        fields = [x[2] for x in walk(a) if x[0] == 'field' and x[2] in ('upgrade_code', 'downgrade_code')]
        rc = implied_strs(b, conds)
        direction = [c for c in rc if re.search(r'index (Gt|Lt|Ge|Le) .*index', c)]
        if len(fields) != 1 or len(direction) != 1:
            ctx.finding('K4', 'calculate_unit/code-selection-not-extractable', 'cannot extract which code string is applied: %s under %s' % (render(a)[:100], rc), site=t['loc'])
            continue
        seen[fields[0]] = direction[0]
    want = {'upgrade_code': 'up', 'downgrade_code': 'down'}
    for f in ('upgrade_code', 'downgrade_code'):
        got = seen.get(f)
        if got is None:
            ctx.finding('K4', 'calculate_unit/%s-unused' % f, 'calculate_unit never applies %s' % f, site=t['loc'])
        elif direction_of(got) == want[f]:
            ctx.ok('K4', '%s applied when walking %s (%s)' % (f, want[f], got), 'gamma', site=t['loc'])
        else:
            ctx.finding('K4', 'calculate_unit/%s-direction' % f, '%s is applied under %s; it must be applied exactly when the walk goes %s (source index %s target index)' % (f, got, want[f], '<' if want[f] == 'up' else '>'), site=t['loc'])
    # the item whose code is applied is the *current* one: looked up by source_type.index first, then by the moving index
    item_txt = render(code)
    if not re.search(r'BTreeMap::get\(group, source_type\.index\)', item_txt):
        ctx.finding('K4', 'calculate_unit/first-item', 'the first step does not use the code of the source unit', site=t['loc'])
    else:
        ctx.ok('K4', 'first step uses group[source_type.index]', 'wiring')
    # index steps: every AddWithOverflow/SubWithOverflow on the moving index uses the constant 1 and the direction of the comparison
    steps = []
    for i in b.normal_blocks:
        for s in b.blocks[i]['stmts']:
            if s['k'] == 'assign' and s['rv'] == 'binop' and s['op'] in ('AddWithOverflow', 'SubWithOverflow', 'Add', 'Sub'):
                ty = s['lhs']['ty']
                if 'usize' not in ty:
                    continue
                rhs = b.expr(s['ops'][1])
                rc = implied_strs(b, tuple((d, v) for (_, d, v) in b.conditions(i)))
                direction = [c for c in rc if re.search(r'index (Gt|Lt|Ge|Le) .*index', c)]
                steps.append((s['op'], render(rhs), direction[-1] if direction else None, s['loc']))
    if len(steps) < 4:
        raise AnchorLost('calculate_unit: expected 4 index steps (2 initial, 2 in the loop), found %d' % len(steps))
    for op, c, direction, loc in steps:
        up = op.startswith('Add')
        exp = 'up' if up else 'down'
        if c != '1':
            ctx.finding('K4', 'calculate_unit/step-size', 'unit walk moves the index by %s instead of 1' % c, site=loc)
        elif direction_of(direction) != exp:
            ctx.finding('K4', 'calculate_unit/step-direction', 'index %s under %s, expected when walking %s' % ('+1' if up else '-1', direction, exp), site=loc)
        else:
            ctx.ok('K4', 'index %s1 under %s' % ('+' if up else '-', direction), 'gamma', site=loc)
    # which bridge code is used for which direction (semantics used by K2)
    cv = ctx.facts.one(r'DynamicTypeItem::convert$')
    for bid2, t2 in cv.calls(r'SmartCalc::basic_execute$'):
        a2 = strip(cv.expr(t2['args'][0]))
        if a2[0] != 'call' or not re.search(r'str.*::replace$', a2[1]):
            raise AnchorLost('convert: bridge basic_execute argument shape changed')
        sel = {}
        from ..facts import resolve_elements
        src_ = a2[2][0]
        if not any(x[0] == 'field' and x[2] in ('to_source_calculation', 'to_target_calculation') for x in walk(src_)):
            src_ = resolve_elements(ctx.facts, src_)         # the code read through find_map(|entry| ..) / a small struct of the entry
        for a, conds in alternatives(cv, src_):
            fs = [x[2] for x in walk(a) if x[0] == 'field' and x[2] in ('to_source_calculation', 'to_target_calculation')]
            rc = [cond_str(d, v) for d, v in resolve_conds(cv, conds)]
            eqs = [c for c in rc if 'source.name' in c and 'group_name' in c and 'eq(' in c]
            if len(fs) == 1 and eqs:
                sel[fs[0]] = eqs[-1]
        exp_s = re.compile(r'eq\(.*source\.name.*group_name.*\)!=\[0\]|eq\(.*group_name.*source\.name.*\)!=\[0\]')
        exp_t = re.compile(r'eq\(.*source\.name.*group_name.*\)=\[0\]|eq\(.*group_name.*source\.name.*\)=\[0\]')
        if exp_s.search(sel.get('to_source_calculation', '')) and exp_t.search(sel.get('to_target_calculation', '')):
            ctx.ok('K4', 'bridge: to_source_calculation applied iff the quantity is in the bridge\'s source family', 'gamma', site=t2['loc'])
        else:
            ctx.finding('K4', 'convert/bridge-code-selection', 'bridge code selection changed: %s' % sel, site=t2['loc'])


def k4b_result(ctx):
    """K4b the result of calculate_unit is the walk's accumulator itself (no rounding, clamping or rescaling afterwards:
    any absolute post-processing breaks linearity for small amounts); convert hands it on unchanged. The accumulator is
    identified by what it holds (the variable that receives the result of the step code inside the walk), not by its name."""
    ctx.rule('K4b', 'conversion result is the accumulated value', floor=3)
    b = ctx.facts.one(r'DynamicTypeItem::calculate_unit$')
    ctx.fn(b)
    # the accumulator: locals assigned, inside the loop, a value that comes out of the step execution (in b or its helpers)
    step_rx = r'SmartCalc::basic_execute$'
    helpers = set(hb.path for hb, t_, a_ in model.deep_calls(ctx, b, step_rx) if hb.path != b.path)
    acc = set()
    for i in b.normal_blocks:
        if not b.in_loop(i):
            continue
        bl = b.blocks[i]
        for st in bl['stmts']:
            if st['k'] == 'assign' and not st['lhs']['proj'] and st['lhs'].get('ty') == 'f64':
                r = render(b.expr(st['ops'][0])) if st['ops'] else ''
                if 'basic_execute' in r or any(fn_key(h).rsplit('::', 1)[-1] + '(' in r for h in helpers):
                    acc.add(st['lhs']['local'])
    # transitively: locals that are plain copies of an accumulator / initialised from the amount parameter
    amount_param = [i for i in range(1, b.argc + 1) if b.locals.get(i) == 'f64']
    names_ok = set(b.names.get(l) for l in acc if b.names.get(l)) | set(b.arg_names.get(i) for i in amount_param)
    if not acc:
        raise AnchorLost('calculate_unit: no variable receives the result of the step code inside the walk')
    n = 0
    for i in b.normal_blocks:
        for st in b.blocks[i]['stmts']:
            if st['k'] == 'assign' and st['lhs']['local'] == 0 and not st['lhs']['proj'] and st['rv'] == 'aggr' and st['adt'].endswith('Option::Some'):
                n += 1
                r = render(b.mexpr(st['ops'][0])).lstrip('$')
                if r in names_ok:
                    ctx.ok('K4b', 'calculate_unit returns Some(%s): the accumulated amount, unchanged' % r, 'use-def', site=st['loc'], sample=n < 2)
                else:
                    ctx.finding('K4b', 'calculate_unit/result-post-processed', 'calculate_unit returns %s instead of the accumulated amount: the conversion is no longer the composition of the configured steps' % r[:100], site=st['loc'])
    if n < 2:
        raise AnchorLost('calculate_unit: expected the same-unit and the walked result, found %d Some(..) results' % n)
    # which amounts skip the walk: only "source unit = target unit" may; a shortcut that depends on the *amount* (small, zero,
    # negative ..) relabels those amounts instead of converting them and breaks linearity / round trips
    from ..facts import implied_strs
    amt = set(b.arg_names.get(i) for i in amount_param)
    for i in b.normal_blocks:
        for st in b.blocks[i]['stmts']:
            if st['k'] == 'assign' and st['lhs']['local'] == 0 and not st['lhs']['proj'] and st['rv'] == 'aggr' and st['adt'].endswith('Option::Some') and not b.in_loop(i):
                r = render(b.mexpr(st['ops'][0])).lstrip('$')
                if r not in amt:
                    continue
                for (_, d, v) in b.conditions(i):
                    for x in walk(d):
                        if x[0] in ('binop', 'call') and any(render(y).lstrip('$') in amt or any(render(z).lstrip('$') in amt for z in walk(y)) for y in (x[2:4] if x[0] == 'binop' else x[2])) and (x[0] == 'binop' and x[1] in ('Lt', 'Le', 'Gt', 'Ge', 'Eq', 'Ne')):
                            ctx.finding('K4b', 'calculate_unit/shortcut-on-amount', 'calculate_unit hands the amount back unconverted under %s: whether an amount is converted must not depend on the amount' % render(x)[:100], site=st['loc'])
        t_ = b.blocks[i]['term']
        if t_['k'] == 'switch' and not b.in_loop(i):
            d = b.expr(t_['discr'])
            for x in walk(d):
                if x[0] == 'binop' and x[1] in ('Lt', 'Le', 'Gt', 'Ge') and any(any(render(z).lstrip('$') in amt for z in walk(y)) for y in (x[2], x[3])):
                    # a decision on the amount in front of the walk (`if number.abs() < EPSILON || same unit { return .. }`)
                    rets = [j for j in b.normal_blocks for st2 in b.blocks[j]['stmts'] if st2['k'] == 'assign' and st2['lhs']['local'] == 0 and not st2['lhs']['proj'] and not b.in_loop(j) and b.can_reach(i, j)]
                    if rets:
                        ctx.finding('K4b', 'calculate_unit/shortcut-on-amount', 'calculate_unit decides on %s before the walk: whether an amount is converted must not depend on the amount' % render(x)[:100], site=b.blocks[i].get('loc') or b.loc)
    for i in b.normal_blocks:
        for st in b.blocks[i]['stmts']:
            if st['k'] == 'assign' and st['lhs']['local'] in acc and not st['lhs']['proj'] and b.in_loop(i):
                r = render(b.expr(st['ops'][0])) if st['rv'] == 'use' else st['rv']
                if st['rv'] != 'use' or not ('basic_execute' in r or any(fn_key(h).rsplit('::', 1)[-1] + '(' in r for h in helpers)):
                    ctx.finding('K4b', 'calculate_unit/accumulator-write', 'inside the walk the amount is assigned %s, not the result of the step code' % r[:80], site=st['loc'])
    c = ctx.facts.one(r'DynamicTypeItem::convert$')
    ctx.fn(c)
    bad = 0
    for i in c.normal_blocks:
        for st in c.blocks[i]['stmts']:
            if st['k'] == 'assign' and st['rv'] == 'binop' and st['lhs'].get('ty') == 'f64':
                bad += 1
                ctx.finding('K4b', 'convert/arithmetic', 'convert does arithmetic of its own on the amount (%s): conversions must be the configured steps only' % st['op'], site=st['loc'])
    if not bad:
        ctx.ok('K4b', 'convert does no arithmetic of its own on the amount', 'shape', site=c.loc)


def k6_table(ctx):
    """K6 decision table of DynamicTypeItem::calculate"""
    ctx.rule('K6', 'arithmetic table of unit quantities', floor=5)
    b = ctx.facts.one(r'<compiler::dynamic_type::DynamicTypeItem as compiler::DataItem>::calculate$')
    ctx.fn(b)
    # (1) the other quantity is converted into self's unit: convert(config, other.get_number(), other.get_type(), self.1.names[0])
    cv = list(b.calls(r'DynamicTypeItem::convert$'))
    if len(cv) != 1:
        raise AnchorLost('DynamicTypeItem::calculate: expected one convert call, found %d' % len(cv))
    bid, t = cv[0]
    a_num, a_src, a_tgt = (render(b.expr(t['args'][i])) for i in (1, 2, 3))
    conds = b.cond_text(bid)
    okc = any('"DYNAMIC_TYPE"' in c for c in conds)
    if 'self.1.names' not in a_tgt or not re.search(r'\[0\]|, 0\)', a_tgt):
        ctx.finding('K6', 'calculate/convert-target', 'the right operand is not converted into the left operand\'s unit (target = %s)' % a_tgt, site=t['loc'])
    elif 'self' in a_num or 'self' in a_src:
        ctx.finding('K6', 'calculate/convert-source', 'convert is fed the left operand instead of the right one (%s, %s)' % (a_num, a_src), site=t['loc'])
    elif not okc:
        ctx.finding('K6', 'calculate/convert-arm', 'convert is not under the "DYNAMIC_TYPE" arm: %s' % conds, site=t['loc'])
    else:
        ctx.ok('K6', 'other converted into self.1.names[0] under the DYNAMIC_TYPE arm', 'gamma', site=t['loc'])
    # (2) operation table and result kinds
    raw = check_binop_table(ctx, b, 'K6', result_adt='compiler::dynamic_type::DynamicTypeItem', same_kind_quotient=True)
    # (3) on every path of the DYNAMIC_TYPE arm the operand that enters the arithmetic is the *converted* amount
    seen = set()
    n = 0
    for variant, rows in sorted((raw or {}).items()):
        for l, r in rows:
            for operand in (l, r):
                for a, conds in alternatives(b, operand):
                    cs = [cond_str(d, v) for d, v in resolve_conds(b, conds)]
                    if not any('"DYNAMIC_TYPE")!=[0]' in c for c in cs):
                        continue
                    txt = render(a)
                    n += 1
                    if 'DynamicTypeItem::convert(' in txt:
                        continue
                    extra = [c for c in cs if 'type_name' not in c and not c.startswith('on_left') and 'downcast_ref' not in c]
                    key = 'calculate/unconverted-operand'
                    if key not in seen:
                        seen.add(key)
                        ctx.finding('K6', key, 'under the DYNAMIC_TYPE arm the amount %s enters the arithmetic without conversion into the left operand\'s unit (when %s): quantities of different units or families are combined as if they were the same' % (txt[:80], extra[:2] or 'always'), site=b.loc)
    if n and not seen:
        ctx.ok('K6', 'every operand of the DYNAMIC_TYPE arm is the result of convert(..) (%d operand alternatives)' % n, 'gamma', site=b.loc)
    elif not n:
        ctx.finding('K6', 'calculate/dynamic-arm-operands', 'no arithmetic operand is tied to the DYNAMIC_TYPE arm: the table could not be extracted', site=b.loc)


def k7_patterns(ctx):
    """K7 unit literal patterns: `{NUMBER:value} {TEXT:type:<name>}` with <name> among the unit's names; >= 2 tokens"""
    ctx.rule('K7', 'unit literal patterns', floor=60)
    for fam, it in ctx.config.units():
        for p in it['parse']:
            toks = abstract_tokens(p)
            fl = [t for t in toks if t[0] == 'field']
            val = [t for t in fl if t[1] == 'NUMBER' and t[2] == 'value']
            if not val:
                ctx.finding('K7', '%s/%s/no-value-field' % (fam, p), 'unit pattern %r binds no {NUMBER:value}: dynamic_type_tokinizer unwraps it' % p,
                            site='src/json/config.json types.%s[%d].parse' % (fam, it['index']))
                continue
            if len(toks) < 2:
                ctx.finding('K7', '%s/%s/one-token' % (fam, p), 'unit pattern %r has fewer than two tokens (rewrite loop would not shrink)' % p,
                            site='src/json/config.json types.%s[%d].parse' % (fam, it['index']))
                continue
            ty = [t for t in fl if t[1] == 'TEXT' and t[2] == 'type']
            if not ty:
                ctx.note('K7: unit pattern %r of %s binds no {TEXT:type:..}; the unit word is matched literally' % (p, fam))
            ctx.ok('K7', 'pattern %r: %d tokens, binds value' % (p, len(toks)), 'data', sample=False)


def k8_pure(ctx):
    """K8 conversion is a function of its inputs: calculate_unit / convert / calculate write no state"""
    from ..effects import cell_writes, collection_writes, spine_fields
    ctx.rule('K8', 'unit conversion keeps no memory', floor=3)
    for rx in (r'DynamicTypeItem::calculate_unit$', r'DynamicTypeItem::convert$', r'^<compiler::dynamic_type::DynamicTypeItem as compiler::DataItem>::calculate$'):
        b = ctx.facts.one(rx)
        ctx.fn(b)
        bad = False
        for bid, t, method, recv in cell_writes(b):
            bad = True
            ctx.finding('K8', '%s/cell-write/%s' % (short_fn(b), method), '%s writes shared state (%s on %s): a conversion result may now depend on earlier conversions, not only on the amount and the unit tables' % (short_fn(b), method, render(recv)[:100]), site=t['loc'])
        for bid, t, method, recv in collection_writes(b):
            f = spine_fields(recv)
            if any(x.startswith('config::SmartCalcConfig.') for x in f):
                bad = True
                ctx.finding('K8', '%s/config-write/%s' % (short_fn(b), method), '%s mutates configuration data (%s on %s)' % (short_fn(b), method, render(recv)[:100]), site=t['loc'])
        if not bad:
            ctx.ok('K8', '%s writes no shared state' % short_fn(b), 'effects', site=b.loc)


def k9_unit_words_free(ctx):
    """K9 the money tokenizer runs before the unit tokenizer and claims 'N w' whenever w is a currency code or alias: no
    spelling of a unit may be one (it would never be read as that unit again)"""
    from ..data import all_groups, hir_accepts
    ctx.rule('K9', 'unit spellings are not claimed by the money reader', floor=60)
    cur = {}
    for k, v in ctx.config.j.get('currency_alias', {}).items():
        cur.setdefault(k.lower(), 'alias of %s' % v)
    for k in ctx.config.j.get('currencies', {}):
        cur.setdefault(k.lower(), 'currency code')
    chirs = []
    for p, h in ctx.config.parse_family('money'):
        if h is None:
            continue
        g = all_groups(h)
        if 'CURRENCY' in g:
            chirs.append(g['CURRENCY'])
    if not chirs:
        raise AnchorLost('config.json parse.money: no regex with a CURRENCY group')
    for fam, it in ctx.config.units():
        for p in it['parse']:
            words = [t[3] for t in abstract_tokens(p) if t[0] == 'field' and t[1] == 'TEXT' and t[3]] + [t[1] for t in abstract_tokens(p) if t[0] == 'word']
            for w in words:
                why = cur.get(w.lower())
                if why and any(hir_accepts(h, w) or hir_accepts(h, w.lower()) for h in chirs):
                    ctx.finding('K9', '%s/%s/claimed-by-money' % (fam, w), "the unit spelling %r (%s, pattern %r) is also a %s: the money reader takes 'N %s' first and the quantity is never read as a %s"
                                % (w, fam, p, why, w, it['names'][0]), site='src/json/config.json types.%s[%d].parse' % (fam, it['index']))
                else:
                    ctx.ok('K9', 'unit spelling %r is not a currency word' % w, 'data', sample=False)


RULES = [('K9', k9_unit_words_free), ('K5', k5_linear), ('K1', k1_inverse), ('K2', k2_definitions), ('K3', k3_kinds), ('K4', k4_walk), ('K4b', k4b_result), ('K6', k6_table), ('K7', k7_patterns), ('K8', k8_pure)]


def k10_unique_fields(ctx):
    """K10 a pattern that names two fields alike loses one of the matched tokens (shared rule)"""
    from ..common import unique_field_names
    unique_field_names(ctx, 'K10', ('dynamic_type_convert',), floor=1)


RULES.append(('K10', k10_unique_fields))


def k11_lexical(ctx):
    """K11 every unit spelling reaches the unit reader as a word (E7b lexical competition model: month stage, regex families in TOKEN_REGEX_PARSER order with first-claim-wins,
    alias stage; samples generated from the configuration)"""
    from ..lexrules import run_samples, number_samples, based_samples, money_samples, unit_samples, month_samples, zone_samples, duration_samples, percent_samples, keyword_samples
    ctx.rule('K11', 'every unit spelling reaches the unit reader as a word', floor=120)
    run_samples(ctx, 'K11', unit_samples(ctx))


RULES.append(('K11', k11_lexical))


def k12_matcher(ctx):
    """K12 the pattern scan of rule_tokinizer / find_match, tabulated (scv/matcher.py): which tokens a rule function is handed
    for each named field and what the matched run is replaced by, on every line of up to three (thorough: four) tokens"""
    from ..matcher import matcher_table
    ctx.rule('K12', 'pattern scan: matches, field bindings and replacement (tabulated)', floor=1)
    matcher_table(ctx, 'K12', deep=(ctx.tier == 'thorough' and ctx.cfg_name == 'dev'))


RULES.append(('K12', k12_matcher))


def k13_exact_names(ctx):
    """K13 a unit is found by its name as written: the conversion code compares unit names by equality only (Vec::contains,
    ==). A prefix / suffix / substring test makes `mile` find `m` (the first unit of the family one of whose names starts the
    word) and converts into the wrong unit instead of refusing."""
    ctx.rule('K13', 'unit names are compared by equality only', floor=1)
    n = 0
    for b in ctx.facts.src_bodies():
        if not re.search(r'^(<)?compiler::dynamic_type::|^compiler::dynamic_type::', b.path) and not (b.rec.get('parent') or '').startswith('compiler::dynamic_type::'):
            continue
        n += 1
        ctx.fn(b)
        for bid, t in b.calls(r'str::<impl str>::(starts_with|ends_with|contains|find|rfind|strip_prefix|strip_suffix|matches|eq_ignore_ascii_case)$|str::pattern'):
            ctx.finding('K13', '%s/loose-name-test/%s' % (fn_key(b.path), t['callee']['path'].rsplit('::', 1)[-1]), '%s tests a unit name with %s: units are found by equality of names only (a prefix or substring test finds the wrong unit for a longer word)' % (fn_key(b.path), t['callee']['path'].rsplit('::', 1)[-1]), site=t['loc'])
    if n == 0:
        raise AnchorLost('no body of compiler::dynamic_type found')
    if not any(f['rule'] == 'K13' for f in ctx.findings):
        ctx.ok('K13', '%d bodies of the unit conversion: no prefix / suffix / substring test on names' % n, 'who-may-call', site='src/compiler/dynamic_type.rs')


RULES.append(('K13', k13_exact_names))
