"""C06 - Money literals, currency conversion and money arithmetic follow the rate table.

M1 conversion formula (two siblings) = amount / rate(from) * rate(to); M2 who may write the rate table and with
which key/value; M3 decision table of MoneyItem::calculate; M4 money regex groups and read_currency order;
M5 alias targets / rate keys name existing currencies.
Not decided: exactness of x / r * r for A = B; literal recognition on all strings.
"""
import re

from ..facts import render, strip, alternatives, resolve_conds, cond_str, walk, AnchorLost, fn_key
from ..data import all_groups, mandatory_groups
from ..ratfun import Rat, to_rat, NotArithmetic
from ..common import rule_body, pattern_field_check, result_alternatives, check_binop_table
from .. import model

AM, RF, RT = Rat.sym('amount'), Rat.sym('rate_from'), Rat.sym('rate_to')
WANT = AM / RF * RT


OPAQUE = r'tools::do_divition$|^tokinizer::tools::(get_|read_currency)'


def conv_values(ctx, b, e):
    """inline crate-local helpers, then expand every phi nested in the arithmetic into alternatives"""
    from ..facts import inline_calls
    e = inline_calls(ctx.facts, e, depth=3, skip=OPAQUE)
    return expand_inner(b, e, ())


def make_leaf(src_re, tgt_re):
    def leaf(e):
        t = render(e)
        if re.fullmatch(r'(?:%s)\.0' % src_re, t):
            return 'amount'
        m = re.fullmatch(r'BTreeMap::get\(config\.currency_rate, (.*)\) as Some\.0', t)
        if m:
            k = m.group(1)
            if re.fullmatch(r'(?:%s)\.1' % src_re, k):
                return 'rate_from'
            if re.fullmatch(tgt_re, k):
                return 'rate_to'
        return None
    return leaf


def check_conversion(ctx, b, value_expr, leaf, key, what, allow_zero_when_rate_missing, site):
    n_ok = 0
    for a, conds in conv_values(ctx, b, value_expr):
        a = strip(a)
        cs = [cond_str(d, v) for d, v in conds]
        missing = any('currency_rate' in c and (c.endswith('!=[1]') or c.endswith('=[0]')) for c in cs)
        zero = (a[0] == 'const' and a[2] == 0.0) or (a[0] != 'const' and any(x[0] == 'const' and x[2] == 0.0 for x in walk(a)))
        if zero and missing and allow_zero_when_rate_missing:
            continue      # MoneyItem arithmetic with a currency that has no rate: 0 (outside the quantifier "currencies that have a rate")
        try:
            got = to_rat(a, leaf, strip)
        except NotArithmetic as e:
            ctx.finding('M1', '%s/not-arithmetic' % key, '%s: value %s is not amount / rate(from) * rate(to) (%s)' % (what, render(a)[:160], e), site=site)
            continue
        if got.equals(WANT):
            n_ok += 1
            ctx.ok('M1', '%s == amount / rate(from) * rate(to)' % what, 'ratfun', site=site)
        else:
            ctx.finding('M1', '%s/formula' % key, '%s computes %s%s; the statement says amount * rate(B)/rate(A) with the rates of the table' % (
                what, render(a)[:200], (' when ' + ' & '.join(cs)[:160]) if cs else ''), site=site)
    return n_ok


def m1_formula(ctx):
    """M1 convert_money and MoneyItem::convert_currency both compute amount / rate(from) * rate(to)"""
    ctx.rule('M1', 'currency conversion formula (two siblings)', floor=2)
    # sibling 1: the rule function
    b = rule_body(ctx, 'convert_money')
    ctx.fn(b)
    SRC = r'tools::get_money\(config, "[^"]+", fields\) as Some\.0'
    TGT = r'tools::get_currency\(config, "[^"]+", fields\) as Some\.0'
    n = 0
    for v, inner, conds in result_alternatives(b):
        if v != 'Ok':
            continue
        n += 1
        if inner[0] != 'aggr' or inner[1] != 'types::TokenType::Money':
            ctx.finding('M1', 'convert_money/result-kind', 'convert_money returns %s, not money' % render(inner)[:60], site=b.loc)
            continue
        ok = check_conversion(ctx, b, inner[2][0], make_leaf(SRC, TGT), 'convert_money', 'convert_money', False, b.loc)
        cur = render(inner[2][1])
        if not re.fullmatch(TGT, cur):
            ctx.finding('M1', 'convert_money/result-currency', 'converted amount is labelled with %s instead of the target currency' % cur[:80], site=b.loc)
        elif ok:
            ctx.ok('M1', 'convert_money result is labelled with the target currency', 'wiring', site=b.loc)
    if n < 1:
        raise AnchorLost('convert_money: no Ok result found')
    # sibling 2: MoneyItem::convert_currency(self, config, left): converts `left` into self's currency
    c = ctx.facts.one(r'^compiler::money::MoneyItem::convert_currency$')
    ctx.fn(c)
    names = [re.escape(str(c.arg_names.get(i))) for i in (1, 3)]     # (self, config, the other money): slots by position, not by name
    ok = check_conversion(ctx, c, c.local_expr(0), make_leaf(names[1], names[0] + r'\.1'), 'convert_currency', 'MoneyItem::convert_currency', True, c.loc)
    if ok < 1:
        raise AnchorLost('MoneyItem::convert_currency: no arithmetic alternative found')


def expand_inner(b, e, conds):
    """expand phi nodes nested in the arguments of arithmetic nodes (as_usd is a phi of 0.0 and the quotient)"""
    e = strip(e)
    if e[0] == 'call' and len(e[2]) == 2 and re.search(r'::(mul|add|sub|div)$|do_divition$', e[1]):
        out = []
        for l, c1 in expand_inner(b, e[2][0], conds):
            for r, c2 in expand_inner(b, e[2][1], c1):
                out.append((('call', e[1], [l, r], e[3]), c2))
        return out
    if e[0] == 'binop':
        out = []
        for l, c1 in expand_inner(b, e[2], conds):
            for r, c2 in expand_inner(b, e[3], c1):
                out.append((('binop', e[1], l, r), c2))
        return out
    alts = alternatives(b, e, _conds=conds)
    if len(alts) == 1 and alts[0][0] is e:
        return alts
    out = []
    for a, c in alts:
        sa = strip(a)
        if sa[0] in ('call', 'binop', 'phi') and sa is not e and (sa[0] != 'call' or re.search(r'::(mul|add|sub|div)$|do_divition$', sa[1])):
            out += expand_inner(b, sa, c)
        else:
            out.append((a, c))
    return out


def m2_rate_owner(ctx):
    """M2 currency_rate is written only by load_from_json and update_currency; key = resolved currency, value = rate"""
    ctx.rule('M2', 'who may write the rate table', floor=2)
    writers = {}
    for b in ctx.facts.src_bodies():
        for bid, t in b.calls(r'BTreeMap::<.*>::(insert|remove|clear|entry|get_mut|retain|append|extend)$|BTreeMap.*::(insert|remove|clear|entry|get_mut)$'):
            recv = render(b.expr(t['args'][0])) if t['args'] else ''
            if recv.endswith('.currency_rate'):
                writers.setdefault(b.path, []).append((bid, t))
        # direct assignment of the field
        for i in b.normal_blocks:
            for s in b.blocks[i]['stmts']:
                if s['k'] == 'assign' and s['lhs']['proj'] and any(isinstance(pe, dict) and pe.get('field', '').endswith('SmartCalcConfig.currency_rate') for pe in s['lhs']['proj']):
                    writers.setdefault(b.path, []).append((i, {'loc': s['loc'], 'assign': True}))
    allowed = {'config::SmartCalcConfig::load_from_json': 'setup', 'smartcalc::SmartCalc::update_currency': 'api'}
    for w, sites in sorted(writers.items()):
        if w not in allowed:
            ctx.finding('M2', 'writer/%s' % fn_key(w), '%s writes the currency rate table; only load_from_json and update_currency may' % w, site=sites[0][1]['loc'])
        else:
            ctx.ok('M2', '%s writes currency_rate (%s)' % (fn_key(w), allowed[w]), 'who-may-write', site=sites[0][1]['loc'])
    if 'smartcalc::SmartCalc::update_currency' not in writers:
        raise AnchorLost('update_currency no longer writes currency_rate')
    u = ctx.facts.body('smartcalc::SmartCalc::update_currency')
    ctx.fn(u)
    sites = [(bid, t) for bid, t in writers[u.path] if 'assign' not in t]
    if len(sites) != 1 or not sites[0][1]['callee']['path'].endswith('insert'):
        ctx.finding('M2', 'update_currency/write-shape', 'update_currency does not write the table with exactly one insert', site=u.loc)
        return
    bid, t = sites[0]
    key, val = render(u.expr(t['args'][1])), render(u.expr(t['args'][2]))
    conds = u.cond_text(bid)
    if not re.fullmatch(r'tools::read_currency\(self\.config, currency\) as Some\.0', key):
        ctx.finding('M2', 'update_currency/key', 'the rate is stored under %s, not under the currency the name resolves to' % key[:100], site=t['loc'])
    elif val != 'rate':
        ctx.finding('M2', 'update_currency/value', 'the stored value is %s, not the rate argument' % val[:80], site=t['loc'])
    elif conds != ['discr(tools::read_currency(self.config, currency))=[1]']:
        ctx.finding('M2', 'update_currency/guard', 'the insert is guarded by %s' % conds, site=t['loc'])
    else:
        ctx.ok('M2', 'update_currency: insert(read_currency(name), rate) under Some', 'wiring', site=t['loc'])
    # return value: true exactly on the writing path
    rets = []
    for a, c in alternatives(u, u.local_expr(0)):
        cs = [cond_str(d, v) for d, v in c]
        rets.append((render(a), cs))
    good = sorted(rets) == sorted([('True', ['discr(tools::read_currency(self.config, currency))=[1]']), ('False', ['discr(tools::read_currency(self.config, currency))!=[1]'])]) or \
        sorted(rets) == sorted([('True', ['discr(tools::read_currency(self.config, currency))=[1]']), ('False', ['discr(tools::read_currency(self.config, currency))=[0]'])])
    if good:
        ctx.ok('M2', 'update_currency returns true iff the currency resolved', 'gamma', site=u.loc)
    else:
        ctx.finding('M2', 'update_currency/return', 'update_currency return value is not `resolved?`: %s' % rets, site=u.loc)


def m3_table(ctx):
    """M3 MoneyItem::calculate: MONEY arm converts the other operand into self's currency; currency kept; money/money -> number"""
    ctx.rule('M3', 'arithmetic table of money', floor=6)
    b = ctx.facts.one(r'^<compiler::money::MoneyItem as compiler::DataItem>::calculate$')
    ctx.fn(b)
    raw = check_binop_table(ctx, b, 'M3', None, True)
    # what enters the arithmetic when the other operand is money: on every path the converted amount, never the raw one
    seen_money = 0
    for variant in sorted(raw):
        for l, r in raw[variant]:
            for a, conds in alternatives(b, r):
                cs = [cond_str(d, v) for d, v in resolve_conds(b, conds)]
                if not any(x.startswith('on_left') and x.endswith('!=[0]') for x in cs):
                    continue
                kinds = [(m.group(1), x.endswith('!=[0]')) for x in cs for m in [re.search(r'type_name\(other\), ("[^"]*")\)', x)] if m]
                if any((k == '"MONEY"') != pos for k, pos in kinds if pos or k == '"MONEY"') or not any(k == '"MONEY"' for k, _ in kinds):
                    continue
                seen_money += 1
                txt = render(a)
                if re.match(r'MoneyItem::convert_currency\(self, config, ', txt) and 'other' in txt:
                    ctx.ok('M3', '%s, other is money: right operand = convert_currency(self, config, other)' % variant, 'gamma', site=b.loc, sample=False)
                else:
                    extra = [x for x in cs if 'MONEY' not in x and not x.startswith('on_left') and 'operation_type' not in x]
                    ctx.finding('M3', 'calculate/%s/money-arm-unconverted' % variant,
                                'money %s money: on the path where %s the right operand enters as %s, not converted through the rate table' % (variant, ' and '.join(extra[-2:]) or '?', txt[:100]), site=b.loc)
    if not seen_money:
        raise AnchorLost('MoneyItem::calculate: no arithmetic operand found under the "MONEY" arm')
    cc = list(b.calls(r'MoneyItem::convert_currency$'))
    if len(cc) != 1:
        raise AnchorLost('MoneyItem::calculate: expected one convert_currency call, found %d' % len(cc))
    bid, t = cc[0]
    recv, other = render(b.expr(t['args'][0])), render(b.expr(t['args'][2]))
    conds = b.cond_text(bid)
    if recv != 'self' or 'other' not in other or 'self' in other:
        ctx.finding('M3', 'calculate/convert-direction', 'MONEY arm calls convert_currency(%s, .., %s); the right operand must be converted into the left operand\'s currency' % (recv, other[:80]), site=t['loc'])
    elif not any('"MONEY"' in c and c.endswith('!=[0]') for c in conds):
        ctx.finding('M3', 'calculate/convert-arm', 'convert_currency is not under the "MONEY" arm: %s' % conds, site=t['loc'])
    else:
        ctx.ok('M3', 'MONEY arm: other converted into self\'s currency', 'gamma', site=t['loc'])
    # results: Some(Rc::new(MoneyItem(result, self.1))) in general; NumberItem(quotient, Decimal) when dividing money by money
    money_res, number_res = [], []
    for i in b.normal_blocks:
        for s in b.blocks[i]['stmts']:
            if s['k'] == 'assign' and s['rv'] == 'aggr' and s['adt'] == 'compiler::money::MoneyItem::MoneyItem':
                money_res.append((i, s))
            if s['k'] == 'assign' and s['rv'] == 'aggr' and s['adt'] == 'compiler::number::NumberItem::NumberItem':
                number_res.append((i, s))
    if len(money_res) != 1 or len(number_res) != 1:
        raise AnchorLost('MoneyItem::calculate: expected one MoneyItem and one NumberItem result, found %d/%d' % (len(money_res), len(number_res)))
    i, s = money_res[0]
    from ..facts import inline_calls
    cur = inline_calls(ctx.facts, b.expr(s['ops'][1]), depth=1)        # `self.get_currency()` is `self.1.clone()`
    curs = set(render(a) for a, _ in alternatives(b, cur))
    if curs != {'self.1'}:
        ctx.finding('M3', 'calculate/result-currency', 'the result currency is %s; it must be the left operand\'s (self.1)' % sorted(curs), site=s['loc'])
    else:
        ctx.ok('M3', 'result currency = self.1 in every arm', 'gamma', site=s['loc'])
    i, s = number_res[0]
    cs = [cond_str(d, v) for d, v in resolve_conds(b, tuple((d, v) for (_, d, v) in b.conditions(i)))]
    is_div = any(c.startswith('discr(operation_type)') for c in cs)
    money_gate = [c for c in cs if '"MONEY"' in c]
    if is_div and money_gate and money_gate[-1].endswith('!=[0]'):
        ctx.ok('M3', 'money / money -> NumberItem(quotient)', 'gamma', site=s['loc'])
    else:
        ctx.finding('M3', 'calculate/money-div-money', 'the NumberItem result is not selected by (Div, other is MONEY): %s' % cs, site=s['loc'])
    # on_left is the constant true at every call site of DataItem::calculate
    n = 0
    for caller in ctx.facts.src_bodies():
        for bid, t in caller.calls(r'^compiler::DataItem::calculate$'):
            n += 1
            a = render(caller.expr(t['args'][2]))
            if a != 'True':
                ctx.finding('M3', 'call-site/on_left/%s' % fn_key(caller.path), 'DataItem::calculate is called with on_left = %s' % a, site=t['loc'])
            else:
                ctx.ok('M3', 'calculate(.., on_left = true, ..) in %s' % fn_key(caller.path), 'const', site=t['loc'], sample=False)
    if n < 1:
        raise AnchorLost('no call site of DataItem::calculate found')


def m4_literals(ctx):
    """M4 every money regex has mandatory PRICE and CURRENCY groups; read_currency: alias first, then code, lower-cased"""
    ctx.rule('M4', 'money literal readers', floor=6)
    for p, h in ctx.config.parse_family('money'):
        if h is None:
            ctx.finding('M4', 'money/unparsable/%s' % p, 'money regex %r does not parse' % p)
            continue
        mand = mandatory_groups(h)
        miss = {'PRICE', 'CURRENCY'} - mand
        if miss:
            ctx.finding('M4', 'money/groups/%s' % p, 'money regex %r: group(s) %s not on every match path (parser unwraps them)' % (p, sorted(miss)), site='config.json parse.money')
        else:
            ctx.ok('M4', 'money regex %r: PRICE and CURRENCY mandatory' % p, 'regex-mandatory')
    b = ctx.facts.one(r'^tokinizer::tools::read_currency$')
    ctx.fn(b)
    alts = [(render(a), [cond_str(d, v) for d, v in c]) for a, c in alternatives(b, b.local_expr(0))]
    A = 'BTreeMap::get(config.currency_alias, str::to_lowercase(currency))'
    C = 'BTreeMap::get(config.currency, str::to_lowercase(currency))'
    # however it is written (match, or_else, if let): the alias hit is returned when the alias lookup is Some, the code lookup otherwise
    alias_first = any(A in a and C not in a and any(x == 'discr(%s)=[1]' % A for x in cs) for a, cs in alts)
    code_second = any(C in a and A not in a and any(x in ('discr(%s)=[0]' % A, 'discr(%s)!=[1]' % A) for x in cs) for a, cs in alts)
    if alias_first and code_second and len(alts) == 2:
        ctx.ok('M4', 'read_currency: alias table first, then code table, both keyed by the lower-cased name', 'gamma', site=b.loc)
    else:
        ctx.finding('M4', 'read_currency/order', 'read_currency lookup order / case normalisation changed: %s' % alts, site=b.loc)
    # the parser multiplies by the suffix and resolves the currency through read_currency
    mp = ctx.facts.one(r'regex_tokinizer::money::money_regex_parser$')
    ctx.fn(mp)
    rc = list(mp.calls(r'tools::read_currency$'))
    if len(rc) != 1:
        raise AnchorLost('money_regex_parser: expected one read_currency call')
    arg = render(mp.expr(rc[0][1]['args'][1]))
    if '"CURRENCY"' not in arg:
        ctx.finding('M4', 'money_regex_parser/currency-group', 'the currency is resolved from %s, not from the CURRENCY group' % arg[:80], site=rc[0][1]['loc'])
    else:
        ctx.ok('M4', 'money_regex_parser resolves the CURRENCY group through read_currency', 'wiring', site=rc[0][1]['loc'])


def m5_data(ctx):
    """M5 every alias target and every rate key names an existing currency; keys are lower-case"""
    ctx.rule('M5', 'currency tables', floor=40)
    j = ctx.config.j
    cur = {k.lower() for k in j['currencies']}
    for a, tgt in j['currency_alias'].items():
        if tgt not in cur:
            ctx.finding('M5', 'alias/%s' % a, 'currency alias %r points to unknown currency %r (dropped at load time)' % (a, tgt), site='config.json currency_alias')
        elif a != a.lower():
            ctx.finding('M5', 'alias-case/%s' % a, 'currency alias %r is not lower-case: read_currency lower-cases its key and can never find it' % a, site='config.json currency_alias')
        else:
            ctx.ok('M5', 'alias %r -> %r' % (a, tgt), 'data', sample=False)
    for k, r in j['currency_rates'].items():
        if k not in cur:
            ctx.finding('M5', 'rate/%s' % k, 'rate for unknown currency %r (dropped at load time)' % k, site='config.json currency_rates')
        elif not (isinstance(r, (int, float)) and r > 0):
            ctx.finding('M5', 'rate-value/%s' % k, 'rate of %r is %r (must be a positive number)' % (k, r), site='config.json currency_rates')
        else:
            ctx.ok('M5', 'rate %r = %r' % (k, r), 'data', sample=False)
    # load_from_json stores currencies under the lower-cased code
    b = ctx.facts.body('config::SmartCalcConfig::load_from_json')
    okl = False
    for bid, t in b.calls(r'BTreeMap::<.*>::insert$'):
        if render(b.expr(t['args'][0])).endswith('.currency'):
            okl = 'to_lowercase' in render(b.expr(t['args'][1]))
    if okl:
        ctx.ok('M5', 'load_from_json keys the currency table by to_lowercase(code)', 'wiring', site=b.loc)
    else:
        ctx.finding('M5', 'load_from_json/currency-key', 'the currency table is no longer keyed by the lower-cased code', site=b.loc)
    pattern_field_check(ctx, 'M5', 'convert_money')


def m6_suffixes(ctx):
    """M6 scale suffixes of money literals: the two suffix tables (number / money reader) agree with 1000^k for every suffix the
    regexes accept (shared with C02 G5)"""
    from .C02 import g5_suffixes
    g5_suffixes(ctx)


RULES = [('M1', m1_formula), ('M2', m2_rate_owner), ('M3', m3_table), ('M4', m4_literals), ('M5', m5_data), ('G5', m6_suffixes)]


def m6_unique_fields(ctx):
    """M6 a pattern that names two fields alike loses one of the matched tokens (shared rule)"""
    from ..common import unique_field_names
    unique_field_names(ctx, 'M6', ('convert_money',), floor=2)


RULES.append(('M6', m6_unique_fields))


def m7_lexical(ctx):
    """M7 money literals (every code, alias, symbol position) are money tokens (E7b lexical competition model: month stage, regex families in TOKEN_REGEX_PARSER order with first-claim-wins,
    alias stage; samples generated from the configuration)"""
    from ..lexrules import run_samples, number_samples, based_samples, money_samples, unit_samples, month_samples, zone_samples, duration_samples, percent_samples, keyword_samples
    ctx.rule('M7', 'money literals (every code, alias, symbol position) are money tokens', floor=300)
    run_samples(ctx, 'M7', money_samples(ctx))


RULES.append(('M7', m7_lexical))


def m8_matcher(ctx):
    """M8 the pattern scan of rule_tokinizer / find_match, tabulated (scv/matcher.py): which tokens a rule function is handed
    for each named field and what the matched run is replaced by, on every line of up to three (thorough: four) tokens"""
    from ..matcher import matcher_table
    ctx.rule('M8', 'pattern scan: matches, field bindings and replacement (tabulated)', floor=1)
    matcher_table(ctx, 'M8', deep=(ctx.tier == 'thorough' and ctx.cfg_name == 'dev'))


RULES.append(('M8', m8_matcher))


def m9_stateless(ctx):
    """M9 literal readers carry no state from one capture of the line to the next (shared rule, scv/common.py)"""
    from ..common import reader_stateless
    reader_stateless(ctx, 'M9', ('Money',))


RULES.append(('M9', m9_stateless))
