"""C15 - Printed results can be typed back in: formatter and reader agree.

Decided at table level (DESIGN.md C15): for each kind and language the *shape* the printer emits (format strings, word
tables, symbols, templates found as MIR constants) lies inside what the reader's tables accept. Data is compared with
data; regexes are consulted through their regex-syntax HIR (a small matcher over the HIR decides whether a *table entry*
is in a regex's language). Not decided: that the re-read value prints identically (depends on C07 rounding).

A1 durations: every word of a duration format of language L is a duration word of L of the same kind, is in L's
   duration word group, L has the rules that read and combine components; the printer emits placeholders and blanks only.
A2 dates: each date format of L has the token-class sequence (with field names) of one of L's date patterns.
A3 times: HH:MM:SS is in the language of a time regex; zone names are in the zone regex; L has the rule reading TIME ZONE.
A4 numbers / percent: printed samples in every separator configuration of the quantifier are in the reader's regexes;
   the percent sign is printed in front and a percent regex has it in front.
A5 money: for the currencies a user can name through the alias table, the printed symbol is inside the CURRENCY class of a
   money regex with the same placement and resolves back to the same currency.
A6 units: the word of a unit's format is one of the words its parse patterns accept.
A7 based integers: prefix / digit alphabet agreement and regex order (shared with C13).
"""
import re

from ..facts import render, strip, walk, fn_key, AnchorLost
from ..data import abstract_tokens, all_groups, hir_accepts, alphabet, in_ranges, decode_fmt_template
from .. import model
from . import C13

PH = re.compile(r'\{([a-z_]+)\}')


def lang_rules(ctx, lang):
    return ctx.config.languages[lang].get('rules', {})


def a1_durations(ctx):
    """A1 duration words"""
    ctx.rule('A1', 'printed duration words are duration words of the same language and kind', floor=20)
    adt = ctx.facts.adts.get('constants::ConstantType')
    if not adt:
        raise AnchorLost('enum ConstantType not found')
    kind = {v['name']: v['discr'] for v in adt['variants']}
    for lang, L in sorted(ctx.config.languages.items()):
        cp = L.get('constant_pair', {})
        grp = set(L.get('word_group', {}).get('duration_group', []))
        fmts = L.get('format', {}).get('duration', [])
        if not fmts:
            ctx.finding('A1', '%s/no-formats' % lang, 'language %s has no duration formats' % lang, site='config.json languages.%s.format.duration' % lang)
            continue
        for ent in fmts:
            f = ent['format']
            words = [t for t in re.sub(PH, ' ', f).split() if not t.isdigit()]
            want = kind.get(ent['duration_type'])
            if want is None:
                ctx.finding('A1', '%s/%s/kind' % (lang, ent['duration_type']), 'duration format %r has the unknown kind %r' % (f, ent['duration_type']), site='config.json languages.%s.format.duration' % lang)
                continue
            if len(words) != 1:
                ctx.finding('A1', '%s/%s/shape' % (lang, f), 'duration format %r is not "<count> <word>"' % f, site='config.json languages.%s.format.duration' % lang)
                continue
            w = words[0]
            if cp.get(w) != want:
                ctx.finding('A1', '%s/word/%s' % (lang, w), 'a %s duration prints the word %r, which %s reads as %s' % (
                    ent['duration_type'].lower(), w, lang, 'kind %s' % cp[w] if w in cp else 'plain text (not a duration word)'), site='config.json languages.%s.format.duration' % lang)
            elif w not in grp:
                ctx.finding('A1', '%s/group/%s' % (lang, w), 'the printed duration word %r is not in the duration word group of %s, so `<n> %s` is not rewritten into a duration' % (w, lang, w), site='config.json languages.%s.word_group.duration_group' % lang)
            else:
                ctx.ok('A1', '%s: %r prints %r = kind %d' % (lang, f, w, want), 'data', sample=False)
            # count position: the number comes first
            if not re.match(r'^(\{[a-z]+\}|\d+) ', f):
                ctx.finding('A1', '%s/%s/order' % (lang, f), 'duration format %r does not start with the count' % f, site='config.json languages.%s.format.duration' % lang)
        rules = lang_rules(ctx, lang)
        for need in ('duration_parse', 'combine_durations'):
            if need not in rules or not rules[need].get('rules'):
                ctx.finding('A1', '%s/rule/%s' % (lang, need), 'language %s prints durations but does not configure the rule %s that reads them' % (lang, need), site='config.json languages.%s.rules' % lang)
            else:
                ctx.ok('A1', '%s configures %s' % (lang, need), 'data', sample=False)
        pats = [abstract_tokens(p) for p in rules.get('duration_parse', {}).get('rules', [])]
        if not any([t[0] for t in p] == ['field', 'field'] and p[0][1] == 'NUMBER' and p[1][1] == 'GROUP' and p[1][3] == 'duration_group' for p in pats):
            ctx.finding('A1', '%s/duration_parse/pattern' % lang, 'no duration_parse pattern of %s reads "<number> <duration word>"' % lang, site='config.json languages.%s.rules.duration_parse' % lang)
    # the printer emits placeholders, the count and blanks - nothing else (no sign, no punctuation)
    b = ctx.facts.one(r'^<compiler::duration::DurationItem as compiler::DataItem>::print$')
    f = ctx.facts.one(r'^compiler::duration::DurationItem::duration_formatter$')
    ctx.fn(b)
    ctx.fn(f)
    lits = []
    for body in (b, f):
        for i in body.normal_blocks:
            bl = body.blocks[i]
            nodes = [o for s in bl['stmts'] if s['k'] == 'assign' for o in s['ops']] + list(bl['term'].get('args', []) or [])
            for o in nodes:
                c = o.get('const')
                if not c:
                    continue
                v = c.get('str', c.get('val'))
                if isinstance(v, str) and c['ty'] in ('&str', 'char', "&'static str") or (isinstance(v, str) and 'str' in c['ty']) or c['ty'] == 'char':
                    lits.append((v, bl['term'].get('loc') if o in (bl['term'].get('args') or []) else None))
                elif isinstance(c.get('text'), str) and c['text'].startswith('const b"'):
                    try:
                        for piece in decode_fmt_template(c['text']):
                            if piece:
                                lits.append((piece, None))
                    except AnchorLost:
                        pass
    allowed = {'{year}', '{month}', '{week}', '{day}', '{hour}', '{minute}', '{second}', 'en', ' ', ''}
    extra = sorted(set(str(v) for v, _ in lits if str(v) not in allowed))
    if extra:
        ctx.finding('A1', 'DurationItem::print/literal/%s' % '+'.join(extra)[:40], 'the duration printer emits the literal text %s; the duration reader accepts only "<count> <word>" components (a sign is attached to the first number only and the components are summed)' % extra, site=b.loc)
    else:
        ctx.ok('A1', 'the duration printer emits counts, configured words and blanks only (%d literals checked)' % len(lits), 'const', site=b.loc)


def a2_dates(ctx):
    """A2 date formats vs date patterns"""
    ctx.rule('A2', 'printed date shapes are date patterns of the same language', floor=4)
    pats = model.date_patterns(ctx)
    cls = {'day': ('NUMBER', 'day'), 'day_pad': ('NUMBER', 'day'), 'month': ('NUMBER', 'month'), 'month_pad': ('NUMBER', 'month'),
           'month_long': ('MONTH', 'month'), 'month_short': ('MONTH', 'month'), 'year': ('NUMBER', 'year')}
    for lang, L in sorted(ctx.config.languages.items()):
        fm = L.get('format', {}).get('date', {})
        shapes = []
        for p in pats.get(lang, []):
            toks = abstract_tokens(p)
            shapes.append([(t[1], t[2]) if t[0] == 'field' else ('lit', t[1]) for t in toks])
        if not shapes:
            ctx.finding('A2', '%s/no-date-patterns' % lang, 'language %s prints dates but installs no date patterns' % lang, site='SmartCalc::default')
            continue
        for key in ('full_date', 'current_year'):
            f = fm.get(key)
            if f is None:
                ctx.finding('A2', '%s/%s/missing' % (lang, key), 'language %s has no %s date format' % (lang, key), site='config.json languages.%s.format.date' % lang)
                continue
            seq = []
            bad = None
            pos = 0
            for m in PH.finditer(f):
                lit = f[pos:m.start()].strip()
                if lit:
                    seq += [('lit', c) for c in lit.split()]
                if m.group(1) not in cls:
                    bad = m.group(1)
                else:
                    seq.append(cls[m.group(1)])
                pos = m.end()
            if f[pos:].strip():
                seq += [('lit', c) for c in f[pos:].split()]
            if bad:
                ctx.finding('A2', '%s/%s/placeholder-%s' % (lang, key, bad), 'date format %r uses the placeholder {%s}, which no date pattern reads' % (f, bad), site='config.json languages.%s.format.date' % lang)
            elif seq in shapes:
                ctx.ok('A2', '%s: %r has the shape of date pattern %r' % (lang, f, pats[lang][shapes.index(seq)]), 'data')
            else:
                ctx.finding('A2', '%s/%s/shape' % (lang, key), 'a date prints as %r = %s, which is none of the date patterns of %s (%s)' % (f, seq, lang, pats.get(lang)), site='config.json languages.%s.format.date' % lang)
    # printed month names are the names the month regexes were built from
    b = ctx.facts.one(r'^<compiler::date::DateItem as compiler::DataItem>::print$')
    ctx.fn(b)
    r = render(b.ret_expr())
    if 'uppercase_first_letter(' in r and re.search(r'get_month_info\(config, .*language', r):
        ctx.ok('A2', 'DateItem::print takes month names from get_month_info(config, language, month)', 'wiring', site=b.loc)
    else:
        ctx.finding('A2', 'DateItem::print/month-source', 'DateItem::print does not take its month names from the month table of the session language', site=b.loc)


def a3_times(ctx):
    """A3 time + zone"""
    ctx.rule('A3', 'printed time shape is readable', floor=6)
    fam = [(p, h) for p, h in ctx.config.parse_family('time') if h]
    b = ctx.facts.one(r'^<compiler::time::TimeItem as compiler::DataItem>::print$')
    ctx.fn(b)
    fmts = [x[2] for x in walk(b.ret_expr()) if x[0] == 'const' and isinstance(x[2], str) and '%' in x[2]]
    if fmts != ['%H:%M:%S']:
        ctx.finding('A3', 'TimeItem::print/format', 'TimeItem::print formats the clock with %s; the reader check below assumes %%H:%%M:%%S' % fmts, site=b.loc)
    samples = ['00:00:00', '09:05:07', '11:30:00', '12:00:00', '19:59:59', '23:59:59']
    for s in samples:
        if any(hir_accepts(h, s) for p, h in fam):
            ctx.ok('A3', 'time %s is in the language of a time regex' % s, 'regex-member', sample=False)
        else:
            ctx.finding('A3', 'time/%s' % s, 'the printed time %s is not accepted by any time regex' % s, site='config.json parse.time')
    tmpl = [x for x in walk(b.ret_expr()) if x[0] == 'const' and isinstance(x[3], str) and x[3].startswith('const b"')]
    pieces = decode_fmt_template(tmpl[0][3]) if tmpl else None
    if pieces != [None, ' ', None]:
        ctx.finding('A3', 'TimeItem::print/template', 'TimeItem::print assembles %s; expected "<clock> <zone>"' % (pieces,), site=b.loc)
    else:
        ctx.ok('A3', 'TimeItem::print = "<clock> <zone name>"', 'template', site=b.loc)
    zfam = [(p, h) for p, h in ctx.config.parse_family('timezone') if h]
    tz = ctx.config.j.get('timezones', {})
    unread = sorted(n for n in tz if not any(hir_accepts(h, n.upper()) for p, h in zfam))
    ok = len(tz) - len(unread)
    ctx.ok('A3', '%d of %d zone names are in the language of the zone regex' % (ok, len(tz)), 'regex-member')
    if unread:
        ctx.note('A3: %d zone names cannot be written in the zone syntax (excluded by the quantifier): %s' % (len(unread), ', '.join(unread)))
    if ok < 150:
        ctx.finding('A3', 'zones/readable-count', 'only %d zone names are readable by the zone regex' % ok, site='config.json parse.timezone')
    for lang in sorted(ctx.config.languages):
        rules = lang_rules(ctx, lang)
        pats = [abstract_tokens(p) for p in rules.get('time_with_timezone', {}).get('rules', [])]
        if any([(t[0], t[1]) for t in p] == [('field', 'TIME'), ('field', 'TIMEZONE')] for p in pats):
            ctx.ok('A3', '%s reads "<time> <zone>" (rule time_with_timezone)' % lang, 'data')
        else:
            ctx.finding('A3', '%s/no-time-with-zone-rule' % lang, 'language %s prints a time as "HH:MM:SS ZONE" but configures no rule that reads a time followed by a zone' % lang, site='config.json languages.%s.rules' % lang)


def _group_digits(n, sep):
    s = str(n)
    out = ''
    while len(s) > 3:
        out = sep + s[-3:] + out
        s = s[:-3]
    return s + out


def a4_numbers(ctx):
    """A4 numbers and percentages"""
    ctx.rule('A4', 'printed numbers and percentages are literals', floor=2)
    nfam = [(p, h) for p, h in ctx.config.parse_family('number') if h]
    pfam = [(p, h) for p, h in ctx.config.parse_family('percent') if h]
    confs = [('.', ','), (',', '.'), ('', ','), ('', '.')]
    n_ok = 0
    for th, de in confs:
        for neg in ('', '-'):
            for ip, fr in ((0, ''), (7, ''), (1234, '5'), (1234567, '25'), (999, '999999999')):
                s = neg + _group_digits(ip, th) + ((de + fr) if fr else '')
                if any(hir_accepts(h, s) for p, h in nfam):
                    n_ok += 1
                else:
                    ctx.finding('A4', 'number/%s%s/%s' % (th or '_', de, s), 'the printed number %r (thousands %r, decimal %r) is not accepted by a number regex' % (s, th, de), site='config.json parse.number')
                ps = '%' + s
                if any(hir_accepts(h, ps) for p, h in pfam):
                    n_ok += 1
                else:
                    ctx.finding('A4', 'percent/%s%s/%s' % (th or '_', de, s), 'the printed percentage %r is not accepted by a percent regex' % ps, site='config.json parse.percent')
    ctx.ok('A4', '%d printed number / percent samples over the separator configurations are literals' % n_ok, 'regex-member')
    # separators outside [.,] are outside the literal class: the quantifier's configurations are '.', ',' and ''
    for p, h in nfam:
        g = all_groups(h)
        if 'DECIMAL' in g:
            al = alphabet(g['DECIMAL'])
            for c in '.,':
                if not in_ranges(ord(c), al):
                    ctx.finding('A4', 'number/class-%s' % c, 'the DECIMAL class of the number regex does not contain %r' % c, site='config.json parse.number')
    b = ctx.facts.one(r'^<compiler::percent::PercentItem as compiler::DataItem>::print$')
    ctx.fn(b)
    from ..assembly import printed_assembly
    from ..absint import Unknown
    try:
        pieces = printed_assembly(b, {}, [(r'formatter::format_number$', 'A')])
    except Unknown as ex:
        pieces = 'not extractable: %s' % ex
    if pieces == ['%', 'A']:
        ctx.ok('A4', 'a percentage prints as %<number>', 'absint', site=b.loc)
    elif pieces == ['A', '%']:
        ok = any(hir_accepts(h, '10%') for p, h in pfam)
        if ok:
            ctx.ok('A4', 'a percentage prints as <number>%, which a percent regex reads', 'absint', site=b.loc)
        else:
            ctx.finding('A4', 'percent/suffix-form', 'a percentage prints as <number>% which no percent regex reads', site=b.loc)
    else:
        ctx.finding('A4', 'percent/template', 'PercentItem::print assembles %s' % (pieces,), site=b.loc)


def a5_money(ctx):
    """A5 money symbols"""
    ctx.rule('A5', 'printed currency symbols are readable and resolve to the same currency', floor=6)
    j = ctx.config.j
    alias = {k.lower(): v.lower() for k, v in j.get('currency_alias', {}).items()}
    cur = {k.lower(): v for k, v in j.get('currencies', {}).items()}
    targets = sorted(set(alias.values()))
    fam = [(p, h) for p, h in ctx.config.parse_family('money') if h]
    if not fam:
        raise AnchorLost('no money regexes')
    # placement of the CURRENCY group in each regex: before or after PRICE, blank allowed or not
    shapes = []
    for p, h in fam:
        g = all_groups(h)
        if 'CURRENCY' not in g or 'PRICE' not in g:
            continue
        left = p.index('CURRENCY') < p.index('PRICE')
        shapes.append((p, h, left, alphabet(g['CURRENCY']), g['CURRENCY']))
    others = len(cur) - len([t for t in targets if t in cur])
    for code in targets:
        c = cur.get(code)
        if c is None:
            ctx.finding('A5', '%s/unknown-currency' % code, 'alias target %r is not a configured currency' % code, site='config.json currency_alias')
            continue
        sym = c['symbol']
        core = sym.rstrip('.').strip()
        left = bool(c.get('symbolOnLeft'))
        space = bool(c.get('spaceBetweenAmountAndSymbol'))
        amount = '1.234,50'
        printed = (core + (' ' if space else '') + amount) if left else (amount + (' ' if space else '') + core)
        readable = [p for p, h, l, al, gh in shapes if l == left and all(in_ranges(ord(ch), al) for ch in core) and hir_accepts(h, printed)]
        if not readable:
            why = 'its characters are outside every CURRENCY class' if not any(all(in_ranges(ord(ch), al) for ch in core) for _, _, l, al, _ in shapes if l == left) else 'no money regex accepts %r' % printed
            ctx.finding('A5', '%s/symbol-unreadable' % code, '%s prints with the symbol %r (%s the amount): %s, so the printed amount is not read back as money' % (code.upper(), sym, 'left of' if left else 'right of', why), site='config.json currencies.%s' % code.upper())
            continue
        back = alias.get(core.lower()) or (core.lower() if core.lower() in cur else None)
        if back != code:
            ctx.finding('A5', '%s/symbol-resolves-to/%s' % (code, back), '%s prints with the symbol %r, which read_currency resolves to %s: the printed amount is read back in another currency' % (code.upper(), sym, (back or 'nothing').upper()), site='config.json currency_alias')
        else:
            ctx.ok('A5', '%s: %r is read by a money regex and resolves to %s' % (code.upper(), printed, code.upper()), 'data')
    ctx.note('A5: %d currencies can only be written by their code; their symbols are not in the alias table and are outside the property\'s quantifier as read here (a currency that has a configured symbol or alias in currency_alias)' % others)


def a6_units(ctx):
    """A6 unit words"""
    ctx.rule('A6', 'printed unit words are words the unit reads', floor=30)
    for fam, it in ctx.config.units():
        f = it.get('format', '')
        m = re.fullmatch(r'\{value\}\s*(.+)', f)
        if not m:
            ctx.finding('A6', '%s/%s/format-shape' % (fam, it.get('index')), 'unit format %r is not "{value} <word>"' % f, site='config.json types.%s' % fam)
            continue
        word = m.group(1).strip()
        accepted = set(n.lower() for n in it.get('names', []))
        for p in it.get('parse', []):
            for t in abstract_tokens(p):
                if t[0] == 'field' and t[1] == 'TEXT' and t[3]:
                    accepted.add(t[3].lower())
                elif t[0] == 'word':
                    accepted.add(t[1].lower())
        shape_ok = any([t[0] for t in abstract_tokens(p)][:1] == ['field'] and abstract_tokens(p)[0][1] == 'NUMBER' for p in it.get('parse', []))
        glued = ' ' not in f.replace('{value}', 'X', 1).strip() or not f.startswith('{value} ')
        if word.lower() not in accepted:
            ctx.finding('A6', '%s/%s/word' % (fam, word), 'a %s quantity prints the word %r, which the unit reads only as %s' % (fam, word, sorted(accepted)), site='config.json types.%s' % fam)
        elif not shape_ok:
            ctx.finding('A6', '%s/%s/order' % (fam, word), 'unit %r prints the number first but no parse pattern starts with the number' % word, site='config.json types.%s' % fam)
        else:
            ctx.ok('A6', '%s: %r is read back through %s' % (fam, f, sorted(accepted)[:3]), 'data', sample=False)


def a7_based(ctx):
    """A7 based integers (shared with C13)"""
    C13.b1_table(ctx)
    C13.b5_regex_order(ctx)


def a8_shared(ctx):
    """A8 two reader / printer clauses shared with other properties: the date reader takes day, month and year exactly as
    written (C09 D2: a printed year must read back as itself), and the number printer cuts its rendering with lengths measured
    on that same rendering (C07 N1: otherwise digits and separators of the printed number are displaced)"""
    from .C09 import d2_small_date
    from .C07 import n1_provenance
    d2_small_date(ctx)
    # C07 N9 first: N1 falls back on its walks when the digits are not taken with chars().nth(); what N9 tabulates (grouping,
    # sign and separator placement of the printed number) is also what the number reader has to read back
    from .C07 import n9_assembly_table
    n9_assembly_table(ctx)
    n1_provenance(ctx)
    # C07 N2: every printer hands format_number the configured separators - the ones the readers normalise with (C08 R3);
    # a printer that takes them from anywhere else prints numbers the reader does not read back
    from .C07 import n2_wiring
    n2_wiring(ctx)


RULES = [('D2', a8_shared), ('A1', a1_durations), ('A2', a2_dates), ('A3', a3_times), ('A4', a4_numbers), ('A5', a5_money), ('A6', a6_units), ('A7', a7_based)]


def a9_lexical(ctx):
    """A9 printed month names, zones and money codes are read back as such (E7b lexical competition model: month stage, regex families in TOKEN_REGEX_PARSER order with first-claim-wins,
    alias stage; samples generated from the configuration)"""
    from ..lexrules import run_samples, number_samples, based_samples, money_samples, unit_samples, month_samples, zone_samples, duration_samples, percent_samples, keyword_samples
    ctx.rule('A9', 'printed month names, zones and money codes are read back as such', floor=200)
    run_samples(ctx, 'A9', month_samples(ctx) + zone_samples(ctx))


RULES.append(('A9', a9_lexical))


def a10_trailing_tokens(ctx):
    """A10 what SyntaxParser::parse returns is what the expression ladder returned: it adds no error of its own. Printed forms
    can end in a mark that is not part of the literal (the Danish `1.234,50 kr.`: the money token ends at `kr`), and typed lines
    end in all sorts of things; a parser that refuses left-over tokens turns those into errors."""
    from ..common import result_alternatives
    ctx.rule('A10', 'the parser does not refuse left-over tokens', floor=1)
    b = ctx.facts.one(r'^syntax::SyntaxParser::<.*>::parse$|^syntax::SyntaxParser::parse$')
    ctx.fn(b)
    own = []
    n = 0
    for v, inner, conds in result_alternatives(b):
        n += 1
        r = render(inner)
        if v == 'Err' and 'map_parser(' not in r and 'from_residual' not in r and 'branch(' not in r:
            own.append(r[:80])
        if v == '?' and 'map_parser(' not in r:
            own.append(r[:80])
    if n == 0:
        raise AnchorLost('SyntaxParser::parse has no result')
    if own:
        ctx.finding('A10', 'SyntaxParser::parse/own-error', 'SyntaxParser::parse returns an error of its own (%s) besides what the expression ladder returns: a line with something behind a complete expression is refused' % own[0], site=b.loc)
    else:
        ctx.ok('A10', 'SyntaxParser::parse hands back the result of the expression ladder unchanged', 'gamma', site=b.loc)


RULES.append(('A10', a10_trailing_tokens))
