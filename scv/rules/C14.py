"""C14 - Unix timestamps convert to and from date-times as mutual inverses.

X1 epoch API pair without arithmetic in between (from_timestamp(N as i64, 0) / .timestamp() of the stored UTC value,
midnight for dates); X2 Raw numbers print with a 64-bit cast; X3 patterns bind the fields read; X4 the typed getters
are disjoint (a date-time is never taken for a date); X5 DateTimeItem::print reads every calendar / clock field from
one zoned value.
Not decided: calendar correctness of chrono (trusted).
"""
import re

from ..facts import render, strip, walk, fn_key, AnchorLost, alternatives, cond_str
from ..common import variant_consistent, value_alternatives, canon_field_reads, resolve_variant_projections, rule_body, pattern_field_check, result_alternatives
from .. import model
from .C13 import printer_rows


def x1_pair(ctx):
    """X1 from_unixtime / to_unixtime are chrono's epoch API on the UTC value, nothing else"""
    ctx.rule('X1', 'epoch API pair', floor=4)
    f = rule_body(ctx, 'from_unixtime')
    ctx.fn(f)
    n = 0
    zones = set()
    for v, inner, conds in result_alternatives(f):
        if v != 'Ok':
            continue
        n += 1
        if inner[0] != 'aggr' or inner[1] != 'types::TokenType::DateTime':
            ctx.finding('X1', 'from_unixtime/result-kind', "'N to date' yields %s" % render(inner)[:60], site=f.loc)
            continue
        val = render(inner[2][0])
        if re.fullmatch(r'NaiveDateTime::from_timestamp(_opt)?\(\((Option::unwrap\()?tools::get_number\("[^"]+", fields\)\)?( as Some\.0)? as i64\), 0\)( as Some\.0)?', val):
            ctx.ok('X1', 'from_unixtime: instant = from_timestamp(N as i64, 0)', 'use-def', site=f.loc)
        else:
            ctx.finding('X1', 'from_unixtime/instant', "'N to date' builds its instant as %s; expected from_timestamp(N as i64, 0) with nothing in between" % val[:160], site=f.loc)
        for za, _c in alternatives(f, inner[2][1], _conds=conds):
            zone = render(za)
            if zone == 'SmartCalcConfig::get_time_offset(config)':
                zones.add('default')
            elif re.match(r'types::TimeOffset::TimeOffset\{str::to_uppercase\(tools::get_timezone\(', zone) or 'get_timezone' in zone:
                zones.add('explicit')
            else:
                ctx.finding('X1', 'from_unixtime/zone', 'the display zone of the result is %s' % zone[:100], site=f.loc)
    if n < 1 or zones != {'default', 'explicit'}:
        raise AnchorLost('from_unixtime: expected a result in the configured zone and one in the explicitly requested zone, found %s' % sorted(zones))
    for z in sorted(zones):
        ctx.ok('X1', 'from_unixtime: the %s zone only labels the instant' % z, 'gamma', site=f.loc)
    t = rule_body(ctx, 'to_unixtime')
    ctx.fn(t)
    seen = set()
    for v, inner, conds in result_alternatives(t):
        if v != 'Ok':
            continue
        if inner[0] != 'aggr' or inner[1] != 'types::TokenType::Number':
            ctx.finding('X1', 'to_unixtime/result-kind', "'.. as unix' yields %s" % render(inner)[:60], site=t.loc)
            continue
        ntype = render(inner[2][1])
        if ntype != 'types::NumberType::Raw{}':
            ctx.finding('X1', 'to_unixtime/number-type', 'the timestamp is tagged %s (grouping / rounding would hide digits)' % ntype, site=t.loc)
        for val, c2 in alternatives(t, strip(inner[2][0])[3] if strip(inner[2][0])[0] == 'cast' else inner[2][0], _conds=conds):
            if not variant_consistent(val):
                continue          # an arm of a merged enum value (a helper that hands back the case read) other than the one projected
            inner_alts = [x_ for x_, _c in value_alternatives(t, val, c2)]
            if len(inner_alts) == 1:
                val = inner_alts[0]
            elif len(inner_alts) > 1:
                for x_ in inner_alts[1:]:
                    pass
            vt = render(canon_field_reads(resolve_variant_projections(t, val)))
            m = None
            # the stored UTC value of the operand: through the typed getter, read from the token itself, or from the item a
            # variable holds (the getters do exactly these two things)
            SRC = (r'(?:tools::get_(?P<g>time|date_time|date)\("[^"]+", fields\) as Some\.0\.#?0'
                   r'|BTreeMap::get\(fields, "[^"]+"\) as Some\.0\.token_type as Some\.0 as (?P<k>Time|DateTime|Date)\.0'
                   r'|(?P<v>downcast_ref)\(DataItem::as_any\(BTreeMap::get\(fields, "[^"]+"\) as Some\.0\.token_type as Some\.0 as Variable\.0\.data as Item\.0\)\) as Some\.0\.0)')
            m1 = re.fullmatch(r'NaiveDateTime::timestamp\(%s\)' % SRC, vt)
            m2 = re.fullmatch(r'NaiveDateTime::timestamp\(NaiveDate::and_hms(?:_opt)?\(%s, 0, 0, 0\)(?: as Some\.0)?\)' % SRC, vt)
            if m2 and (m2.group('g') in (None, 'date')) and (m2.group('k') in (None, 'Date')):
                m = 'date (midnight UTC)'
            elif m1 and (m1.group('g') == 'time' or m1.group('k') == 'Time'):
                m = 'time'
            elif m1 and (m1.group('g') == 'date_time' or m1.group('k') == 'DateTime'):
                m = 'date-time'
            elif m1 and m1.group('v'):
                m = 'a variable holding a time or a date-time'
            elif vt in ('0', '0.0'):
                m = 'none (0)'
            if m is None:
                ctx.finding('X1', 'to_unixtime/value', "'.. as unix' computes %s; expected .timestamp() of the stored UTC value (midnight for a date)" % vt[:160], site=t.loc)
            else:
                seen.add(m)
                ctx.ok('X1', 'to_unixtime[%s] = .timestamp() of the stored UTC value' % m, 'use-def', site=t.loc)
    for m in ('time', 'date (midnight UTC)', 'date-time'):
        if m not in seen:
            ctx.finding('X1', 'to_unixtime/missing/%s' % m.split()[0], "'.. as unix' no longer handles a %s" % m, site=t.loc)


def x2_width(ctx):
    """X2 NumberType::Raw prints every digit: 64-bit cast, plain Display"""
    ctx.rule('X2', 'timestamp print width', floor=1)
    pb, prows = printer_rows(ctx)
    pr = prows.get('Raw')
    if not pr:
        raise AnchorLost('NumberItem::print has no arm for NumberType::Raw')
    if pr['fn'] != 'new_display':
        ctx.finding('X2', 'raw/format', 'Raw numbers are printed with %s' % pr['fn'], site=pr['loc'])
    elif pr['cast'] is None or int(pr['cast'][1:]) < 64:
        ctx.finding('X2', 'raw/print-cast-narrower-than-i64', 'a timestamp is printed through `as %s`: seconds beyond 2^31 (year 2038) print as %s::MAX instead of themselves' % (pr['cast'], pr['cast']), site=pr['loc'])
    else:
        ctx.ok('X2', 'Raw printed through `as %s`' % pr['cast'], 'types', site=pr['loc'])


def x3_patterns(ctx):
    """X3 unixtime patterns bind the fields the functions read"""
    ctx.rule('X3', 'unixtime patterns', floor=10)
    pattern_field_check(ctx, 'X3', 'to_unixtime')
    pattern_field_check(ctx, 'X3', 'from_unixtime')


WANT_ITEM = {'get_time': ('Time', 'TimeItem'), 'get_date': ('Date', 'DateItem'), 'get_date_time': ('DateTime', 'DateTimeItem'),
             'get_number': ('Number', 'NumberItem'), 'get_duration': ('Duration', 'DurationItem'), 'get_money': ('Money', 'MoneyItem'),
             'get_percent': ('Percent', 'PercentItem'), 'get_dynamic_type': ('DynamicType', 'DynamicTypeItem')}


def x4_getters(ctx):
    """X4 each typed getter accepts its own token kind and, for variables, exactly its own item type"""
    ctx.rule('X4', 'typed getters are disjoint', floor=6)
    acc = model.getter_accepts(ctx)
    for g, (tok, item) in sorted(WANT_ITEM.items()):
        b = ctx.facts.one(r'^tokinizer::tools::%s$' % g)
        ctx.fn(b)
        kinds = acc.get(g, set()) - {'Variable'}
        downs = sorted(set(t['callee']['gen'][0].rsplit('::', 1)[-1] for bid, t in b.calls(r'downcast_ref$') if t['callee'].get('gen')))
        if kinds != {tok}:
            ctx.finding('X4', '%s/token-kinds' % g, '%s accepts token kinds %s; expected exactly {%s}' % (g, sorted(kinds), tok), site=b.loc)
        elif downs != [item]:
            ctx.finding('X4', '%s/variable-item-types' % g, '%s takes a variable holding %s; expected exactly %s: values of another kind would be taken for a %s' % (g, downs, item, tok.lower()), site=b.loc)
        else:
            ctx.ok('X4', '%s: %s token or %s variable' % (g, tok, item), 'table', site=b.loc)


def x5_print(ctx):
    """X5 DateTimeItem::print: day, month, year, hour, minute, second all come from from_utc_datetime(self.0) in the item's zone"""
    ctx.rule('X5', 'date-time printing reads one zoned value', floor=6)
    from ..facts import inline_calls
    b = ctx.facts.one(r'^<compiler::date_time::DateTimeItem as compiler::DataItem>::print$')
    ctx.fn(b)
    recvs = {}
    bodies = [b] + [ctx.facts.bodies[y] for (y, k) in ctx.cg.edges.get(b.path, ()) if k == 'direct' and y.startswith('formatter::') and y in ctx.facts.bodies]
    for bb in bodies:
        for bid, t in bb.calls(r'chrono::(Datelike|Timelike)::(day|month|year|hour|minute|second)$|as chrono::(Datelike|Timelike)>::(day|month|year|hour|minute|second)$'):
            comp = t['callee']['path'].rsplit('::', 1)[1]
            e = bb.expr(t['args'][0])
            if 'Utc::now' in render(e) or 'Utc::today' in render(e):
                continue        # the current year, used to choose between the two formats
            recvs.setdefault(comp, set()).add((fn_key(bb.path), render(e)))
    if len(recvs) < 6:
        raise AnchorLost('DateTimeItem::print: expected day/month/year/hour/minute/second accessors, found %s' % sorted(recvs))
    want = r'TimeZone::from_utc_datetime\(FixedOffset::east(_opt)?\((\(self\.1\.offset MulWithOverflow 60\)\.#?0|\(self\.1\.offset Mul 60\))\)( as Some\.0)?, self\.0\)'
    for comp, rs in sorted(recvs.items()):
        bad = [r for r in rs if not re.fullmatch(want, r[1])]
        if bad:
            ctx.finding('X5', 'print/%s-source' % comp, 'DateTimeItem::print reads %s from %s (in %s); every field must come from from_utc_datetime(self.0) in the item\'s zone, or day and clock can disagree around midnight' % (comp, bad[0][1][:120], bad[0][0]), site=b.loc)
        else:
            ctx.ok('X5', '%s read from from_utc_datetime(self.0) @ east(offset*60)' % comp, 'wiring', site=b.loc)
    if list(b.calls(r'TimeZone::from_utc_date$')):
        ctx.finding('X5', 'print/from_utc_date', 'DateTimeItem::print converts the date part with from_utc_date (no shift across midnight)', site=b.loc)


RULES = [('X1', x1_pair), ('X2', x2_width), ('X3', x3_patterns), ('X4', x4_getters), ('X5', x5_print)]


def x6_unique_fields(ctx):
    """X6 a pattern that names two fields alike loses one of the matched tokens (shared rule)"""
    from ..common import unique_field_names
    unique_field_names(ctx, 'X6', ('from_unixtime', 'to_unixtime'), floor=2)


RULES.append(('X6', x6_unique_fields))


def x7_zone_offsets(ctx):
    """Z3 (shared with C11): 'N to date' is shown in the requested zone, whose offset comes from the zone table or the
    GMT+/-h[:mm] formula of parse_timezone"""
    from .C11 import z3_table
    z3_table(ctx)


RULES.append(('Z3', x7_zone_offsets))


# the date spelling reader is shared with C09 / C15: an epoch round trip prints a date and reads it back
from .C09 import d2_small_date as _d2_small_date   # noqa: E402

RULES.append(('D2', _d2_small_date))
