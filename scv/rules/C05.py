"""C05 - Percentage phrases compute the textbook formulas for numbers and money.

Q1 formulas as identities over Q(X,p,A,B); Q2 money stays money; Q3 routing (name -> function -> keyword);
Q4 field names / types agree between patterns and functions; Q5 both percent spellings.
Not decided: f64 rounding; that tokenisation always yields the token shapes the patterns expect.
"""
import json
import re
from fractions import Fraction

from ..facts import render, strip, alternatives, resolve_conds, cond_str, walk, AnchorLost, fn_key
from ..data import abstract_tokens, all_groups, mandatory_groups
from ..ratfun import Rat, to_rat, NotArithmetic
from ..common import rule_body, pattern_field_check, result_alternatives, getter_leaf, check_binop_table, check_literal_reader
from .. import model

X, P, A, B = Rat.sym('X'), Rat.sym('p'), Rat.sym('A'), Rat.sym('B')
H = Rat.const(100)
ONE = Rat.const(1)

# formulas of the statement
SPEC = {
    'number_on': ('X*(1+p/100)', X * (ONE + P / H), ('Number', 'Money')),
    'number_of': ('X*p/100', X * P / H, ('Number', 'Money')),
    'number_off': ('X*(1-p/100)', X * (ONE - P / H), ('Number', 'Money')),
    'find_numbers_percent': ('100*A/B', H * A / B, ('Percent',)),
    'find_total_from_percent': ('100*A/p', H * A / P, ('Number', 'Money')),
}
# English keywords of the statement's phrases, in order
KEYWORDS = {
    'number_on': ['on'], 'number_of': ['of'], 'number_off': ['off'],
    'find_numbers_percent': ['is', 'what', '%', 'of'], 'find_total_from_percent': ['is', 'of', 'what'],
}


def roles_from_pattern(rule, pattern):
    """role -> field name, derived from the pattern (so that a consistent rename of a field stays silent)"""
    fl = [t for t in abstract_tokens(pattern) if t[0] == 'field']
    if rule in ('number_on', 'number_of', 'number_off', 'find_total_from_percent'):
        pc = [t for t in fl if t[1] == 'PERCENT']
        rest = [t for t in fl if t[1] != 'PERCENT']
        if len(pc) != 1 or len(rest) != 1:
            return None
        return {'p': pc[0][2], ('A' if rule == 'find_total_from_percent' else 'X'): rest[0][2]}
    if rule == 'find_numbers_percent':
        if len(fl) != 2:
            return None
        return {'A': fl[0][2], 'B': fl[1][2]}
    return None


def q1_formulas(ctx):
    """Q1 value DAG of each percent rule function equals the statement's formula over the rationals"""
    ctx.rule('Q1', 'percent formulas (exact over Q, modulo field identities)', floor=8)
    for rule, (text, want, kinds) in SPEC.items():
        b = rule_body(ctx, rule)
        ctx.fn(b)
        roles = None
        for lang in sorted(ctx.config.languages):
            for p in ctx.config.rule_patterns(lang, rule):
                r = roles_from_pattern(rule, p)
                if r is None:
                    ctx.finding('Q1', '%s/%s/pattern-shape' % (rule, lang), 'pattern %r of %s does not have the operand fields of the phrase' % (p, rule),
                                site='config.json languages.%s.rules.%s' % (lang, rule))
                    continue
                if roles is not None and r != roles:
                    ctx.finding('Q1', '%s/%s/role-names' % (rule, lang), 'patterns of %s disagree on field names: %s vs %s' % (rule, roles, r),
                                site='config.json languages.%s.rules.%s' % (lang, rule))
                roles = roles or r
        if roles is None:
            raise AnchorLost('rule %s has no pattern in any language' % rule)
        inv = {v: k for k, v in roles.items()}

        def leaf(e):
            g = getter_leaf(e)
            if g and g[1] in inv:
                return inv[g[1]]
            return None
        oks = [(inner, c) for v, inner, c in result_alternatives(b) if v == 'Ok']
        if not oks:
            raise AnchorLost('%s has no Ok(..) result' % rule)
        seen_kinds = set()
        for inner, conds in oks:
            if inner[0] != 'aggr' or not inner[1].startswith('types::TokenType::'):
                ctx.finding('Q1', '%s/result-shape' % rule, '%s returns Ok(%s), not a TokenType constructor' % (rule, render(inner)[:80]), site=b.loc)
                continue
            kind = inner[1].rsplit('::', 1)[1]
            seen_kinds.add(kind)
            if kind not in kinds:
                ctx.finding('Q1', '%s/result-kind-%s' % (rule, kind), '%s returns a %s; the phrase denotes %s' % (rule, kind, ' or '.join(kinds)), site=b.loc)
                continue
            try:
                got = to_rat(inner[2][0], leaf, strip)
            except NotArithmetic as e:
                # a value merged from several arms (a shared helper selecting the formula by a flag fixed at the call site):
                # every arm that is feasible under the path conditions must be the statement's formula
                got = None
                try:
                    alts_ = alternatives(b, inner[2][0], _conds=conds)
                    vals_ = [to_rat(a_, leaf, strip) for a_, _c in alts_]
                    if vals_ and all(v_.equals(vals_[0]) for v_ in vals_):
                        got = vals_[0]
                    elif vals_:
                        got = next(v_ for v_ in vals_ if not v_.equals(want))
                except (NotArithmetic, Exception):
                    got = None
                if got is None:
                    ctx.finding('Q1', '%s/%s/not-arithmetic' % (rule, kind), 'value of %s (%s arm) is not a rational expression of its operands: %s (%s)' % (rule, kind, render(inner[2][0])[:120], e), site=b.loc)
                    continue
            if got.equals(want):
                ctx.ok('Q1', '%s -> %s(%s) == %s' % (rule, kind, render(inner[2][0])[:90], text), 'ratfun', site=b.loc)
            else:
                ctx.finding('Q1', '%s/%s/formula' % (rule, kind), '%s computes %s in its %s arm; the statement says %s' % (rule, render(inner[2][0])[:140], kind, text), site=b.loc,
                            detail={'got': repr(got), 'want': repr(want)})
        if 'Money' in kinds and 'Money' not in seen_kinds:
            ctx.finding('Q1', '%s/no-money-arm' % rule, '%s never returns money' % rule, site=b.loc)
    # PercentItem::get_number(other) = other/100*p and the two `X +- p%` table cells
    g = ctx.facts.one(r'^<compiler::percent::PercentItem as compiler::DataItem>::get_number$')
    ctx.fn(g)

    def leaf2(e):
        t = render(e)
        if t == 'self.0':
            return 'p'
        if re.fullmatch(r'DataItem::get_underlying_number\(other\)', t):
            return 'X'
        return None
    share = None
    n_arith = 0
    for a, conds in alternatives(g, g.local_expr(0)):
        cs = [cond_str(d, v) for d, v in conds]
        try:
            r = to_rat(a, leaf2, strip)
        except NotArithmetic as e:
            ctx.finding('Q1', 'PercentItem::get_number/not-arithmetic', 'PercentItem::get_number: %s' % e, site=g.loc)
            continue
        # "both operands are percentages": type_name(self) == type_name(other) holds, spelled with eq or with a negated ne
        same_kind = False
        for d, v in conds:
            sd = strip(d, transparent=False)
            if sd[0] == 'call' and 'type_name' in render(sd) and re.search(r'::(eq|ne)$', sd[1]):
                truthy = (isinstance(v, tuple) and set(v[1]) == {0}) or (not isinstance(v, tuple) and set(v) == {1})
                falsy = not isinstance(v, tuple) and set(v) == {0}
                if (sd[1].endswith('::eq') and truthy) or (sd[1].endswith('::ne') and falsy):
                    same_kind = True
        if same_kind:
            continue    # percent (+-) percent: plain value
        n_arith += 1
        share = r
        if r.equals(X / H * P):
            ctx.ok('Q1', 'PercentItem::get_number(other) == other/100*p', 'ratfun', site=g.loc)
        else:
            ctx.finding('Q1', 'PercentItem::get_number/formula', 'a percent operand is turned into %s; the statement needs other*p/100' % render(a)[:120], site=g.loc)
    if n_arith != 1:
        raise AnchorLost('PercentItem::get_number: expected one arithmetic arm, found %d' % n_arith)
    # cells: NumberItem / MoneyItem calculate with a percent on the right: under the percent arm the right operand of
    # + and - is exactly other.get_number(self) (no further transformation)
    for owner, arm in (('number::NumberItem', r'PercentItem'), ('money::MoneyItem', r'"PERCENT"')):
        c = ctx.facts.one(r'^<compiler::%s as compiler::DataItem>::calculate$' % owner)
        ctx.fn(c)
        raw = check_binop_table(ctx, c, 'Q1', None, False)
        short = owner.split('::')[1]
        for variant in ('Add', 'Sub'):
            rows = raw.get(variant, [])
            found = 0
            for l, r in rows:
                for a, conds in alternatives(c, r):
                    cs = [cond_str(d, v) for d, v in resolve_conds(c, conds)]
                    if not any(x.startswith('on_left') and x.endswith('!=[0]') for x in cs):
                        continue
                    if arm.startswith('"'):
                        # kind tested by name: the alternative is selected when nothing on its path excludes type_name(other) == arm
                        # (an or-pattern `"PERCENT" | "DURATION"` leaves only the negated tests of the earlier arms on the merged edge)
                        kinds = [(m.group(1), x.endswith('!=[0]')) for x in cs for m in [re.search(r'type_name\(other\), ("[^"]*")\)', x)] if m]
                        if any((k == arm) != pos for k, pos in kinds if pos or k == arm):
                            continue
                    elif not [x for x in cs if re.search(arm, x) and x.endswith('!=[0]')]:
                        continue
                    found += 1
                    txt = render(a)
                    if txt == 'DataItem::get_number(other, self)':
                        ctx.ok('Q1', '%s::calculate %s, percent arm: right = other.get_number(self)' % (short, variant), 'gamma', site=c.loc)
                    else:
                        ctx.finding('Q1', '%s::calculate/%s/percent-arm' % (short, variant),
                                    "'X %s p%%': the right operand under the percent arm is %s; it must be other.get_number(self) (= X*p/100)" % ('+' if variant == 'Add' else '-', txt[:140]), site=c.loc)
            if not found:
                ctx.finding('Q1', '%s::calculate/%s/percent-arm-missing' % (short, variant), 'no percent arm found for OperationType::%s in %s::calculate' % (variant, short), site=c.loc)
    # composition (informational, exact): X + share == X*(1+p/100), X - share == X*(1-p/100)
    if share is not None:
        if (X + share).equals(X * (ONE + P / H)) and (X - share).equals(X * (ONE - P / H)):
            ctx.ok('Q1', "composition: 'X + p%' = X + X/100*p == X*(1+p/100), 'X - p%' likewise", 'ratfun')
        else:
            ctx.finding('Q1', 'composition/X-plus-percent', "'X + p%' composes to a formula different from X*(1+p/100)")


def q2_money(ctx):
    """Q2 result is Money(value, currency) exactly when get_currency(<X field>) is Some, same value in both arms"""
    ctx.rule('Q2', 'money stays money', floor=4)
    for rule in ('number_on', 'number_of', 'number_off', 'find_total_from_percent'):
        b = rule_body(ctx, rule)
        arms = {}
        for v, inner, conds in result_alternatives(b):
            if v != 'Ok' or inner[0] != 'aggr':
                continue
            kind = inner[1].rsplit('::', 1)[1]
            cs = [cond_str(d, vv) for d, vv in conds]
            cur = [c for c in cs if 'get_currency(' in c]
            arms[kind] = (inner, cur[-1] if cur else None)
        if set(arms) != {'Money', 'Number'}:
            ctx.finding('Q2', '%s/arms' % rule, '%s returns %s; expected a Money arm and a Number arm' % (rule, sorted(arms)), site=b.loc)
            continue
        (mi, mc), (ni, nc) = arms['Money'], arms['Number']
        okc = mc and nc and mc.endswith('=[1]') and not mc.endswith('!=[1]') and (
            (nc.endswith('=[0]') and not nc.endswith('!=[0]') and mc[:-4] == nc[:-4]) or
            (nc.endswith('!=[1]') and mc[:-4] == nc[:-5]))          # `if let Some(..) = .. else ..`: "is not Some" is "is None" for an Option
        # the currency looked up is the one of the amount field (the non-percent operand)
        xfield = None
        for n, how, t in model.fields_read(ctx, b):
            if how in ('get_number_or_price', 'get_money'):
                xfield = n
        cfield = re.search(r'get_currency\(config, "([^"]+)"', mc or '')
        money_cur = render(mi[2][1])
        if not okc:
            ctx.finding('Q2', '%s/gate' % rule, '%s: Money/Number selection is not `get_currency(..) is Some/None` (%s / %s)' % (rule, mc, nc), site=b.loc)
        elif not cfield or cfield.group(1) != xfield:
            ctx.finding('Q2', '%s/currency-field' % rule, '%s takes the currency from field %r but the amount from field %r' % (rule, cfield and cfield.group(1), xfield), site=b.loc)
        elif 'get_currency(config, "%s"' % xfield not in money_cur:
            ctx.finding('Q2', '%s/currency-value' % rule, '%s: the Money result carries %s, not the looked-up currency' % (rule, money_cur[:80]), site=b.loc)
        elif render(mi[2][0]) != render(ni[2][0]):
            ctx.finding('Q2', '%s/value-differs' % rule, '%s: Money arm and Number arm compute different values' % rule, site=b.loc)
        else:
            ctx.ok('Q2', '%s: Money(v, c) iff get_currency(%r) = Some(c); same v' % (rule, xfield), 'gamma', site=b.loc)


def q3_routing(ctx):
    """Q3 rule name -> registered function -> keyword of the phrase, per language"""
    ctx.rule('Q3', 'routing: rule name, function, keywords', floor=10)
    fns = model.rule_functions(ctx)
    for rule in SPEC:
        fn = fns.get(rule)
        if fn is None:
            ctx.finding('Q3', '%s/unregistered' % rule, 'rule %s is not registered in RULE_FUNCTIONS' % rule)
            continue
        if not fn.endswith('::' + rule):
            # which function computes which formula is decided by Q1 on the *registered* body; a different name is only noted
            ctx.note('Q3: rule %s is routed to %s' % (rule, fn))
        for lang in sorted(ctx.config.languages):
            pats = ctx.config.rule_patterns(lang, rule)
            if not pats:
                ctx.finding('Q3', '%s/%s/missing' % (rule, lang), 'language %s does not configure rule %s' % (lang, rule), site='config.json languages.%s.rules' % lang)
                continue
            for p in pats:
                words = [t[1] for t in abstract_tokens(p) if t[0] in ('word', 'op')]
                if lang == 'en' or words == KEYWORDS[rule]:
                    if words != KEYWORDS[rule]:
                        ctx.finding('Q3', '%s/%s/keywords/%s' % (rule, lang, p), 'pattern %r routes the words %s to %s; the phrase of the statement is %s' % (p, words, rule, KEYWORDS[rule]),
                                    site='config.json languages.%s.rules.%s' % (lang, rule))
                    else:
                        ctx.ok('Q3', '%s[%s] %r keywords %s' % (rule, lang, p, words), 'data', sample=False)
                else:
                    ctx.note('Q3: %s[%s] pattern %r uses words %s' % (rule, lang, p, words))
                    ctx.ok('Q3', '%s[%s] %r (translated keywords)' % (rule, lang, p), 'data', sample=False)
        # operand order of the phrase: both orders the statement allows for on/of/off are configured in en
    # a rule name configured in a language but unknown to RULE_FUNCTIONS is silently dropped by load_from_json
    for lang in sorted(ctx.config.languages):
        for rn in ctx.config.languages[lang]['rules']:
            if rn not in fns:
                ctx.finding('Q3', '%s/%s/unknown-function' % (rn, lang), 'config.json configures rule %r for %s but no such function is registered: the rule is dropped at load time' % (rn, lang),
                            site='config.json languages.%s.rules.%s' % (lang, rn))
            else:
                ctx.ok('Q3', 'rule %s[%s] is registered' % (rn, lang), 'data', sample=False)


def q4_fields(ctx):
    """Q4 every field a percent rule function requires is bound (with an accepted type) by every pattern"""
    ctx.rule('Q4', 'field names/types: function vs patterns', floor=30)
    for rule in SPEC:
        pattern_field_check(ctx, 'Q4', rule)
    # percent_calculator ("10% 200") is not a phrase of the statement: report as note only
    if 'percent_calculator' in model.rule_functions(ctx):
        pattern_field_check(ctx, 'Q4', 'percent_calculator', notes_only=True)


def drop_index(h):
    if isinstance(h, dict):
        return {k: drop_index(v) for k, v in h.items() if k != 'index'}
    if isinstance(h, list):
        return [drop_index(x) for x in h]
    return h


def q5_spellings(ctx):
    """Q5 'p%' and '%p': one regex with % after and one with % before the same NUMBER sub-pattern"""
    ctx.rule('Q5', 'both percent spellings', floor=2)
    fam = ctx.config.parse_family('percent')
    shapes = []
    for p, h in fam:
        if h is None:
            ctx.finding('Q5', 'percent/unparsable/%s' % p, 'percent regex %r does not parse (dropped at load time)' % p)
            continue
        g = all_groups(h)
        if 'NUMBER' not in g or 'PERCENT' not in g:
            ctx.finding('Q5', 'percent/groups/%s' % p, 'percent regex %r lacks NUMBER or PERCENT group' % p)
            continue
        order = re.findall(r'\(\?P<(NUMBER|PERCENT)>', p)
        shapes.append((order[0] if order else '?', json.dumps(drop_index(g['NUMBER']), sort_keys=True), p))
    firsts = sorted(s[0] for s in shapes)
    if firsts != ['NUMBER', 'PERCENT']:
        ctx.finding('Q5', 'percent/spellings', 'percent regexes do not cover both spellings (group orders: %s)' % firsts, site='config.json parse.percent')
    else:
        ctx.ok('Q5', 'one regex NUMBER% and one %NUMBER', 'data')
        if shapes[0][1] != shapes[1][1]:
            ctx.finding('Q5', 'percent/number-subpattern', 'the two percent spellings accept different number syntaxes', site='config.json parse.percent')
        else:
            ctx.ok('Q5', 'same NUMBER sub-pattern in both spellings', 'data')
    # both spellings produce the same token: one parser, one constructor
    b = ctx.facts.one(r'regex_tokinizer::percent::percent_regex_parser$')
    ctx.fn(b)
    aggs = [s for i in b.normal_blocks for s in b.blocks[i]['stmts'] if s['k'] == 'assign' and s['rv'] == 'aggr' and s['adt'] == 'types::TokenType::Percent']
    if len(aggs) != 1:
        raise AnchorLost('percent_regex_parser: expected one TokenType::Percent construction, found %d' % len(aggs))


def q6_reader(ctx):
    """Q6 a percent literal denotes the f64 value of its NUMBER group text (normalised by the separators)"""
    ctx.rule('Q6', 'percent literal value', floor=1)
    check_literal_reader(ctx, 'Q6', r'regex_tokinizer::percent::percent_regex_parser$', 'Percent', ['NUMBER'], 'percent_regex_parser')


# rules outside the statement's phrase table that may consume a percentage, with the reason
PERCENT_PASS_THROUGH = {
    'division_cleanup': 'hands its {PERCENT:data} field back unchanged ("p%/text" cleanup); checked below',
}


def q7_closed_table(ctx):
    """Q7 the phrase table is closed: a rule that consumes a PERCENT field is one of the statement's five phrases, a
    pass-through, or inert (its function requires a field that no pattern binds). The percent regex takes a leading sign, so
    'X -p%' reaches the rules as the adjacent pair NUMBER PERCENT: an active juxtaposition rule would replace X*(1-p/100)."""
    ctx.rule('Q7', 'no other active rule consumes a percentage', floor=2)
    fns = model.rule_functions(ctx)
    seen = set()
    for lang in sorted(ctx.config.languages):
        for rn, p, org in model.all_patterns(ctx, lang):
            toks = abstract_tokens(p)
            if not any(t[0] == 'field' and t[1] == 'PERCENT' for t in toks):
                continue
            if rn in SPEC:
                continue
            if rn not in fns:
                continue            # dropped at load time (Q3 reports it)
            b = rule_body(ctx, rn)
            ctx.fn(b)
            reads = model.fields_read(ctx, b)
            required = set(n for n, how, _ in reads if how == 'contains_key') or set(n for n, how, _ in reads)
            bound = {t[2] for t in toks if t[0] == 'field'}
            missing = sorted(required - bound)
            if missing:
                ctx.ok('Q7', '%s[%s] %r is inert: the function requires %s, the pattern binds %s' % (rn, lang, p, missing, sorted(bound)), 'data', site=org)
                continue
            if rn in PERCENT_PASS_THROUGH:
                if rn not in seen:
                    seen.add(rn)
                    pc = [(inner, c) for v, inner, c in result_alternatives(b) if v == 'Ok' and inner[0] == 'aggr' and inner[1].endswith('TokenType::Percent')]
                    if pc and all(re.search(r'as Percent\.0$', render(inner[2][0])) for inner, _ in pc):
                        ctx.ok('Q7', '%s returns its percentage unchanged' % rn, 'gamma', site=b.loc)
                    else:
                        ctx.finding('Q7', '%s/pass-through' % rn, '%s is listed as a pass-through but builds its Percent result as %s' % (rn, [render(i[2][0])[:60] for i, _ in pc]), site=b.loc)
                continue
            words = [t[1] for t in toks if t[0] in ('word', 'op')]
            ctx.finding('Q7', '%s/%s/active' % (rn, lang), 'rule %s is active through pattern %r (%s) and consumes a percentage%s; it is not one of the statement\'s phrases: %s'
                        % (rn, p, lang, '' if words else ' next to a number without any keyword',
                           "'X -p%' / 'X +p%' reach the rules as this adjacent pair (the percent regex takes the sign) and no longer compute X*(1-+p/100)" if not words else 'the phrase table of the statement does not contain it'), site=org)


RULES = [('Q7', q7_closed_table), ('Q1', q1_formulas), ('Q2', q2_money), ('Q3', q3_routing), ('Q4', q4_fields), ('Q5', q5_spellings), ('Q6', q6_reader)]


def q8_unique_fields(ctx):
    """Q8 a pattern that names two fields alike loses one of the matched tokens (shared rule)"""
    from ..common import unique_field_names
    unique_field_names(ctx, 'Q8', ('number_on', 'number_of', 'number_off', 'find_numbers_percent', 'find_total_from_percent', 'percent_calculator'), floor=10)


RULES.append(('Q8', q8_unique_fields))


def q9_lexical(ctx):
    """Q9 percent literals and money operands of percent phrases are percent / money tokens (E7b lexical competition model: month stage, regex families in TOKEN_REGEX_PARSER order with first-claim-wins,
    alias stage; samples generated from the configuration)"""
    from ..lexrules import run_samples, number_samples, based_samples, money_samples, unit_samples, month_samples, zone_samples, duration_samples, percent_samples, keyword_samples
    ctx.rule('Q9', 'percent literals and money operands of percent phrases are percent / money tokens', floor=150)
    run_samples(ctx, 'Q9', percent_samples(ctx))


RULES.append(('Q9', q9_lexical))


def q10_matcher(ctx):
    """Q10 the pattern scan of rule_tokinizer / find_match, tabulated (scv/matcher.py): which tokens a rule function is handed
    for each named field and what the matched run is replaced by, on every line of up to three (thorough: four) tokens"""
    from ..matcher import matcher_table
    ctx.rule('Q10', 'pattern scan: matches, field bindings and replacement (tabulated)', floor=1)
    matcher_table(ctx, 'Q10', deep=(ctx.tier == 'thorough' and ctx.cfg_name == 'dev'))


RULES.append(('Q10', q10_matcher))


def q11_stateless(ctx):
    """Q11 literal readers carry no state from one capture of the line to the next (shared rule, scv/common.py)"""
    from ..common import reader_stateless
    reader_stateless(ctx, 'Q11', ('Percent',))


RULES.append(('Q11', q11_stateless))
