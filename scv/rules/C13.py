"""C13 - Based integer literals and base conversion round-trip.

B1 reader / printer table per base (group, prefix class, digit class, radix constant, NumberType, format trait, '#'
flag); B2 integer width of reader and printer agree; B3 number_type_convert rounds in every arm and its word table
covers the configured word group; B4 arithmetic keeps the left operand's NumberType; B5 the order of the number
regexes cannot let one base claim part of another base's literal.
Not decided: round trip for every integer as such.
"""
import re

from ..facts import render, strip, walk, fn_key, AnchorLost, alternatives, cond_str, resolve_conds
from ..data import all_groups, alphabet, ranges_subset, in_ranges, enumerate_language
from ..common import rule_body, pattern_field_check, result_alternatives
from ..tables import spec
from .. import model

FMT_TRAIT = {'Binary': ('new_binary', '01', '0b'), 'Octal': ('new_octal', '01234567', '0o'), 'Hexadecimal': ('new_upper_hex', '0123456789ABCDEF', '0x')}
LOWER_HEX = ('new_lower_hex', '0123456789abcdef', '0x')


def reader_rows(ctx):
    """group -> (radix, NumberType, int type, site) of the based-literal reader. Extracted from the *value* of the Number
    token (helpers inlined, `?` / combinators lowered), so the rows survive extract-method and match -> combinator rewrites:
    every alternative of the payload that contains `from_str_radix(<capture group>, <radix>)` is one row; the NumberType
    alternative selected by the presence of the same capture group completes it."""
    from ..common import literal_values
    b = ctx.facts.one(r'regex_tokinizer::number::number_regex_parser$')
    ctx.fn(b)
    toks = [st for i in b.normal_blocks for st in b.blocks[i]['stmts'] if st['k'] == 'assign' and st['rv'] == 'aggr' and st['adt'] == 'types::TokenType::Number']
    if not toks:
        raise AnchorLost('number_regex_parser constructs no TokenType::Number')
    rows = {}
    for st in toks:
        for core, factor, conds in literal_values(ctx, b, b.expr(st['ops'][0])):
            for x in walk(core):
                if x[0] == 'call' and x[1].endswith('::from_str_radix') and len(x[2]) == 2:
                    m = re.search(r'<impl ([iu]\d+|[iu]size)>::from_str_radix$', x[1])
                    ity = m.group(1) if m else '?'
                    loc = x[3]['loc'] if isinstance(x[3], dict) else st['loc']
                    # group and radix may both be components of one merged row (a table / tuple selected earlier): expand them
                    # together, and with them the NumberType stored next to the value
                    from ..facts import joint_alternatives, _spine_phi, _phi_key
                    te = b.expr(st['ops'][1])
                    shared = {_phi_key(p_) for p_ in (_spine_phi(x[2][0]), _spine_phi(x[2][1])) if p_ is not None}
                    same_row = _spine_phi(te) is not None and _phi_key(_spine_phi(te)) in shared
                    for (ga, ra, ta), jc in joint_alternatives(b, [x[2][0], x[2][1]] + ([te] if same_row else [('top', 'n/a')])):
                        g = re.search(r'Captures::name\([^"]*"(\w+)"\)( as Some\.0)?$', render(ga))
                        radix = strip(ra)
                        if not g or radix[0] != 'const':
                            raise AnchorLost('number_regex_parser: from_str_radix with a non-constant group / radix (%s, %s)' % (render(ga)[:60], render(radix)[:20]))
                        t2 = strip(ta)
                        ty_here = t2[1].rsplit('::', 1)[1] if t2[0] == 'aggr' and t2[1].startswith('types::NumberType::') else None
                        rows[g.group(1)] = [radix[2], ty_here, ity, loc, None]
        for a, conds in alternatives(b, b.expr(st['ops'][1])):
            a2 = strip(a)
            if a2[0] != 'aggr' or not a2[1].startswith('types::NumberType::'):
                continue
            cs = [cond_str(d, v) for d, v in conds]
            for g, row in rows.items():
                if row[1] is None and any(re.search(r'Captures::name\(.*"%s"\)\)=\[1\]' % g, c) for c in cs):
                    row[1] = a2[1].rsplit('::', 1)[1]
    return b, rows


def printer_rows(ctx):
    """NumberType -> (format trait fn, cast type, alternate flag, site) from NumberItem::print"""
    b = ctx.facts.one(r'^<compiler::number::NumberItem as compiler::DataItem>::print$')
    ctx.fn(b)
    nt = {v['discr']: v['name'] for v in ctx.facts.adts['types::NumberType']['variants']}
    rows = {}
    from ..facts import resolve_conds

    def selected(bid):
        """the NumberType variants under which the block runs: decisions on the item's type tag, also when it was copied into
        the parameter of a helper that was moved out of print (resolved back to self.1), and for an or-pattern arm"""
        cs = tuple((d, v) for (_, d, v) in b.conditions(bid))
        try:
            cs = tuple(resolve_conds(b, cs))
        except Exception:
            pass
        sel = [v for d, v in cs if render(d).replace('$', '') in ('discr(self.1)', 'discr(self.#1)') and not isinstance(v, tuple) and 1 <= len(v) <= 2]
        return [nt.get(x) for x in sorted(sel[-1])] if sel else []
    for bid, t in b.calls(r'fmt::rt::Argument::<.*>::new_\w+$|fmt::rt::Argument::new_\w+$'):
        fn = t['callee']['path'].rsplit('::', 1)[1]
        arg = strip(b.expr(t['args'][0]))
        cast_to = arg[2] if arg[0] == 'cast' else None
        src = render(arg[3]) if arg[0] == 'cast' else render(arg)
        for variant in selected(bid):
            rows[variant] = {'fn': fn, 'cast': cast_to, 'src': src, 'loc': t['loc'], 'alt': None}
    for bid, t in b.calls(r'fmt::Arguments::<.*>::new$|fmt::Arguments::new$'):
        tpl = strip(b.expr(t['args'][0]))
        for variant in selected(bid):
            if variant in rows and tpl[0] == 'const':
                rows[variant]['alt'] = template_alternate(tpl[3])
    return b, rows


def template_alternate(text):
    """does the (single) placeholder of a compact format template carry the '#' flag?"""
    m = re.match(r'^(?:const )?b"(.*)"$', text, re.S)
    if not m:
        return None
    raw = m.group(1)
    by = bytearray()
    i = 0
    while i < len(raw):
        if raw[i] == '\\' and raw[i + 1] == 'x':
            by.append(int(raw[i + 2:i + 4], 16)); i += 4
        elif raw[i] == '\\':
            by.append({'n': 10, 't': 9, 'r': 13, '0': 0}.get(raw[i + 1], ord(raw[i + 1]))); i += 2
        else:
            by += raw[i].encode(); i += 1
    if by[:1] == b'\xc0':
        return False
    if by[:1] == b'\xc1' and len(by) >= 5:
        flags = int.from_bytes(by[1:5], 'little')
        return bool(flags & (1 << 23))
    return None


def b1_table(ctx):
    """B1 one consistent row per base"""
    ctx.rule('B1', 'reader/printer table per base', floor=9)
    rb, rrows = reader_rows(ctx)
    pb, prows = printer_rows(ctx)
    fam = ctx.config.parse_family('number')
    gh = {}
    for p, h in fam:
        if h is None:
            ctx.finding('B1', 'number-regex-unparsable/%s' % p, 'number regex %r does not parse' % p)
            continue
        for g, sub in all_groups(h).items():
            gh[g] = (p, sub)
    for g, (radix, ntype) in spec.RADIX.items():
        if g not in rrows:
            ctx.finding('B1', '%s/reader-missing' % g, 'number_regex_parser does not read group %s' % g, site=rb.loc)
            continue
        r_radix, r_type, ity, loc, _ = rrows[g]
        if r_radix != radix:
            ctx.finding('B1', '%s/radix' % g, 'group %s is parsed with radix %s; the statement says base %d' % (g, r_radix, radix), site=loc)
        else:
            ctx.ok('B1', '%s parsed with radix %d' % (g, radix), 'const', site=loc)
        if r_type != ntype:
            ctx.finding('B1', '%s/number-type' % g, 'a %s literal is tagged NumberType::%s, expected %s' % (g, r_type, ntype), site=loc)
        else:
            ctx.ok('B1', '%s tagged NumberType::%s' % (g, ntype), 'gamma', site=loc)
        # regex classes
        if g not in gh or (g + '_FULL') not in gh:
            ctx.finding('B1', '%s/regex-groups' % g, 'no number regex defines groups %s and %s_FULL' % (g, g), site='config.json parse.number')
            continue
        digits = alphabet(gh[g][1])
        valid = '0123456789abcdefghijklmnopqrstuvwxyz'[:radix]
        bad = [chr(c) for lo, hi in digits for c in range(lo, min(hi, lo + 300) + 1) if chr(c).lower() not in valid]
        if bad:
            ctx.finding('B1', '%s/digit-class' % g, 'the %s regex accepts %r, not a digit of base %d: from_str_radix fails (and is unwrapped)' % (g, ''.join(bad[:8]), radix), site='config.json parse.number')
        else:
            ctx.ok('B1', '%s digit class is inside base %d' % (g, radix), 'regex-class', site='config.json parse.number')
        pr = prows.get(ntype)
        fn, alpha, prefix = FMT_TRAIT[ntype]
        if pr is None:
            ctx.finding('B1', '%s/printer-missing' % g, 'NumberItem::print has no arm for NumberType::%s' % ntype, site=pb.loc)
            continue
        if pr['fn'] == LOWER_HEX[0] and ntype == 'Hexadecimal':
            fn, alpha, prefix = LOWER_HEX
        if pr['fn'] != fn:
            ctx.finding('B1', '%s/format-trait' % g, 'NumberType::%s is printed with %s, expected %s' % (ntype, pr['fn'], fn), site=pr['loc'])
        elif pr['alt'] is not True:
            ctx.finding('B1', '%s/prefix-flag' % g, 'NumberType::%s is printed without the # flag: no %s prefix, the printed form is not a based literal' % (ntype, prefix), site=pr['loc'])
        else:
            ctx.ok('B1', 'NumberType::%s printed with {:#%s}' % (ntype, fn[4:]), 'shape', site=pr['loc'])
        # printed alphabet and prefix are accepted by the reader
        if not all(in_ranges(ord(c), digits) for c in alpha):
            ctx.finding('B1', '%s/printed-digits' % g, 'the printer emits digits %r but the %s reader class does not accept all of them' % (alpha, g), site='config.json parse.number')
        else:
            ctx.ok('B1', 'printed digits of %s are readable' % ntype, 'regex-class')
        full = gh[g + '_FULL'][1]
        langpref = None
        if full['k'] == 'concat' and len(full['subs']) >= 3:
            pre = {'k': 'concat', 'subs': full['subs'][:2], 'minlen': 2, 'maxlen': 2}
            langpref = enumerate_language(pre)
        if langpref is None or prefix not in langpref:
            ctx.finding('B1', '%s/printed-prefix' % g, 'the printed prefix %r is not accepted by the %s regex (prefixes: %s)' % (prefix, g, sorted(langpref or [])), site='config.json parse.number')
        else:
            ctx.ok('B1', 'printed prefix %r is readable' % prefix, 'regex-class')


def b2_width(ctx):
    """B2 the printer's integer cast is as wide as the reader's integer type"""
    ctx.rule('B2', 'reader and printer integer width', floor=3)
    rb, rrows = reader_rows(ctx)
    pb, prows = printer_rows(ctx)
    rbits = set()
    for g, row in rrows.items():
        rbits.add(row[2])
    if len(rbits) != 1:
        ctx.finding('B2', 'reader-types-differ', 'based literals are read with different integer types: %s' % sorted(rbits), site=rb.loc)
        return
    ity = list(rbits)[0]
    bits = lambda t: 64 if t.endswith('size') else int(t[1:])
    for ntype in ('Binary', 'Octal', 'Hexadecimal'):
        pr = prows.get(ntype)
        if not pr:
            continue
        if pr['cast'] is None:
            ctx.finding('B2', '%s/no-cast' % ntype, 'NumberType::%s is printed from %s without an integer cast' % (ntype, pr['src']), site=pr['loc'])
        elif bits(pr['cast']) < bits(ity) or (ity.startswith('u') and pr['cast'].startswith('i') and bits(pr['cast']) <= bits(ity)):
            ctx.finding('B2', 'print-cast-narrower-than-reader/%s' % ntype,
                        'NumberType::%s is printed through `as %s` but literals are read as %s: integers above %s::MAX print as %s::MAX, not as themselves' % (ntype, pr['cast'], ity, pr['cast'], pr['cast']), site=pr['loc'])
        else:
            ctx.ok('B2', 'NumberType::%s printed through `as %s` (reader: %s)' % (ntype, pr['cast'], ity), 'types', site=pr['loc'])


def b3_convert(ctx):
    """B3 number_type_convert: the value is rounded in every arm; the word table covers the configured words"""
    ctx.rule('B3', 'number_type_convert', floor=5)
    b = rule_body(ctx, 'number_type_convert')
    ctx.fn(b)
    n = 0
    for v, inner, conds in result_alternatives(b):
        if v != 'Ok':
            continue
        if inner[0] != 'aggr' or inner[1] != 'types::TokenType::Number':
            ctx.finding('B3', 'result-kind', 'number_type_convert returns %s' % render(inner)[:60], site=b.loc)
            continue
        for val, c2 in alternatives(b, inner[2][0], _conds=conds):
            for ty, c3 in alternatives(b, inner[2][1], _conds=c2):
                n += 1
                tname = render(ty).replace('types::NumberType::', '').replace('{}', '')
                vt = render(val)
                if re.fullmatch(r'f64::round\(tools::get_number\("[^"]+", fields\) as Some\.0\)', vt):
                    ctx.ok('B3', '-> %s: value = round(number)' % tname, 'shape', site=b.loc)
                else:
                    ctx.finding('B3', 'not-rounded/%s' % tname, "'N to %s' yields %s: N is not rounded to the nearest integer by the conversion" % (tname.lower(), vt[:100]), site=b.loc)
    if n < 4:
        raise AnchorLost('number_type_convert: expected 4 target types, found %d' % n)
    # the conversion applies to every number: no branch of the function may depend on the magnitude or sign of the operand
    # ("every non-negative integer converts", including 0)
    seen_guard = set()
    for v, inner, conds in result_alternatives(b):
        for d, vv in conds:
            for x in walk(d):
                if x[0] == 'binop' and x[1] in ('Lt', 'Le', 'Gt', 'Ge', 'Eq', 'Ne') and any('get_number(' in render(y) for y in (x[2], x[3])):
                    t_ = render(x)
                    if t_ not in seen_guard:
                        seen_guard.add(t_)
                        ctx.finding('B3', 'number_type_convert/value-guard', "whether 'N to <base>' converts depends on %s: the statement converts every number (0 included) - a guard on the operand's value leaves some operands in their old base" % t_[:120], site=b.loc)
    if not seen_guard:
        ctx.ok('B3', 'no branch of number_type_convert tests the value of the operand', 'gamma', site=b.loc)
    # word table of the code vs configured words: the type operand of the result, evaluated (E6b) for each target word -
    # however the table is spelled (match arms, a const table searched with find, a helper)
    from ..evalint import feasible_alternatives
    tys = []
    for v, inner, conds in result_alternatives(b):
        if v == 'Ok' and inner[0] == 'aggr' and inner[1] == 'types::TokenType::Number':
            tys.append((inner[2][1], conds))

    def selected(word):
        def leaf(body, e):
            e0 = strip(e)
            if e0[0] == 'call' and re.search(r'PartialEq.*::eq$', e0[1]) and len(e0[2]) == 2:
                lits = [model.const_str(x) for x in e0[2]]
                if sum(1 for l in lits if l is not None) == 1:
                    return int([l for l in lits if l is not None][0] == word)
            return None
        out = set()
        from ..evalint import try_ev
        for ty, conds in tys:
            dead = False
            for d, v in conds:
                dv = try_ev(b, d, leaf)
                if isinstance(dv, int) and ((dv in v[1]) if isinstance(v, tuple) else (dv not in v)):
                    dead = True
            if dead:
                continue
            for val, a in feasible_alternatives(b, ty, leaf):
                a0 = strip(a)
                if a0[0] == 'aggr' and a0[1].startswith('types::NumberType::'):
                    out.add(a0[1].rsplit('::', 1)[1])
                else:
                    out.add('?' + render(a0)[:30])
        return out
    cfg_words = set(w for lang, l in ctx.config.languages.items() for w in l['word_group'].get('number_type_group', []))
    words = {}
    for w in sorted(set(['hex', 'hexadecimal', 'octal', 'binary', 'decimal']) | cfg_words):
        sel = selected(w)
        if len(sel) == 1:
            words[w] = list(sel)[0]
        elif len(sel) > 1:
            words[w] = '/'.join(sorted(sel))
    want = {'hex': 'Hexadecimal', 'hexadecimal': 'Hexadecimal', 'octal': 'Octal', 'binary': 'Binary', 'decimal': 'Decimal'}
    for w, t in want.items():
        if words.get(w) != t:
            ctx.finding('B3', 'word/%s' % w, "'to %s' selects %s, expected %s" % (w, words.get(w), t), site=b.loc)
        else:
            ctx.ok('B3', "'%s' -> %s" % (w, t), 'gamma', site=b.loc, sample=False)
    for lang, l in sorted(ctx.config.languages.items()):
        if not ctx.config.rule_patterns(lang, 'number_type_convert'):
            continue
        for w in l['word_group'].get('number_type_group', []):
            if w not in words:
                ctx.finding('B3', '%s/unhandled-word/%s' % (lang, w), 'word %r of number_type_group (%s) is matched by the rule pattern but not handled by number_type_convert' % (w, lang), site='config.json languages.%s.word_group.number_type_group' % lang)
            else:
                ctx.ok('B3', '%s word %r handled' % (lang, w), 'data', sample=False)
    pattern_field_check(ctx, 'B3', 'number_type_convert')


def b4_type_kept(ctx):
    """B4 NumberItem::calculate builds its result with self.1"""
    ctx.rule('B4', "arithmetic keeps the left operand's base", floor=1)
    b = ctx.facts.one(r'^<compiler::number::NumberItem as compiler::DataItem>::calculate$')
    ctx.fn(b)
    res = [s for i in b.normal_blocks for s in b.blocks[i]['stmts'] if s['k'] == 'assign' and s['rv'] == 'aggr' and s['adt'] == 'compiler::number::NumberItem::NumberItem']
    if not res:
        raise AnchorLost('NumberItem::calculate builds no NumberItem')
    for s in res:
        t = render(b.expr(s['ops'][1]))
        if t == 'self.1':
            ctx.ok('B4', 'result NumberItem(.., self.1)', 'wiring', site=s['loc'])
        else:
            ctx.finding('B4', 'result-type', 'the result of number arithmetic is tagged %s, not with the left operand\'s base' % t, site=s['loc'])


def b5_regex_order(ctx):
    """B5 an earlier number regex must not be able to match inside the digits of a later one's literal"""
    ctx.rule('B5', 'order of the number regexes', floor=3)
    fam = [(p, h) for p, h in ctx.config.parse_family('number') if h]
    inner = []
    for p, h in fam:
        g = all_groups(h)
        core = [n for n in ('HEX', 'OCTAL', 'BINARY', 'DECIMAL') if n in g]
        if not core:
            ctx.finding('B5', 'unknown-number-regex/%s' % p, 'number regex %r has none of the groups the parser reads' % p, site='config.json parse.number')
            return
        inner.append((p, h, core[0], alphabet(g[core[0]])))

    def shortest(h, limit=40):
        """a few shortest strings of L(h): unbounded repetitions are cut at min(+1)"""
        def cut(x):
            if isinstance(x, dict):
                y = {k: cut(v) for k, v in x.items()}
                if y.get('k') == 'rep' and (y.get('max') is None or y['max'] > y['min'] + 1):
                    y['max'] = y['min'] + 1 if y['min'] > 0 else 1
                if y.get('k') == 'class':
                    n = sum(hi - lo + 1 for lo, hi in y['ranges'])
                    if n > 40:
                        y = dict(y, ranges=[[lo, min(hi, lo + 2)] for lo, hi in y['ranges'][:6]])
                return y
            if isinstance(x, list):
                return [cut(v) for v in x]
            return x
        s = enumerate_language(cut(h), limit=20000)
        return sorted(s, key=len)[:limit] if s else []
    n = 0
    for i, (pi, hi, gi, ai) in enumerate(inner):
        for j in range(i + 1, len(inner)):
            pj, hj, gj, aj = inner[j]
            n += 1
            steal = [w for w in shortest(hi) if w and all(in_ranges(ord(c), aj) for c in w)]
            if steal:
                ctx.finding('B5', 'steals/%s-inside-%s' % (gi, gj),
                            'the %s regex is tried before the %s regex and can match %r inside the digits of a %s literal: the first claimant of a span wins, so such a %s literal is no longer read as one number' % (gi, gj, steal[0], gj, gj),
                            site='config.json parse.number')
            else:
                ctx.ok('B5', '%s (tried first) cannot match inside %s digits' % (gi, gj), 'regex-class', sample=n < 3)


RULES = [('B1', b1_table), ('B2', b2_width), ('B3', b3_convert), ('B4', b4_type_kept), ('B5', b5_regex_order)]


def b6_unique_fields(ctx):
    """B6 a pattern that names two fields alike loses one of the matched tokens (shared rule)"""
    from ..common import unique_field_names
    unique_field_names(ctx, 'B6', ('number_type_convert',), floor=1)


RULES.append(('B6', b6_unique_fields))


def b7_lexical(ctx):
    """B7 based literals are number tokens as a whole (E7b lexical competition model: month stage, regex families in TOKEN_REGEX_PARSER order with first-claim-wins,
    alias stage; samples generated from the configuration)"""
    from ..lexrules import run_samples, number_samples, based_samples, money_samples, unit_samples, month_samples, zone_samples, duration_samples, percent_samples, keyword_samples
    ctx.rule('B7', 'based literals are number tokens as a whole', floor=30)
    run_samples(ctx, 'B7', based_samples())


RULES.append(('B7', b7_lexical))


def b8_stateless(ctx):
    """B8 literal readers carry no state from one capture of the line to the next (shared rule, scv/common.py)"""
    from ..common import reader_stateless
    reader_stateless(ctx, 'B8', ('Number',))


RULES.append(('B8', b8_stateless))
