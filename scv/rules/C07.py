"""C07 - Numbers print correctly rounded, grouped and signed in every format setting.

Claimed narrowly (DESIGN.md C07): the arithmetic of rounding / grouping over all f64 is NOT decided by this family.
N1 length provenance: a length measured on one string is used as an index only into that string (format_number takes the
   integer-part length from a separately rounded rendering: known finding C07-a).
N2 wiring of the four printers: each format_number call receives (value, thousands separator, decimal separator, digits,
   remove-zero, rounding) from the fields the statement names; percent adds its sign, units substitute {value}.
N3 setters and unit options: each public setter writes the field(s) it names from the same-named parameter; the three
   per-unit options reach DynamicType under their own names at every construction site.
N4 sign: '-' is pushed iff number < 0.0, before the digits, and the digits are those of |number|.
N5 no float -> integer cast of a magnitude-dependent value inside the formatter (such casts saturate at 2^63 / 2^64).
N6 symbol placement table of MoneyItem::print over (symbol_on_left, space_between_amount_and_symbol).
N7 grouping in threes; separators pushed in their roles.
Not decided: correct rounding, zero-fraction removal and grouping for all values.
"""
import re

from ..assembly import printed_assembly
from ..absint import Unknown
from ..facts import render, strip, walk, fn_key, AnchorLost, alternatives, cond_str, opplace, field_path
from ..data import decode_fmt_template
from .. import model

FN = r'^formatter::format_number$'
PRINTERS = {
    'NumberItem': ('number', {3: 'config.number_config.decimal_digits', 4: 'config.number_config.remove_fract_if_zero', 5: 'config.number_config.use_fract_rounding'}),
    'PercentItem': ('percent', {3: 'config.percentage_config.decimal_digits', 4: 'config.percentage_config.remove_fract_if_zero', 5: 'config.percentage_config.use_fract_rounding'}),
    'MoneyItem': ('money', {3: 'MoneyItem::get_currency(self).decimal_digits', 4: 'config.money_config.remove_fract_if_zero', 5: 'config.money_config.use_fract_rounding'}),
    'DynamicTypeItem': ('unit', {}),
}
VALUE = {'NumberItem': 'self.0', 'PercentItem': 'self.0', 'MoneyItem': 'MoneyItem::get_price(self)', 'DynamicTypeItem': 'self.0'}


def _name_of(b, operand_expr_shallow):
    s = render(operand_expr_shallow)
    return s.lstrip('$')


def len_sources(b, e, out=None, depth=0):
    """[(deep render of the measured string, shallow name)] for every len() feeding e (not descending into the measured strings)"""
    if out is None:
        out = []
    if depth > 80:
        return out
    k = e[0]
    if k == 'call':
        if re.search(r'(String::len|str::<impl str>::len)$', e[1]) and e[2]:
            term = e[3] if isinstance(e[3], dict) else None
            nm = render(b.sexpr(term['args'][0])) if term else render(e[2][0])[:30]
            # identity of the measured string: the user variable it lives in (falls back to the defining expression)
            out.append((nm if nm.startswith('$') else render(e[2][0]), nm.lstrip('$'), render(e[2][0])))
            return out
        for a in e[2]:
            len_sources(b, a, out, depth + 1)
    elif k in ('ref', 'deref', 'discr', 'field', 'downcast'):
        len_sources(b, e[1], out, depth + 1)
    elif k == 'cast':
        len_sources(b, e[3], out, depth + 1)
    elif k == 'binop':
        len_sources(b, e[2], out, depth + 1)
        len_sources(b, e[3], out, depth + 1)
    elif k == 'unop':
        len_sources(b, e[2], out, depth + 1)
    elif k == 'aggr':
        for a in e[2]:
            len_sources(b, a, out, depth + 1)
    elif k == 'phi':
        for a in e[2]:
            len_sources(b, a, out, depth + 1)
    elif k == 'index':
        len_sources(b, e[1], out, depth + 1)
    return out


def n1_provenance(ctx):
    """N1 a length measured on one string indexes only that string"""
    ctx.rule('N1', 'length provenance in the formatter', floor=2)
    bodies = [ctx.facts.one(FN)] + ctx.facts.find(r'^formatter::(left_padding|uppercase_first_letter)$')
    n = 0
    for b in bodies:
        ctx.fn(b)
        for bid, t in b.calls(r'Iterator>?::nth$'):
            recv = b.expr(t['args'][0])
            chars = [x for x in walk(recv) if x[0] == 'call' and x[1].endswith('<impl str>::chars')]
            if not chars:
                continue
            n += 1
            cterm = chars[0][3]
            s_name = render(b.sexpr(cterm['args'][0]))
            s_deep = s_name if s_name.startswith('$') else render(chars[0][2][0])
            s_name = s_name.lstrip('$')
            srcs = len_sources(b, b.expr(t['args'][1]))
            foreign = sorted(set((nm, what) for deep, nm, what in srcs if deep != s_deep))
            if foreign:
                # the key names what the foreign string is a rendering *of*, so a change of that value is a new finding
                what = '+'.join(re.sub(r'[^A-Za-z0-9_().,*]', '', re.sub(r'\b(f64|num|tools|ToString|alloc|core|string)::', '', w)) for _, w in foreign)
                ctx.finding('N1', '%s/nth/%s<-len(%s=%s)' % (fn_key(b.path), s_name, '+'.join(nm for nm, _ in foreign), what[:110]),
                            '%s indexes the characters of `%s` with a position derived from the length of another string (`%s` = %s): the two are independent renderings and can differ in length' % (
                                fn_key(b.path), s_name, ', '.join(nm for nm, _ in foreign), '; '.join(w for _, w in foreign)[:160]), site=t['loc'])
            else:
                ctx.ok('N1', '%s: %s.chars().nth(i), i bounded by %s' % (fn_key(b.path), s_name, sorted(set(nm for _, nm, _w in srcs)) or 'no length'), 'provenance', site=t['loc'])
        for i in b.normal_blocks:
            for s in b.blocks[i]['stmts']:
                if s['k'] == 'assign' and s['rv'] == 'ref' and any(isinstance(pe, dict) and 'index' in pe for pe in s['ops'][0].get('copy', s['ops'][0].get('move', {})).get('proj', [])):
                    pass
    if n < 2:
        # the digits are no longer taken with chars().nth(): judge the provenance on the walks of N9 (E6c) instead - a position
        # taken in one rendering must not be derived from (or bounded by) the length of another rendering
        pos = getattr(ctx, '_c07_positions', None)
        if pos is None:
            raise AnchorLost('format_number: expected two chars().nth(..) sites, found %d, and the assembly could not be tabulated (N9)' % n)
        events, prov = pos
        b = bodies[0]
        names = {'i': 'formated_number', 't': 'trunc_part'}
        ctx.ok('N1', 'format_number: positions and the lengths that bound them, followed through the walks of N9', 'provenance', site=b.loc)
        if not events:
            ctx.ok('N1', 'format_number: every position is taken in the rendering it was measured on (E6c walks)', 'provenance', site=b.loc)
            ctx.ok('N1', 'format_number: no length of another rendering bounds a position', 'provenance', site=b.loc)
        for cons, foreign in sorted(events):
            what = '+'.join(re.sub(r'[^A-Za-z0-9_().,*]', '', re.sub(r'\b(f64|num|tools|ToString|alloc|core|string)::', '', prov.get(f, '?'))) for f in foreign)
            ctx.finding('N1', '%s/positions/%s<-len(%s=%s)' % (fn_key(b.path), '+'.join(names.get(c, c) for c in cons), '+'.join(names.get(f, f) for f in foreign), what[:110]),
                        '%s takes characters of the %s rendering at positions derived from the length of another rendering (%s = %s): the two are independent renderings and can differ in length'
                        % (fn_key(b.path), '/'.join(names.get(c, c) for c in cons), '/'.join(names.get(f, f) for f in foreign), '; '.join(prov.get(f, '?') for f in foreign)[:160]), site=b.loc)


def n2_wiring(ctx):
    """N2 the four printers hand format_number the fields the statement names"""
    ctx.rule('N2', 'format_number call-site wiring', floor=24)
    sites = []
    for b in ctx.facts.src_bodies():
        for bid, t in b.calls(FN):
            sites.append((b, t))
    seen = set()
    for b, t in sites:
        ctx.fn(b)
        m = re.search(r'<compiler::\w+::(\w+) as compiler::DataItem>::print$', b.path)
        if not m or m.group(1) not in PRINTERS:
            ctx.finding('N2', 'caller/%s' % fn_key(b.path), 'format_number is called from %s, which is not one of the four printers' % fn_key(b.path), site=t['loc'])
            continue
        item = m.group(1)
        seen.add(item)
        args = [render(b.expr(a)) for a in t['args']]
        if len(args) != 6:
            raise AnchorLost('format_number no longer takes six arguments')
        want = {0: VALUE[item], 1: 'config.thousand_separator', 2: 'config.decimal_seperator'}
        want.update(PRINTERS[item][1])
        names = ['value', 'thousands separator', 'decimal separator', 'decimal digits', 'remove-zero-fraction flag', 'rounding flag']
        for i in range(6):
            if i in want:
                if args[i] == want[i]:
                    ctx.ok('N2', '%s::print: %s = %s' % (item, names[i], args[i]), 'wiring', site=t['loc'], sample=i == 3)
                else:
                    ctx.finding('N2', '%s/%s' % (item, names[i].replace(' ', '-')), '%s::print passes %s as the %s; expected %s' % (item, args[i][:80], names[i], want[i]), site=t['loc'])
            else:
                # unit quantities: Option field of the unit with the documented default
                fld = {3: ('decimal_digits', '2'), 4: ('remove_fract_if_zero', 'True'), 5: ('use_fract_rounding', 'True')}[i]
                # the unit's Option field or its documented default, however it is written (map_or / unwrap_or / match)
                got = sorted(set(render(a_) for a_, _c in alternatives(b, b.expr(t['args'][i]))))
                if got == sorted([fld[1], 'self.1.%s as Some.0' % fld[0]]):
                    ctx.ok('N2', 'DynamicTypeItem::print: %s = unit.%s or %s' % (names[i], fld[0], fld[1]), 'wiring', site=t['loc'], sample=False)
                else:
                    ctx.finding('N2', 'DynamicTypeItem/%s' % names[i].replace(' ', '-'), 'DynamicTypeItem::print passes %s as the %s; expected the unit\'s own %s (default %s)' % (args[i][:80], names[i], fld[0], fld[1]), site=t['loc'])
    for item in PRINTERS:
        if item not in seen:
            ctx.finding('N2', '%s/not-formatting' % item, '%s::print no longer renders its value through format_number' % item)
    # what each printer does with the rendering
    pb = ctx.facts.one(r'<compiler::percent::PercentItem as compiler::DataItem>::print$')
    try:
        got = printed_assembly(pb, {}, [(r'formatter::format_number$', 'A')])
    except Unknown as ex:
        got = 'not extractable: %s' % ex
    if got == ['%', 'A']:
        ctx.ok('N2', 'PercentItem::print = "%" + rendering', 'absint', site=pb.loc)
    else:
        ctx.finding('N2', 'PercentItem/template', 'PercentItem::print assembles %s (A = the rendering of format_number); expected "%%" followed by the rendering' % (got,), site=pb.loc)
    db = ctx.facts.one(r'<compiler::dynamic_type::DynamicTypeItem as compiler::DataItem>::print$')
    r = render(db.ret_expr())
    if re.fullmatch(r'str::replace\(self\.1\.format, "\{value\}", format_number\(.*\)\)', r):
        ctx.ok('N2', 'DynamicTypeItem::print = unit.format with {value} replaced by the rendering', 'wiring', site=db.loc)
    else:
        ctx.finding('N2', 'DynamicTypeItem/substitution', 'DynamicTypeItem::print returns %s' % r[:120], site=db.loc)
    nb = ctx.facts.one(r'<compiler::number::NumberItem as compiler::DataItem>::print$')
    adt = ctx.facts.adts['types::NumberType']
    dec = [v['discr'] for v in adt['variants'] if v['name'] == 'Decimal']
    hit = False
    for a, conds in alternatives(nb, nb.ret_expr()):
        if strip(a)[0] == 'call' and strip(a)[1].endswith('formatter::format_number'):
            cs = [cond_str(d, v) for d, v in conds]
            if any(c == 'discr(self.1)=%s' % dec for c in cs) or any('discr(self.1)' in c for c in cs):
                hit = True
    if hit:
        ctx.ok('N2', 'NumberItem::print: Decimal numbers return the rendering unchanged', 'gamma', site=nb.loc)
    else:
        ctx.finding('N2', 'NumberItem/decimal-arm', 'NumberItem::print no longer returns format_number(..) for NumberType::Decimal', site=nb.loc)


SETTERS = {
    'set_money_configuration': {'config::MoneyConfig.remove_fract_if_zero': 'remove_fract_if_zero', 'config::MoneyConfig.use_fract_rounding': 'use_fract_rounding'},
    'set_number_configuration': {'config::NumberConfig.decimal_digits': 'decimal_digits', 'config::NumberConfig.remove_fract_if_zero': 'remove_fract_if_zero', 'config::NumberConfig.use_fract_rounding': 'use_fract_rounding'},
    'set_percentage_configuration': {'config::NumberConfig.decimal_digits': 'decimal_digits', 'config::NumberConfig.remove_fract_if_zero': 'remove_fract_if_zero', 'config::NumberConfig.use_fract_rounding': 'use_fract_rounding'},
    'set_decimal_seperator': {'config::SmartCalcConfig.decimal_seperator': 'decimal_seperator'},
    'set_thousand_separator': {'config::SmartCalcConfig.thousand_separator': 'thousand_separator'},
}
GROUP = {'set_money_configuration': 'money_config', 'set_number_configuration': 'number_config', 'set_percentage_configuration': 'percentage_config',
         'set_decimal_seperator': None, 'set_thousand_separator': None}


def n3_setters(ctx):
    """N3 setter -> field wiring; unit options keep their names"""
    ctx.rule('N3', 'setter and unit-option wiring', floor=19)
    for name, want in sorted(SETTERS.items()):
        b = ctx.facts.one(r'^smartcalc::SmartCalc::%s$' % name)
        ctx.fn(b)
        got = {}
        for i in b.normal_blocks:
            for s in b.blocks[i]['stmts']:
                if s['k'] == 'assign' and s['lhs']['proj']:
                    fields = [pe['field'] for pe in s['lhs']['proj'] if isinstance(pe, dict) and 'field' in pe]
                    if not fields:
                        continue
                    val = render(b.def_expr(i, 'stmt', s, 1, frozenset()))
                    got.setdefault(fields[-1], []).append((fields, val, s['loc'], i))
        for fld, par in sorted(want.items()):
            rows = got.pop(fld, [])
            if len(rows) != 1:
                ctx.finding('N3', '%s/%s/writes' % (name, fld.rsplit('.', 1)[1]), '%s writes %s %d times, expected once' % (name, fld, len(rows)), site=b.loc)
                continue
            fields, val, loc, wbid = rows[0]
            # the setter stores on every path: no validation guard that silently keeps the old value
            if not (wbid == 0 or wbid in b.postdominators().get(0, ())):
                ctx.finding('N3', '%s/%s/conditional' % (name, fld.rsplit('.', 1)[1]), '%s stores %s only on some paths (a guard returns early and the old value stays configured): the setting a caller asked for is silently not applied' % (name, fld.rsplit('.', 1)[1]), site=loc)
                continue
            grp = GROUP[name]
            grp_ok = grp is None or any(f.endswith('.' + grp) for f in fields)
            if val != par:
                ctx.finding('N3', '%s/%s/value' % (name, fld.rsplit('.', 1)[1]), '%s stores %s into %s; expected its parameter %s' % (name, val[:60], fld.rsplit('.', 1)[1], par), site=loc)
            elif not grp_ok:
                ctx.finding('N3', '%s/%s/group' % (name, fld.rsplit('.', 1)[1]), '%s writes %s, not a field of config.%s' % (name, '.'.join(f.rsplit('.', 1)[1] for f in fields), grp), site=loc)
            else:
                ctx.ok('N3', '%s: %s = %s' % (name, '.'.join(f.rsplit('.', 1)[1] for f in fields), par), 'wiring', site=loc, sample=False)
        for fld, rows in sorted(got.items()):
            if fld.startswith('config::') or fld.startswith('smartcalc::SmartCalc.config'):
                if fld == 'smartcalc::SmartCalc.config':
                    continue
                ctx.finding('N3', '%s/extra-write/%s' % (name, fld.rsplit('.', 1)[1]), '%s also writes %s' % (name, fld), site=rows[0][2])
    # unit options: DynamicType::new stores each parameter in the same-named field, and every caller passes same-named values
    nb = ctx.facts.one(r'^config::DynamicType::new$')
    ctx.fn(nb)
    ret = strip(nb.ret_expr())
    if ret[0] != 'aggr' or not ret[1].endswith('DynamicType::DynamicType'):
        raise AnchorLost('DynamicType::new does not return a DynamicType literal')
    for fname, val in zip(ret[3], ret[2]):
        if fname in ('decimal_digits', 'use_fract_rounding', 'remove_fract_if_zero'):
            if render(val) == fname:
                ctx.ok('N3', 'DynamicType::new: %s = parameter %s' % (fname, fname), 'wiring', site=nb.loc, sample=False)
            else:
                ctx.finding('N3', 'DynamicType::new/%s' % fname, 'DynamicType::new stores %s into %s' % (render(val)[:40], fname), site=nb.loc)
    pidx = {nm: i for i, nm in nb.arg_names.items()}
    n = 0
    for b in ctx.facts.src_bodies():
        for bid, t in b.calls(r'^config::DynamicType::new$'):
            n += 1
            ctx.fn(b)
            for pname in ('decimal_digits', 'use_fract_rounding', 'remove_fract_if_zero'):
                a = render(b.expr(t['args'][pidx[pname] - 1]))
                last = re.split(r'[.\s(]', a)[-1].rstrip(')')
                if last == pname:
                    ctx.ok('N3', '%s: DynamicType::new(.., %s = %s)' % (fn_key(b.path), pname, a[-50:]), 'wiring', site=t['loc'], sample=False)
                else:
                    ctx.finding('N3', '%s/DynamicType::new/%s' % (fn_key(b.path), pname), '%s passes %s as %s of a unit' % (fn_key(b.path), a[-70:], pname), site=t['loc'])
    for b in ctx.facts.src_bodies():
        if b.path == nb.path:
            continue
        for i in b.normal_blocks:
            for st in b.blocks[i]['stmts']:
                if st['k'] == 'assign' and st['rv'] == 'aggr' and st.get('adt', '').endswith('config::DynamicType::DynamicType') and st.get('fields') and not st.get('exp'):
                    n += 1
                    ctx.fn(b)
                    for fname, o in zip(st['fields'], st['ops']):
                        if fname in ('decimal_digits', 'use_fract_rounding', 'remove_fract_if_zero'):
                            a = render(b.expr(o))
                            last = re.split(r'[.\s(]', a)[-1].rstrip(')')
                            if last == fname:
                                ctx.ok('N3', '%s: DynamicType{%s: %s}' % (fn_key(b.path), fname, a[-50:]), 'wiring', site=st['loc'], sample=False)
                            else:
                                ctx.finding('N3', '%s/DynamicType-literal/%s' % (fn_key(b.path), fname), '%s stores %s as %s of a unit' % (fn_key(b.path), a[-70:], fname), site=st['loc'])
    if n < 2:
        raise AnchorLost('expected two construction sites of DynamicType (load_from_json, add_dynamic_type_item), found %d' % n)


def n4_sign(ctx):
    """N4 '-' iff number < 0, first; digits are those of |number|"""
    ctx.rule('N4', 'sign handling of format_number', floor=3)
    b = ctx.facts.one(FN)
    ctx.fn(b)
    minus = [(bid, t) for bid, t in b.calls(r'String::push$') if render(b.expr(t['args'][1])) in ("'-'", '-', '"-"') or (strip(b.expr(t['args'][1]))[0] == 'const' and strip(b.expr(t['args'][1]))[2] == '-')]
    if len(minus) != 1:
        ctx.finding('N4', 'minus/pushes', "format_number pushes '-' at %d sites, expected one" % len(minus), site=b.loc)
        return
    bid, t = minus[0]
    conds = [c.replace('$', '') for c in b.cond_text(bid)]
    conds = [c for c in conds if not re.search(r'^discr\(.*\)=\[0, 1\]$', c)]          # a decision that admits both arms of an Option / Result decides nothing
    nm = next((str(b.arg_names.get(i)) for i in range(1, b.argc + 1) if str(b.locals.get(i, '')) == 'f64'), 'number')
    conds = [re.sub(r'\b%s\b' % re.escape(nm), 'number', c) for c in conds]
    if conds in (['(number Lt 0.0)!=[0]'], ['(0.0 Gt number)!=[0]'], ['(number Ge 0.0)=[0]'], ['(0.0 Le number)=[0]']):
        ctx.ok('N4', "'-' is pushed iff number < 0.0", 'guard-dom', site=t['loc'])
    else:
        ctx.finding('N4', 'minus/guard', "the '-' is pushed under %s; expected exactly number < 0.0" % conds, site=t['loc'])
    # before any digit: the minus block dominates or cannot be reached from the other pushes
    others = [(x, tt) for x, tt in b.calls(r'String::(push|push_str)$') if x != bid]
    late = [tt for x, tt in others if b.can_reach(x, bid)]
    if late:
        ctx.finding('N4', 'minus/not-first', "characters are appended before the '-'", site=late[0]['loc'])
    else:
        ctx.ok('N4', "'-' precedes every other character of the result", 'order', site=t['loc'])
    # the digit source is a rendering of |number|
    bad = []
    n = 0
    for x in walk(b.local_expr(23) if False else ('top',)):
        pass
    for bb, tt in b.calls(r'fmt::rt::Argument::<.*>::new_display$|Argument::new_display$'):
        n += 1
        a = render(b.expr(tt['args'][0]))
        if a not in ('f64::abs(number)', 'abs(number)') and 'abs(number)' not in a:
            bad.append((a, tt['loc']))
    if n < 2:
        raise AnchorLost('format_number: expected the two {:.N} / {} renderings, found %d' % n)
    for a, loc in bad:
        ctx.finding('N4', 'digits/not-abs', 'the digits are rendered from %s, expected |number| (the sign is pushed separately)' % a[:60], site=loc)
    if not bad:
        ctx.ok('N4', 'both renderings format |number|', 'wiring', site=b.loc)


def _depends_on_magnitude(b, e, depth=0):
    """does the value depend on the magnitude of `number` (parameter 1) without passing through fract()?"""
    if depth > 80:
        return True
    k = e[0]
    if k == 'arg':
        return e[1] == 1
    if k in ('const', 'fnitem', 'top', 'undef', 'var'):
        return False
    if k == 'loop':
        return False
    if k == 'call':
        if re.search(r'f64>::fract$|::fract$', e[1]):
            return False
        term = e[3] if isinstance(e[3], dict) else None
        c = term.get('callee') if term else None
        if c and c.get('local') and c['path'] in b.facts.bodies and c['path'] != b.path:
            callee = b.facts.bodies[c['path']]
            from ..facts import subst_args
            if not callee.loops() and len(callee.blocks) < 60:
                return _depends_on_magnitude(b, subst_args(callee.ret_expr(), list(e[2])), depth + 1)
        return any(_depends_on_magnitude(b, a, depth + 1) for a in e[2])
    if k in ('ref', 'deref', 'discr', 'field', 'downcast'):
        return _depends_on_magnitude(b, e[1], depth + 1)
    if k == 'cast':
        return _depends_on_magnitude(b, e[3], depth + 1)
    if k == 'binop':
        if e[1] in ('Rem',):
            return False
        return _depends_on_magnitude(b, e[2], depth + 1) or _depends_on_magnitude(b, e[3], depth + 1)
    if k == 'unop':
        return _depends_on_magnitude(b, e[2], depth + 1)
    if k in ('aggr', 'phi'):
        return any(_depends_on_magnitude(b, a, depth + 1) for a in e[2])
    if k == 'index':
        return _depends_on_magnitude(b, e[1], depth + 1)
    return False


def n5_casts(ctx):
    """N5 no saturating float->int cast of a magnitude-dependent value in the formatter"""
    ctx.rule('N5', 'no float->int cast of the magnitude', floor=1)
    b = ctx.facts.one(FN)
    fi = ctx.facts.find(r'^formatter::fract_information$')
    n = 0
    for body in [b] + fi:
        ctx.fn(body)
        for i in body.normal_blocks:
            for s in body.blocks[i]['stmts']:
                if s['k'] == 'assign' and s['rv'] == 'cast' and str(s.get('cast', '')).startswith('FloatToInt'):
                    n += 1
                    e = body.expr(s['ops'][0])
                    if body is b and _depends_on_magnitude(body, e):
                        ctx.finding('N5', '%s/float-to-int/%s' % (fn_key(body.path), s['to']), '%s casts %s to %s: the cast saturates for large values, so the integer part / fraction test is taken from %s::MAX instead of the value' % (
                            fn_key(body.path), render(e)[:80], s['to'], s['to']), site=s['loc'])
                    else:
                        ctx.ok('N5', '%s: (%s as %s) does not carry the magnitude' % (fn_key(body.path), render(body.sexpr(s['ops'][0]))[:40], s['to']), 'dependence', site=s['loc'])
    # the value handed to fract_information is a fraction
    for bid, t in b.calls(r'^formatter::fract_information$'):
        n += 1
        e = b.expr(t['args'][0])
        if _depends_on_magnitude(b, e):
            ctx.finding('N5', 'format_number/fract_information-arg', 'fract_information receives %s, which carries the magnitude of the number' % render(e)[:80], site=t['loc'])
        else:
            ctx.ok('N5', 'fract_information receives a fraction', 'dependence', site=t['loc'])
    if n < 1:
        raise AnchorLost('formatter: no float->int cast / fract_information call found')


def _flag_truth(conds):
    """(symbol_on_left, space_between) pinned by a list of (discr, values) conditions; None = not pinned; 'X' = contradictory"""
    out = {'left': None, 'space': None}
    for d, v in conds:
        ds = render(d)
        truth = (isinstance(v, tuple) and 0 in v[1]) or (not isinstance(v, tuple) and 0 not in v)
        key = 'left' if ds.endswith('.symbol_on_left') else ('space' if ds.endswith('.space_between_amount_and_symbol') else None)
        if key:
            if out[key] is not None and out[key] != truth:
                out[key] = 'X'
            elif out[key] is None:
                out[key] = truth
    return out['left'], out['space']


def n6_money(ctx):
    """N6 symbol placement table: the text printed for each (symbol_on_left, space_between), read off an E6c walk of
    MoneyItem::print (S = the currency symbol, A = the rendering of the amount) - format!, push_str or a helper alike"""
    ctx.rule('N6', 'money symbol placement table', floor=4)
    b = ctx.facts.one(r'<compiler::money::MoneyItem as compiler::DataItem>::print$')
    ctx.fn(b)
    cur = ctx.facts.adts.get('types::CurrencyInfo')
    if not cur:
        raise AnchorLost('struct types::CurrencyInfo not found')
    names = [f['name'] if isinstance(f, dict) else f for f in cur['variants'][0]['fields']]
    for need in ('symbol', 'symbol_on_left', 'space_between_amount_and_symbol'):
        if need not in names:
            raise AnchorLost('CurrencyInfo has no field %s' % need)
    for left in (True, False):
        for space in (True, False):
            info = {'__adt__': 'types::CurrencyInfo', '__variant__': 'CurrencyInfo'}
            for nm in names:
                info[nm] = ('sym', 'currency.%s' % nm)
            info.update({'symbol': ('str', ['S']), 'symbol_on_left': int(left), 'space_between_amount_and_symbol': int(space), 'decimal_digits': 2})
            me = {'__adt__': 'compiler::money::MoneyItem', '__variant__': 'MoneyItem', '0': ('sym', 'price'), '1': info}
            want = (['S'] + ([' '] if space else []) + ['A']) if left else (['A'] + ([' '] if space else []) + ['S'])
            name = '%s-%s' % ('left' if left else 'right', 'space' if space else 'nospace')
            try:
                got = printed_assembly(b, {1: me}, [(r'formatter::format_number$', 'A')])
            except Unknown as ex:
                ctx.finding('N6', 'arm-not-extractable', 'what MoneyItem::print returns for symbol_on_left=%s, space_between=%s could not be walked: %s' % (left, space, ex), site=b.loc)
                continue
            if got != want:
                ctx.finding('N6', 'placement/%s' % name, 'symbol_on_left=%s, space_between=%s prints %r (S = symbol, A = amount); expected %r' % (left, space, ''.join(got), ''.join(want)), site=b.loc)
            else:
                ctx.ok('N6', 'symbol_on_left=%s space=%s -> %r' % (left, space, ''.join(want)), 'absint', site=b.loc)


def n7_grouping(ctx):
    """N7 groups of three; separators in their roles"""
    ctx.rule('N7', 'grouping constant and separator roles', floor=4)
    b = ctx.facts.one(FN)
    ctx.fn(b)
    if getattr(ctx, '_c07_positions', None) is not None:
        # N9 tabulated the assembly itself: groups of three from the right, thousands separator between the groups only,
        # decimal separator once behind the integer part - whatever the loop looks like. The site rules below are its
        # fallback for a tree N9 cannot walk.
        for what in ('groups of three from the right (N9 table)', 'thousands separator only between groups (N9 table)',
                     'decimal separator once, behind the grouped integer part (N9 table)', 'no separator at either end of the integer part (N9 table)'):
            ctx.ok('N7', what, 'table', site=b.loc, sample=False)
        return
    rems = []
    for i in b.normal_blocks:
        for s in b.blocks[i]['stmts']:
            if s['k'] == 'assign' and s['rv'] == 'binop' and s['op'] == 'Rem' and s['ops'][1].get('const') and s['lhs'].get('ty') == 'usize':
                rems.append((s['ops'][1]['const'].get('val'), s['loc']))
    if len(rems) < 2:
        raise AnchorLost('format_number: expected the two `%% 3` computations, found %d' % len(rems))
    for v, loc in rems:
        if v == 3:
            ctx.ok('N7', 'grouping modulus 3', 'const', site=loc, sample=False)
        else:
            ctx.finding('N7', 'grouping/modulus', 'the integer part is grouped with modulus %s, expected 3' % v, site=loc)
    pushes = [(bid, t, render(b.expr(t['args'][1]))) for bid, t in b.calls(r'String::push_str$')]
    th = [(bid, t) for bid, t, a in pushes if a == 'thousands_separator']
    de = [(bid, t) for bid, t, a in pushes if a == 'decimal_separator']
    loops = b.loops()
    if len(th) != 1 or len(de) != 1:
        ctx.finding('N7', 'separators/pushes', 'format_number pushes the thousands separator %d times and the decimal separator %d times, expected once each' % (len(th), len(de)), site=b.loc)
        return
    in_loop = [L for L in loops if th[0][0] in L['body']]
    if not in_loop:
        ctx.finding('N7', 'separators/thousands-role', 'the thousands separator is not pushed inside the integer-digit loop', site=th[0][1]['loc'])
    elif any(de[0][0] in L['body'] for L in loops):
        ctx.finding('N7', 'separators/decimal-role', 'the decimal separator is pushed inside a digit loop', site=de[0][1]['loc'])
    elif not b.can_reach(th[0][0], de[0][0]) or b.can_reach(de[0][0], th[0][0]):
        ctx.finding('N7', 'separators/order', 'the decimal separator is not pushed after the grouped integer part', site=de[0][1]['loc'])
    else:
        ctx.ok('N7', 'thousands separator inside the integer loop, decimal separator once after it', 'order', site=de[0][1]['loc'])
        conds = ' & '.join(b.cond_text(th[0][0]))
        if 'Rem' in conds or 'trunc_dot_index' in conds:
            ctx.ok('N7', 'thousands separator guarded by the modulus test', 'guard-dom', site=th[0][1]['loc'])
        else:
            ctx.finding('N7', 'separators/thousands-guard', 'the thousands separator is pushed under %s' % conds[:100], site=th[0][1]['loc'])


def n8_zero_fraction(ctx):
    """N8 the zero-fraction decision: fract_information declares the fraction zero (returns the constant 0) only under an
    exact comparison of the fraction with 0.0 - a threshold comparison would drop small non-zero fractions that the
    configured digit count still prints; format_number's omission test reads that result"""
    ctx.rule('N8', 'zero-fraction test is exact', floor=2)
    b = ctx.facts.one(r'^formatter::fract_information$')
    ctx.fn(b)
    n = 0
    for a, conds in alternatives(b, b.ret_expr()):
        a2 = strip(a)
        if not (a2[0] == 'const' and a2[2] == 0):
            continue
        n += 1
        pn = re.escape(str(b.arg_names.get(1) or 'f'))            # whatever the parameter is called
        cs = [cond_str(d, v) for d, v in conds]
        exact = [c for c in cs if re.fullmatch(r'\(f64::fract\(f64::abs\(%s\)\) Eq 0(\.0)?\)!=\[0\]' % pn, c) or re.fullmatch(r'\(0(\.0)? Eq f64::fract\(f64::abs\(%s\)\)\)!=\[0\]' % pn, c)
                 or re.fullmatch(r'\(f64::fract\(f64::abs\(%s\)\) Ne 0(\.0)?\)=\[0\]' % pn, c)]
        if exact and len(cs) == 1:
            ctx.ok('N8', 'fract_information returns 0 only when fract(|f|) == 0.0', 'guard-dom', site=b.loc)
        else:
            ctx.finding('N8', 'fract_information/zero-under-threshold', 'fract_information reports a zero fraction under %s; only an exact `== 0.0` may do that (a fraction below a tolerance still has printed digits when decimal_digits is large enough)' % cs, site=b.loc)
    if n == 0:
        ctx.finding('N8', 'fract_information/no-zero-result', 'fract_information no longer has an explicit zero result for a zero fraction', site=b.loc)
    fb = ctx.facts.one(FN)
    # what the zero test is applied to: the fraction of the same rounded value whose integer part is printed
    fi = list(fb.calls(r'^formatter::fract_information$'))
    pos = getattr(ctx, '_c07_positions', None)
    if pos is not None:
        tr = pos[1].get('t', '')
        m_ = re.fullmatch(r'f64::abs\(f64::trunc\((.*)\)\)|f64::trunc\(f64::abs\((.*)\)\)', tr)
        base = (m_.group(1) or m_.group(2)) if m_ else None
        args = [render(fb.expr(t['args'][0])) for _, t in fi]
        rounded = re.fullmatch(r'f64::fract\((?:f64::abs\()?(?:tools::)?do_divition\(f64::round\(\(number Mul (.+)\)\), (.+)\)\)?\)', args[0]) if len(fi) == 1 else None
        if len(fi) == 1 and not tr and rounded and rounded.group(1) == rounded.group(2):
            # the integer part is measured on the printed rendering itself; the zero test reads the value rounded to the digit count
            ctx.ok('N8', 'the zero test reads the fraction of the number rounded to the configured digits; the omission decision is tabulated by N9', 'table', site=fi[0][1]['loc'])
        elif len(fi) == 1 and base is not None and args[0] in ('f64::fract(%s)' % base, 'f64::fract(f64::abs(%s))' % base):
            ctx.ok('N8', 'the zero test reads the fraction of the rounded value whose integer part is printed; the omission decision is tabulated by N9', 'table', site=fi[0][1]['loc'])
        else:
            ctx.finding('N8', 'format_number/fraction-source', 'the zero-fraction test is applied to %s, while the integer part printed is that of %s' % (args, tr[:120]), site=fb.loc)
        return
    # the omission test in format_number: push of the decimal separator guarded by (fract_part > 0 || !remove_fract_if_zero)
    de = [(bid, t) for bid, t in fb.calls(r'String::push_str$') if render(fb.expr(t['args'][1])) == 'decimal_separator']
    if len(de) != 1:
        raise AnchorLost('format_number: decimal separator push not found')
    # decision table of the push over the three predicates involved (walk of the CFG slice with each truth assignment)
    import itertools
    preds = {}
    start = None
    for i in sorted(fb.normal_blocks):
        for st in fb.blocks[i]['stmts']:
            if st['k'] == 'assign' and st['rv'] == 'binop' and not st['lhs']['proj']:
                l, r = render(fb.sexpr(st['ops'][0])).replace('$', ''), render(fb.sexpr(st['ops'][1])).replace('$', '')
                if st['op'] == 'Gt' and l == 'fract_part' and r == '0':
                    preds[st['lhs']['local']] = ('A', False)
                    start = i if start is None else start
                elif st['op'] in ('Ne', 'Eq') and {l, r} == {'trunc_size', 'String::len(formated_number)'}:
                    preds[st['lhs']['local']] = ('N', st['op'] == 'Eq')
            if st['k'] == 'assign' and st['rv'] == 'unop' and st.get('op') == 'Not' and render(fb.sexpr(st['ops'][0])).lstrip('$') == 'remove_fract_if_zero':
                preds[st['lhs']['local']] = ('R', True)
    if start is None or not any(v[0] == 'N' for v in preds.values()):
        raise AnchorLost('format_number: the predicates of the fraction test (fract_part > 0, trunc_size != len) were not found')

    def reaches(truth):
        cur, seen = start, set()
        while cur not in seen:
            seen.add(cur)
            if cur == de[0][0]:
                return True
            t = fb.blocks[cur]['term']
            if t['k'] == 'switch':
                p_ = t['discr'].get('copy') or t['discr'].get('move')
                val = None
                if p_ and not p_['proj']:
                    if p_['local'] in preds:
                        nm, neg = preds[p_['local']]
                        val = int(truth[nm] != neg)
                    elif render(fb.sexpr(t['discr'])).lstrip('$') == 'remove_fract_if_zero':
                        val = int(truth['R'])
                if val is None:
                    return None
                nxt = t['otherwise']
                for vv, tgt in t['vals']:
                    if vv == val:
                        nxt = tgt
                cur = nxt
            elif t['k'] in ('goto', 'call', 'drop', 'assert'):
                cur = t['target']
            else:
                return False
        return False
    wrong = []
    for A, R, N in itertools.product((False, True), repeat=3):
        got = reaches({'A': A, 'R': R, 'N': N})
        want = (A or not R) and N
        if got is None or got != want:
            wrong.append((A, R, N, got, want))
    if not wrong:
        ctx.ok('N8', 'the fraction is printed iff (fract_part > 0 or zero fractions are kept) and there is a fraction (8 truth assignments)', 'table', site=de[0][1]['loc'])
    else:
        A, R, N, got, want = wrong[0]
        ctx.finding('N8', 'format_number/omission-test', 'with fract_part>0=%s, remove_fract_if_zero=%s, has-fraction=%s the fraction is %s, expected %s (%d of 8 assignments differ)' % (
            A, R, N, {True: 'printed', False: 'omitted', None: 'undetermined'}[got], 'printed' if want else 'omitted', len(wrong)), site=de[0][1]['loc'])


RULES = [('N9', lambda ctx: n9_assembly_table(ctx)), ('N8', n8_zero_fraction), ('N1', n1_provenance), ('N2', n2_wiring), ('N3', n3_setters), ('N4', n4_sign), ('N5', n5_casts), ('N6', n6_money), ('N7', n7_grouping)]


def n9_assembly_table(ctx):
    """N9 the printed text is assembled from the rendering by position: for every length of the integer part, every number of
    fraction digits, either sign and every setting of the zero-fraction flags, the result is [-] + the integer digits in groups
    of three from the right separated by the thousands separator + [decimal separator + the fraction digits]. Tabulated with
    E6c over symbolic renderings (digits are opaque symbols, so one walk per pair of lengths covers every number of that shape);
    independent of how the loop is written."""
    from ..absint import Machine, Unknown, is_sym
    from .. import absstr
    ctx.rule('N9', 'assembly of the printed number, tabulated over rendering lengths', floor=400)
    b = ctx.facts.one(r'^formatter::format_number$')
    ctx.fn(b)
    if b.argc != 6:
        raise AnchorLost('format_number: expected 6 parameters, found %d' % b.argc)
    # parameter roles by type: the f64 is the number, the two Strings are thousands / decimal separator in declaration order,
    # the u8 the digit count, the two bools remove_fract_if_zero / use_fract_rounding in declaration order
    tys = [str(b.locals.get(i, '')) for i in range(1, 7)]
    num = [i + 1 for i, t in enumerate(tys) if t == 'f64']
    strs = [i + 1 for i, t in enumerate(tys) if t.endswith('String')]
    u8s = [i + 1 for i, t in enumerate(tys) if t == 'u8']
    bools = [i + 1 for i, t in enumerate(tys) if t == 'bool']
    if len(num) != 1 or len(strs) != 2 or len(u8s) != 1 or len(bools) != 2:
        raise AnchorLost('format_number: parameter types changed: %s' % tys)
    maxlen = 40 if (ctx.tier == 'thorough' and ctx.cfg_name == 'dev') else 13

    def walk(L, Ff, neg, fract_pos, remove, rounding):
        ints = ['i%d' % k for k in range(1, L + 1)]
        frac = ['f%d' % k for k in range(1, Ff + 1)]
        formatted = ('str', ints + (['.'] + frac if Ff else []))
        trunc = ('str', ['t%d' % k for k in range(1, L + 1)])

        def model(m, path, args, t):
            r = absstr.std_model(m, path, args, t)
            if r is not NotImplemented:
                return r
            if re.search(r'alloc::fmt::format$|fmt::format::format_inner$', path):
                return formatted
            if re.search(r'ToString>::to_string$', path) and args:
                v = m.deref_value(args[0])
                if absstr.is_str(v):
                    return v
                prov['t'] = render(b.expr(t['args'][0]))
                return trunc                               # the text of the (rounded, truncated) magnitude
            if re.search(r'formatter::fract_information$', path):
                return 5 if fract_pos else 0
            if re.search(r'num::<impl [iu](\d+|size)>::pow$', path) and len(args) == 2 and all(isinstance(m.deref_value(a), int) for a in args):
                return m.deref_value(args[0]) ** m.deref_value(args[1])
            if re.search(r'hint::must_use$', path) and args:
                return args[0]
            return NotImplemented
        m = Machine(b, model, max_steps=20000)
        m.env[num[0]] = -1.5 if neg else 1.5
        m.env[strs[0]] = ('str', ['T'])
        m.env[strs[1]] = ('str', ['D'])
        m.env[u8s[0]] = 2
        m.env[bools[0]] = int(remove)
        m.env[bools[1]] = int(rounding)
        why = m.run(0)
        for pth, blocks in m.shared.get('visited', {}).items():
            visited.setdefault(pth, set()).update(blocks)
        if why != 'return':
            raise Unknown('the walk ended with %s' % why)
        out = m.deref_value(m.load(0))
        if not absstr.is_str(out):
            raise Unknown('the result is %r' % (out,))
        for how, cons, foreign, loc in m.events:
            events.add((cons, foreign))
        want = (['-'] if neg else [])
        for k, d in enumerate(ints):
            want.append(d)
            left = L - (k + 1)
            if left and left % 3 == 0:
                want.append('T')
        if Ff and (fract_pos or not remove):
            want += ['D'] + frac
        return out[1], want

    bad = {}
    n = 0
    site = b.loc
    events = set()
    visited = {}
    prov = {}
    ctx._c07_positions = None
    ctx._c07_visited = visited
    ctx._c07_maxlen = maxlen
    for L in range(1, maxlen + 1):
        for Ff in (0, 1, 2, 5):
            for neg in (0, 1):
                for fract_pos in (0, 1):
                    for remove in (0, 1):
                        for rounding in (0, 1):
                            n += 1
                            try:
                                got, want = walk(L, Ff, neg, fract_pos, remove, rounding)
                            except Unknown as ex:
                                ctx.finding('N9', 'format_number/assembly/not-extractable', 'the assembly of the printed number could not be tabulated (integer part of %d digits, %d fraction digits): %s' % (L, Ff, ex), site=site)
                                return
                            if got == want:
                                ctx.ok('N9', '%d integer digits, %d fraction digits, neg=%d fract>0=%d remove=%d rounding=%d -> %s' % (L, Ff, neg, fract_pos, remove, rounding, ''.join(x if len(x) == 1 else 'd' for x in want)), 'table', site=site, sample=(n in (1, 200, 411)))
                                continue
                            gi = [x for x in got if x not in ('-', 'T', 'D', '.') and not x.startswith('f')]
                            if ('-' in got) != ('-' in want) or (got and want and (got[0] == '-') != (want[0] == '-')):
                                kind = 'sign'
                            elif [x for x in got if x == 'T' or x.startswith('i')] != [x for x in want if x == 'T' or x.startswith('i')]:
                                kind = 'grouping'
                            else:
                                kind = 'fraction'
                            bad.setdefault(kind, 'a rendering with %d integer and %d fraction digits (negative=%d, fraction>0=%d, remove_fract_if_zero=%d, use_fract_rounding=%d) is assembled as %s; expected %s'
                                           % (L, Ff, neg, fract_pos, remove, rounding, ' '.join(got), ' '.join(want)))
    for kind, what in sorted(bad.items()):
        ctx.finding('N9', 'format_number/assembly/%s' % kind, what, site=site)
    ctx._c07_positions = (events, prov)
    ctx.analysed('N9', '%d walks: integer part 1..%d digits x fraction 0/1/2/5 digits x sign x fraction>0 x remove_fract_if_zero x use_fract_rounding' % (n, maxlen))

