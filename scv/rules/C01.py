"""C01 - Evaluation is total: no panic, no hang, one result slot per input line.

P1 every construct that can unwind in a body reachable from execute / execute_session is discharged (vocabulary of
DESIGN.md section 4), reviewed with re-checked witnesses, or a listed known finding;
T1 every natural loop in reach matches a ranking template (iterator / counter / rewrite-flag / parser-cursor /
reviewed); T2 the call-graph SCCs in reach are the reviewed ones; S1 line split literal; S2 one push per line in
execute_session; S3 cursor guard and increment of next_line.
Not decided: stack exhaustion on deep nesting; allocation failure; panics inside regex / chrono / serde on inputs
within their documented domain; user RuleTrait code.
"""
import collections
import re

from ..facts import render, strip, walk, fn_key, AnchorLost, alternatives, cond_str, opplace
from ..panics import enumerate_obligations, Discharger, held_across_calls
from ..data import abstract_tokens
from ..effects import collection_writes, cell_writes, spine_fields, fields_in
from ..tables.reviewed import REVIEWED
from .. import model


# ------------------------------------------------------------------------------------------------ witnesses
def w_patterns_nonempty(ctx, minimum=1):
    bad = []
    n = 0
    for lang in ctx.config.languages:
        for rn, p, org in model.all_patterns(ctx, lang):
            n += 1
            if len(abstract_tokens(p)) < minimum:
                bad.append('%s: %r' % (org, p))
    for fam, it in ctx.config.units():
        for p in it['parse']:
            n += 1
            if len(abstract_tokens(p)) < minimum:
                bad.append('types.%s[%s]: %r' % (fam, it['index'], p))
    return (not bad, 'all %d configured patterns have >= %d tokens' % (n, minimum) if not bad else 'patterns with < %d tokens: %s' % (minimum, bad[:3]))


def w_matcher_counter(ctx):
    """in find_match and dynamic_type_tokinizer the pattern counter is only ever set to 0 or incremented by 1, and the
    scan stops when it equals the pattern length"""
    msgs = []
    for rx in (r'^tokinizer::rule_tokinizer::find_match$', r'^tokinizer::dynamic_type_tokinizer::dynamic_type_tokinizer$', r'^types::find_location$'):
        b = ctx.facts.one(rx)
        locs = [l for l, n in b.names.items() if n == 'rule_token_index']
        if not locs and (rx.endswith('find_match$') or rx.endswith('dynamic_type_tokinizer$')):
            # the scan is written differently (other names, a struct for its state): its protocol is what the matcher table
            # (scv/matcher.py) tabulates
            key = ('matcher', getattr(ctx, 'digest', None), ctx.cfg_name, ctx.tier)
            if key not in _WALK:
                _WALK[key] = _walk_matcher(ctx)
            if _WALK[key][0]:
                msgs.append(fn_key(b.path) + ' (matcher table)')
                continue
        if not locs and rx.endswith('find_location$'):
            # the variable search keeps its state differently: its selection is what C03 V7 tabulates (E6c over order types)
            key = ('v7', getattr(ctx, 'digest', None), ctx.cfg_name, ctx.tier)
            if key not in _WALK:
                from ..report import Ctx
                from .C03 import v7_selection
                sub = Ctx('C03', ctx.tier, ctx.facts, ctx.cg, ctx.config, ctx.repo, ctx.cfg_name)
                try:
                    v7_selection(sub)
                    _WALK[key] = (not sub.findings, {}, '')
                except Exception:
                    _WALK[key] = (False, {}, '')
            if _WALK[key][0]:
                msgs.append(fn_key(b.path) + ' (C03 V7 table)')
                continue
        if not locs:
            return (False, '%s: counter rule_token_index not found' % fn_key(b.path))
        for l in locs:
            for (bid, kind, x) in b.defs().get(l, []):
                if kind != 'stmt':
                    return (False, '%s: counter assigned from a call' % fn_key(b.path))
                b._shallow = 'mut'
                try:
                    t = render(b.def_expr(bid, kind, x, 1, frozenset()))
                finally:
                    b._shallow = False
                if t not in ('0', '($rule_token_index AddWithOverflow 1).#0', '($rule_token_index Add 1)'):
                    return (False, '%s: counter assigned %s' % (fn_key(b.path), t))
        # a break / exit guarded by total == counter inside the scan loop
        found = False
        for i in b.normal_blocks:
            for s in b.blocks[i]['stmts']:
                if s['k'] == 'assign' and s['rv'] == 'binop' and s['op'] == 'Eq':
                    b._shallow = 'mut'
                    try:
                        l, r = render(b.expr(s['ops'][0])), render(b.expr(s['ops'][1]))
                    finally:
                        b._shallow = False
                    if '$rule_token_index' in (l, r) and re.search(r'len\(', l + r) and b.in_loop(i):
                        found = True
        if not found:
            return (False, '%s: no `pattern length == counter` exit inside the scan loop' % fn_key(b.path))
        msgs.append(fn_key(b.path))
    return (True, 'counter protocol holds in ' + ', '.join(msgs))


def w_current_line_callers(ctx):
    allowed = {'session::Session::next_line', 'smartcalc::SmartCalc::execute_text', 'smartcalc::SmartCalc::basic_execute',
               "tokinizer::Tokinizer::<'a>::new", "tokinizer::Tokinizer::<'a>::token_infos"}
    callers = set(ctx.cg.callers_of('session::Session::current_line'))
    extra = callers - allowed
    if extra:
        return (False, 'current_line() is also called from %s' % sorted(extra))
    # execute_session checks has_value() before the first execute_text
    es = ctx.facts.body('smartcalc::SmartCalc::execute_session')
    for bid, t in es.calls(r'SmartCalc::execute_text$'):
        if not any(re.fullmatch(r'Session::has_value\(session\)!=\[0\]', c) for c in es.cond_text(bid)):
            return (False, 'execute_session calls execute_text without has_value()')
    be = ctx.facts.body('smartcalc::SmartCalc::basic_execute')
    hv = [bid for bid, t in be.calls(r'Session::has_value$')]
    for bid, t in be.calls(r'Session::current_line$'):
        if not any(be.dominates(h, bid) for h in hv):
            return (False, 'basic_execute reads the line before has_value()')
    return (True, 'current_line() is only called behind has_value() or on a freshly set one-line session')


def w_unit_indices(ctx):
    idx = [it['index'] for fam, it in ctx.config.units()]
    ok = idx and min(idx) >= 1
    return (bool(ok), 'configured unit indices are in [%d, %d]' % (min(idx), max(idx)) if idx else 'no units')


def w_unit_names(ctx):
    bad = [(fam, it['index']) for fam, it in ctx.config.units() if not it.get('names')]
    return (not bad, 'every configured unit has >= 1 name' if not bad else 'units without names: %s' % bad)


def w_format_positions(ctx):
    """every position format_number takes in a rendering was measured on that same rendering, and the walk of the function over
    symbolic renderings (C07 N9, E6c) never runs past the end of a rendering: no unwrap of a missing character in any of the
    tabulated shapes (integer part 1..13 digits x 0/1/2/5 fraction digits x sign x flags)"""
    import collections
    from ..report import Ctx
    from .C07 import n9_assembly_table
    sub = Ctx('C07', ctx.tier, ctx.facts, ctx.cg, ctx.config, ctx.repo, ctx.cfg_name)
    try:
        n9_assembly_table(sub)
    except Exception as ex:
        return (False, 'the assembly walk of format_number failed: %s' % ex)
    if sub.findings:
        return (False, 'the assembly walk of format_number reports %s' % sub.findings[0]['key'])
    pos = getattr(sub, '_c07_positions', None)
    if pos is None:
        return (False, 'the assembly of format_number could not be tabulated')
    if pos[0]:
        return (False, 'positions in one rendering are derived from the length of another: %s' % sorted(pos[0]))
    return (True, 'positions are measured on the rendering they are taken in (%d walks)' % sub.rules['N9'].instances)


_WALK = {}


def _walk_format_number(ctx):
    from ..report import Ctx
    from .C07 import n9_assembly_table
    sub = Ctx('C07', ctx.tier, ctx.facts, ctx.cg, ctx.config, ctx.repo, ctx.cfg_name)
    try:
        n9_assembly_table(sub)
        ok = not sub.findings and getattr(sub, '_c07_positions', None) is not None and not sub._c07_positions[0]
    except Exception:
        ok = False
    return ok, dict(getattr(sub, '_c07_visited', {})), 'on every one of the %d walks of format_number over symbolic renderings (integer part 1..%d digits) this site is passed without unwinding, and positions are measured on the rendering they are taken in' % (
        sub.rules['N9'].instances if 'N9' in sub.rules else 0, getattr(sub, '_c07_maxlen', 0))


def _walk_char_map(ctx):
    from ..report import Ctx
    from .C17 import h5_position_table
    sub = Ctx('C17', ctx.tier, ctx.facts, ctx.cg, ctx.config, ctx.repo, ctx.cfg_name)
    try:
        ok = bool(h5_position_table(sub)) and not sub.findings
    except Exception:
        ok = False
    return ok, dict(getattr(sub, '_h5_visited', {})), 'on every walk of UiTokenCollection::new and get_position over lines of 0..%d characters of 1..4 bytes and every byte offset of the line this site is passed without unwinding' % getattr(sub, '_h5_kmax', 0)


def _walk_matcher(ctx):
    from ..report import Ctx
    from ..matcher import matcher_table
    sub = Ctx('C18', ctx.tier, ctx.facts, ctx.cg, ctx.config, ctx.repo, ctx.cfg_name)
    sub.rule('Y7', 'pattern scan (walked for C01)', floor=1)
    try:
        ok = bool(matcher_table(sub, 'Y7')) and not sub.findings
    except Exception:
        ok = False
    return ok, dict(getattr(sub, '_matcher_visited', {})), 'on every walk of rule_tokinizer / find_match and of dynamic_type_tokinizer over lines of up to four tokens and four patterns (%d cells) this site is passed without unwinding' % getattr(sub, '_matcher_cells', 0)


WALKERS = [(r'^tokinizer::rule_tokinizer::(find_match|rule_tokinizer)$|^tokinizer::dynamic_type_tokinizer::dynamic_type_tokinizer$', 'matcher', _walk_matcher),
           (r'^formatter::format_number$', 'format_number', _walk_format_number),
           (r'^<?token::ui_token::', 'char_map', _walk_char_map)]


def walk_discharge(ctx, ob):
    """a position obligation (an unwrap of an element taken by position, an index, a checked subtraction of lengths or
    positions) inside a function one of the E6c tables walks - format_number (C07 N9), the byte -> character map (C17 H5):
    the machine evaluates the overflow flags and the bounds checks, and an unwrap of None ends a walk; every walk returns and
    the site is on at least one of them. A bounded argument (the shapes tabulated); the positions are sums and differences of
    the lengths varied, not of the contents."""
    from ..facts import cond_infeasible
    try:
        if any(cond_infeasible(d, v) for (_, d, v) in ob.body.conditions(ob.bid)):
            return ('dead', 'only reachable through a branch on a constant that is not taken (`if cfg!(..)` of a feature that is off)')
    except Exception:
        pass
    if ob.kind not in ('unwrap-option', 'overflow', 'index', 'vec-position', 'bounds'):
        return None
    for rx, name, fn in WALKERS:
        if not re.search(rx, ob.body.path):
            continue
        if name == 'matcher' and ob.kind == 'unwrap-option':
            continue          # the matcher walk models the field getters as leaves that answer: an unwrap of one is decided by the
                              # patterns in the data (pattern-typed), not by the walk
        key = (name, getattr(ctx, 'digest', None), ctx.cfg_name, ctx.tier)
        if key not in _WALK:
            _WALK[key] = fn(ctx)
        ok, visited, text = _WALK[key]
        if ok and ob.bid in visited.get(ob.body.path, ()):
            return ('walk', text)
    return None


WITNESSES = {
    'format-positions-own-rendering': w_format_positions,
    'patterns-nonempty': w_patterns_nonempty,
    'matcher-counter-protocol': w_matcher_counter,
    'current-line-callers': w_current_line_callers,
    'unit-indices-ge-1': w_unit_indices,
    'unit-names-nonempty': w_unit_names,
}


# ------------------------------------------------------------------------------------------------ P
def p1_panics(ctx):
    """P1 every construct that can unwind in a body reachable from execute / execute_session is discharged"""
    ctx.rule('P1', 'panic obligations in evaluation-reachable bodies', floor=380)
    reach = ctx.eval_reach()
    D = Discharger(ctx)
    for w in D.annot['witness']:
        ctx.rules['P1'].analysed.append('value annotation: ' + w)
    left = collections.defaultdict(list)
    from ..report import load_known
    known_keys = set(k['key'] for k in load_known() if k.get('property') == 'C01' and k.get('status') == 'known')
    bodies = [ctx.facts.bodies[p] for p in sorted(reach) if ctx.facts.bodies[p].kind != 'promoted']
    ctx.rules['P1'].analysed.append('%d bodies reachable from execute/execute_session/basic_execute/format_result' % len(bodies))
    obs = []
    nb = 0
    for b in bodies:
        o = enumerate_obligations(ctx, b)
        if o:
            ctx.fn(b)
            nb += 1
        obs += o
    ctx.rules['P1'].analysed.append('%d obligations in %d bodies' % (len(obs), nb))
    n = 0
    for ob in obs:
        n += 1
        d = D.discharge(ob) or walk_discharge(ctx, ob)
        if d:
            ctx.ok('P1', '%s: %s' % (ob.key(), d[1]), d[0], site=ob.loc, sample=(n % 41 == 0))
        else:
            # the key under which the site is judged: its own, or - when code was moved into a helper / closure - the key it
            # would have in the function that owns the helper, if a reviewed or known entry exists for that one
            ks = ob.keys()
            pick = next((k for k in ks if k in REVIEWED or ('C01/P1/' + k) in known_keys), None)
            if pick is None:
                # closure numbers shift when a closure is added or removed in front of this one: an entry written for
                # `f::{closure#0}` keeps applying to the same kind of site in `f::{closure#1}`
                cn = lambda k: re.sub(r'\{closure#\d+\}', '{closure#}', k)
                by_norm = {}
                for k0 in list(REVIEWED) + [k1[len('C01/P1/'):] for k1 in known_keys if k1.startswith('C01/P1/')]:
                    by_norm.setdefault(cn(k0), k0)
                pick = next((by_norm[cn(k)] for k in ks if '{closure#' in k and cn(k) in by_norm), ks[0])
            left[pick].append(ob)
    for b in bodies:
        for gt, ct, fam, why in held_across_calls(D, b):
            ctx.rules['P1'].instances += 0
            ctx.finding('P1', '%s/refcell-held-across-call/%s' % (fn_key(b.path), re.sub(r'\s+', '', fam)), why + ' (BorrowError / BorrowMutError at run time)', site=ct['loc'])
    # reviewed entries (exact key and multiplicity, witnesses re-checked)
    wcache = {}
    for key, items in sorted(left.items()):
        rv = REVIEWED.get(key)
        covered = 0
        if rv:
            cnt, why, wit = rv
            ok = True
            for w in wit:
                if w not in wcache:
                    wcache[w] = WITNESSES[w](ctx)
                    ctx.rules['P1'].analysed.append('witness %s: %s' % (w, wcache[w][1]))
                if not wcache[w][0]:
                    ok = False
            if ok:
                covered = min(cnt, len(items))
        for i, ob in enumerate(items):
            if i < covered:
                ctx.ok('P1', '%s: reviewed - %s' % (key, rv[1][:140]), 'reviewed', site=ob.loc, reviewed=True, sample=False)
            else:
                extra = ''
                if rv and covered == 0:
                    bad = [w for w in rv[2] if not wcache[w][0]]
                    extra = ' [reviewed entry void: witness %s failed: %s]' % (bad, '; '.join(wcache[w][1] for w in bad)[:200])
                elif rv:
                    extra = ' [the reviewed entry covers %d site(s) with this key, this is one more]' % rv[0]
                ctx.finding('P1', key, '%s in %s cannot be shown not to panic%s' % (ob.what, fn_key(ob.body.path), extra), site=ob.loc)
    stale = [k for k in REVIEWED if k not in left]
    if stale:
        ctx.rules['P1'].analysed.append('reviewed entries without a site today (stale, harmless): %s' % stale)


# ------------------------------------------------------------------------------------------------ T
ITER_NEXT = re.compile(r'Iterator>?::next$|::next$')


def loop_template(ctx, b, L):
    """-> (template, detail) or (None, why)"""
    head, body_blocks = L['head'], L['body']
    exits = [(x, s) for x in body_blocks for s in b.succs(x) if s not in body_blocks]
    # L-iter: an Iterator::next call inside the loop whose None arm leaves the loop and whose block dominates every back edge
    for x in sorted(body_blocks):
        t = b.blocks[x]['term']
        if t['k'] == 'call' and t.get('callee') and ITER_NEXT.search(t['callee']['path']):
            cp = t['callee']['path']
            if t['callee']['local'] and not re.search(r'UiTokenIterator', cp):
                continue
            if all(b.dominates(x, bk) for bk in L['backs']):
                # the discriminant switch after it has an edge out of the loop
                tgt = t['target']
                tt = b.blocks[tgt]['term'] if tgt in b.blocks else None
                if tt and tt['k'] == 'switch' and any(s not in body_blocks and b.blocks[s]['term']['k'] != 'unreachable' for s in b.succs(tgt)):
                    return ('L-iter', short_callee(cp))
    # L-counter: header tests  counter < len(v)  or  v.get(counter) is Some; every cycle path makes progress
    for x in sorted(body_blocks):
        t = b.blocks[x]['term']
        if t['k'] != 'switch' or not any(s not in body_blocks and b.blocks[s]['term']['k'] != 'unreachable' for s in b.succs(x)):
            continue
        if not all(b.dominates(x, bk) for bk in L['backs']):
            continue
        b._shallow = 'mut'
        try:
            d = render(b.expr(t['discr']))
        finally:
            b._shallow = False
        m = re.fullmatch(r'\(\$(\w+) Lt (?:Vec::len|len|slice::len)\((.*)\)\)', d) or re.fullmatch(r'discr\((?:slice::get|Vec::get)\((.*), \$(\w+)\)\)', d)
        if not m:
            continue
        if d.startswith('discr('):
            coll, cnt = m.group(1), m.group(2)
        else:
            cnt, coll = m.group(1), m.group(2)
        ok, why = counter_progress(b, L, cnt, coll)
        if ok:
            return ('L-counter', '%s against %s: %s' % (cnt, coll, why))
        return (None, 'counter loop on %s without progress on every path: %s' % (cnt, why))
    return (None, 'no template matches')


def short_callee(p):
    return re.sub(r'<.*?>', '', p).rsplit('::', 2)[-2] if '::' in p else p


def counter_progress(b, L, cnt, coll):
    """on every acyclic path head -> back edge: (increments of cnt) - (net growth of coll) >= 1"""
    body_blocks = L['body']
    cl = [l for l, n in b.names.items() if n == cnt]

    def delta(x):
        dc = dl = 0
        for s in b.blocks[x]['stmts']:
            if s['k'] == 'assign' and s['lhs']['local'] in cl and not s['lhs']['proj']:
                b._shallow = 'mut'
                try:
                    t = render(b.def_expr(x, 'stmt', s, 1, frozenset()))
                finally:
                    b._shallow = False
                m = re.fullmatch(r'\(\$%s AddWithOverflow (\d+)\)\.#0|\(\$%s Add (\d+)\)' % (cnt, cnt), t)
                if m:
                    dc += int(m.group(1) or m.group(2))
                elif t != '$' + cnt:
                    return None
        t = b.blocks[x]['term']
        if t['k'] == 'call' and t.get('callee'):
            cp = t['callee']['path']
            if re.search(r'Vec::<.*>::(insert|push)$', cp):
                b._shallow = 'mut'
                try:
                    r = render(b.expr(t['args'][0]))
                finally:
                    b._shallow = False
                if r == coll:
                    dl += 1
            if re.search(r'Vec::<.*>::remove$', cp):
                b._shallow = 'mut'
                try:
                    r = render(b.expr(t['args'][0]))
                finally:
                    b._shallow = False
                if r == coll:
                    dl -= 1
        return (dc, dl)
    worst = [None]
    # nested loops inside: skip their back edges (inner loops are obligations of their own)
    inner_heads = set(l2['head'] for l2 in b.loops() if l2['head'] in body_blocks and l2['head'] != L['head'])

    def dfs(x, dc, dl, seen):
        d = delta(x)
        if d is None:
            worst[0] = ('counter reassigned', x)
            return
        dc, dl = dc + d[0], dl + d[1]
        for s in b.succs(x):
            if s == L['head']:
                prog = dc - dl
                if worst[0] is None or (isinstance(worst[0], int) and prog < worst[0]):
                    worst[0] = prog
            elif s in body_blocks and s not in seen and not b.blocks[s]['cleanup']:
                dfs(s, dc, dl, seen | {s})
    dfs(L['head'], 0, 0, {L['head']})
    if isinstance(worst[0], int) and worst[0] >= 1:
        return True, 'minimal progress per iteration %d' % worst[0]
    return False, 'minimal progress %s' % (worst[0],)


FLAG_LOOPS = {
    'tokinizer::rule_tokinizer::rule_tokinizer': ('execute_rules', 'Active typed tokens'),
    'tokinizer::dynamic_type_tokinizer::dynamic_type_tokinizer': ('execute_rules', 'Active typed tokens'),
    'variable::update_token_variables': ('update_tokens', 'non-Variable tokens right of "="'),
}
CURSOR_LOOPS = {'syntax::binary::parse_binary': 2, '<syntax::assignment::AssignmentParser as syntax::SyntaxParserTrait>::parse': 1}
REVIEWED_LOOPS = {
    'formatter::fract_information': (2, 'f is multiplied by 10 until |round(f) - f| crosses eps: for a finite fraction in (0,1) the first loop ends once f >= 1e-4 scale is reached, the second because an f64 has at most 1075 binary digits after the point (f becomes an integer or overflows to inf, where round(f) - f is NaN and the comparison is false)'),
    'compiler::dynamic_type::DynamicTypeItem::calculate_unit': (1, 'search_index moves monotonically by 1 towards target.index and the loop also exits on the first missing index (group.get -> None)'),
    'smartcalc::SmartCalc::execute_session': (1, 'one iteration per line: next_line() advances the cursor (S2, S3)'),
}


def w_variable_tokens_inert(ctx):
    """premise (iii) of the variable-substitution loop: a substituted Variable token matches no name-token list again.
    Name tokens may be field patterns, so TokenType::field_compare must answer false for a Variable token on every path,
    and no configured type group may list VARIABLE. -> (ok, message)"""
    b = ctx.facts.one(r'^types::TokenType::field_compare$')
    adt = ctx.facts.adts.get('types::TokenType')
    vd = [v['discr'] for v in adt['variants'] if v['name'] == 'Variable']
    if not vd:
        raise AnchorLost('TokenType::Variable not found')
    n = 0
    for a, conds in alternatives(b, b.ret_expr()):
        pinned = False
        for d, v in conds:
            if render(d) == 'discr(self)' and not isinstance(v, tuple) and set(v) == set(vd):
                pinned = True
        if not pinned:
            continue
        n += 1
        a2 = strip(a)
        if not (a2[0] == 'const' and a2[2] in (False, 0)):
            return False, 'TokenType::field_compare can answer %s for a Variable token: a substituted variable matches its own (field-pattern) name again and is replaced by itself forever' % render(a2)[:80]
    for gname, members in sorted(ctx.config.j.get('type_group', {}).items()):
        if any(str(m).upper() == 'VARIABLE' for m in members):
            return False, 'type group %s lists VARIABLE: a {%s:..} name pattern matches a substituted variable token' % (gname, gname)
    return True, 'a Variable token matches no field pattern (%d Variable-pinned results of field_compare are false)' % n


def t1_loops(ctx):
    """T1 every natural loop in evaluation-reachable bodies has a checked ranking template"""
    ctx.rule('T1', 'loops: ranking templates', floor=60)
    reach = ctx.eval_reach()
    ok2, msg2 = w_patterns_nonempty(ctx, minimum=2)
    for p in sorted(reach):
        b = ctx.facts.bodies[p]
        if b.kind == 'promoted':
            continue
        loops = b.loops()
        if not loops:
            continue
        ctx.fn(b)
        rev_budget = REVIEWED_LOOPS.get(p, (0, ''))[0]
        cur_budget = CURSOR_LOOPS.get(p, 0)
        if not cur_budget:
            # a private helper of a parser function (extract-method of the operand loop) inherits its owner's template
            cur = p
            for _ in range(3):
                cur = ctx.cg.owner_step(cur)
                if cur is None:
                    break
                if cur in CURSOR_LOOPS:
                    cur_budget = CURSOR_LOOPS[cur]
                    break
        for L in loops:
            tpl, detail = loop_template(ctx, b, L)
            site = b.blocks[L['head']]['term']['loc']
            if tpl:
                ctx.ok('T1', '%s loop@bb%d: %s (%s)' % (fn_key(p), L['head'], tpl, detail), tpl, site=site, sample=False)
                continue
            if p in FLAG_LOOPS and (flag_loop_ok(ctx, b, L, FLAG_LOOPS[p][0]) or rewrite_loop_ok(ctx, b, L)):
                ok3, msg3 = w_variable_tokens_inert(ctx) if p == 'variable::update_token_variables' else (True, '')
                if not ok3:
                    ctx.finding('T1', '%s/rewrite-loop/variable-token-matches-field' % fn_key(p), 'variable substitution loop: %s' % msg3, site=site)
                elif not ok2:
                    ctx.finding('T1', '%s/rewrite-loop/one-token-pattern' % fn_key(p), 'rewrite loop of %s: %s - a pattern with fewer than two tokens replaces one token by one and the loop never shrinks its measure (%s)' % (fn_key(p), msg2, FLAG_LOOPS[p][1]), site=site)
                else:
                    ctx.ok('T1', '%s rewrite loop: flag set only behind remove+insert; %s' % (fn_key(p), msg2), 'L-flag', site=site)
                continue
            if cur_budget > 0 and cursor_loop_ok(ctx, b, L):
                cur_budget -= 1
                ctx.ok('T1', '%s parser loop: repeats only after a consumed token' % fn_key(p), 'L-cursor', site=site)
                continue
            if rev_budget > 0:
                rev_budget -= 1
                ctx.ok('T1', '%s loop: reviewed - %s' % (fn_key(p), REVIEWED_LOOPS[p][1][:120]), 'reviewed', site=site, reviewed=True)
                continue
            ctx.finding('T1', '%s/loop-without-measure' % fn_key(p), 'loop in %s matches no ranking template (%s): termination is not established' % (fn_key(p), detail), site=site)
    cursor_witness(ctx)


def insert_blocks(ctx, b):
    """blocks of b that insert one element into Tokinizer.token_infos - directly, or by calling a crate-local helper whose
    body does (extract-method of the rewrite step)"""
    out = set()
    for bid, tt, method, recv in collection_writes(b):
        if method == 'insert' and 'tokinizer::Tokinizer.token_infos' in spine_fields(recv):
            out.add(bid)
    for bid, t in b.calls(local=True):
        hb = ctx.facts.bodies.get(t['callee']['path'])
        if hb is None or hb.path == b.path or hb.kind not in ('fn', 'method'):
            continue
        for _b, tt, method, recv in collection_writes(hb):
            if method == 'insert' and 'tokinizer::Tokinizer.token_infos' in spine_fields(recv) and not hb.in_loop(_b):
                out.add(bid)
    return out


def rewrite_loop_ok(ctx, b, L):
    """`loop { match find() { None => break, Some(..) => { remove; insert } } }`: every way around the loop passes a block
    that inserts into token_infos (so each iteration is one rewrite); no flag needed"""
    ins = insert_blocks(ctx, b) & set(L['body'])
    if not ins:
        return False
    return not b.can_reach(L['head'], L['head'], avoid=ins)


def flag_loop_ok(ctx, b, L, flag):
    """`while flag { flag = false; ... }`: flag is assigned true only in blocks from which the loop head cannot be
    reached without passing the insert that completes a rewrite"""
    fl = [l for l, n in b.names.items() if n == flag]
    if not fl:
        return False
    t = b.blocks[L['head']]['term']
    if t['k'] != 'switch' or render(b.sexpr(t['discr'])).lstrip('$') != flag and flag not in render(b.sexpr(t['discr'])):
        return False
    inserts = insert_blocks(ctx, b)
    sets_true = []
    reset = False
    for i in L['body']:
        for s in b.blocks[i]['stmts']:
            if s['k'] == 'assign' and s['lhs']['local'] in fl and not s['lhs']['proj'] and s['rv'] == 'use' and 'const' in s['ops'][0]:
                v = s['ops'][0]['const']['val']
                if v is True:
                    sets_true.append(i)
                elif v is False:
                    reset = reset or b.dominates(i, L['backs'][0]) or True
    if not sets_true or not reset or not inserts:
        return False
    for i in sets_true:
        if i in inserts:
            continue
        if b.can_reach(i, L['head'], avoid=inserts) and not any(b.dominates(ins, i) for ins in inserts):
            return False
    return True


def cursor_loop_ok(ctx, b, L):
    """parser loops: the loop continues only through match_operator (which consumes) / consume_token, or by re-trying
    T::parse after it returned Ok(None) (covered by cursor_witness)"""
    calls = [b.blocks[x]['term']['callee']['path'] for x in L['body'] if b.blocks[x]['term']['k'] == 'call' and b.blocks[x]['term'].get('callee')]
    return any(re.search(r'SyntaxParser::<.*>::(match_operator|consume_token)$|SyntaxParserTrait::parse$', c) for c in calls)


def cursor_witness(ctx):
    """the only Ok(None) a primary parser can hand to parse_binary's retry loop is the one returned *after* consuming
    a Text / Timezone token; match_operator consumes the operator it matched"""
    b = ctx.facts.one(r'^syntax::primative::PrimativeParser::parse_basic_primatives$')
    ctx.fn(b)
    consumes = {bid for bid, t in b.calls(r'SyntaxParser::<.*>::consume_token$|SyntaxParser::consume_token$')}
    if b.loops():
        raise AnchorLost('parse_basic_primatives contains a loop')
    adt = ctx.facts.adts.get('types::SmartCalcAstType')
    if not adt:
        raise AnchorLost('enum types::SmartCalcAstType not found')
    vd = {v['name']: v['discr'] for v in adt['variants']}

    def dead(bid):
        """a block is dead when a decision that dominates it tests the variant of a value none of whose definitions builds it"""
        for (_, d, v) in b.conditions(bid):
            if d[0] != 'discr':
                continue
            alts = alternatives(b, d[1])
            ds = []
            for a, _c in alts:
                sa = strip(a)
                if sa[0] == 'aggr' and sa[1].startswith('types::SmartCalcAstType::') and sa[1].rsplit('::', 1)[1] in vd:
                    ds.append(vd[sa[1].rsplit('::', 1)[1]])
                elif sa[0] == 'aggr' and sa[1].startswith('core::result::Result::'):
                    ds.append({'Ok': 0, 'Err': 1}[sa[1].rsplit('::', 1)[1]])
                else:
                    ds = None
                    break
            if ds and not any((x not in v[1]) if isinstance(v, tuple) else (x in v) for x in ds):
                return True
        return False
    rets = [i for i in b.normal_blocks if b.blocks[i]['term']['k'] == 'return']
    live_bad = []
    n = 0
    for i in b.normal_blocks:
        for st in b.blocks[i]['stmts']:
            if st['k'] == 'assign' and st['rv'] == 'aggr' and st['adt'] == 'types::SmartCalcAstType::None':
                n += 1
                if dead(i):
                    continue
                before = i not in consumes and b.can_reach(0, i, avoid=consumes) if i != 0 else True
                after = any(r == i or b.can_reach(i, r, avoid=consumes) for r in rets)
                if before and after and i not in consumes:
                    live_bad.append((i, st['loc'], 'an empty ast is built and handed back on a path that consumes no token; the cursor stays where it was and parse_binary retries the same token forever'))
    if not n:
        raise AnchorLost('parse_basic_primatives builds no empty ast: the retry protocol of parse_binary changed')
    if live_bad:
        for bid, loc, why in live_bad:
            ctx.finding('T1', 'PrimativeParser::parse_basic_primatives/none-without-consume', 'parser cursor protocol: %s' % why, site=loc)
    else:
        ctx.ok('T1', 'parse_basic_primatives: every live path that hands back Ok(None) passes consume_token (%d constructions of the empty ast examined)' % n, 'L-cursor-witness', site=b.loc)
    mo = ctx.facts.one(r"^syntax::SyntaxParser::<'a>::match_operator$")
    some_rets = [bid for (bid, kind, x) in mo.defs().get(0, []) if kind == 'stmt' and x['rv'] == 'aggr' and x['adt'].endswith('Option::Some')]
    cons = [bid for bid, t in mo.calls(r'consume_token$')]
    if some_rets and all(any(mo.dominates(c, r) for c in cons) for r in some_rets):
        ctx.ok('T1', 'match_operator returns Some only after consume_token', 'L-cursor-witness', site=mo.loc)
    else:
        ctx.finding('T1', 'SyntaxParser::match_operator/some-without-consume', 'match_operator can report a match without consuming it', site=mo.loc)


REVIEWED_SCCS = [
    (r'syntax::', 'parser ladder: every recursive descent happens after consume_token (parenthesis) or on a strictly shorter token suffix'),
    (r'compiler::Interpreter::|DynamicTypeItem|SmartCalc::basic_execute', 'interpreter: recursion on AST children; the unit walk re-enters through basic_execute on a code string that is a linear number expression (C12/K5), so depth is 1'),
    (r'core::clone::Clone>::clone$', 'derived Clone: structural recursion over a finite value'),
    (r'TokenType as (alloc::string::ToString|core::cmp::PartialEq)|VariableInfo as', 'to_string / eq of a Variable token recurse into its name tokens (a finite tree: name tokens are taken left of "=", never Variables of themselves)'),
    (r'types::SmartCalcAstType::type_name$', 'PrefixUnary / Variable recurse into a finite AST (a binding stores an evaluated Item, C03/V2)'),
    (r'types::TokenType::field_compare|PartialEq.*for tokinizer::TokenInfo', 'comparison helpers call each other on finite values'),
]


def t2_recursion(ctx):
    """T2 the recursive components of the evaluation call graph are the reviewed ones"""
    ctx.rule('T2', 'call-graph SCCs in reach', floor=3)
    reach = ctx.eval_reach()
    for comp in ctx.cg.sccs(reach.keys()):
        names = [fn_key(x) for x in comp if ctx.facts.bodies[x].kind != 'promoted']
        ok = None
        for rx, why in REVIEWED_SCCS:
            if all(re.search(rx, x) or ctx.facts.bodies[x].kind == 'promoted' for x in comp):
                ok = why
                break
        if ok:
            ctx.ok('T2', 'SCC {%s}: %s' % (', '.join(names[:4]) + (' ...' if len(names) > 4 else ''), ok[:120]), 'reviewed', reviewed=True)
        else:
            ctx.finding('T2', 'scc/%s' % '+'.join(sorted(names))[:120], 'new recursive cycle in the evaluation call graph: %s' % names[:8], site=ctx.facts.bodies[comp[0]].loc)


# ------------------------------------------------------------------------------------------------ S
def s1_split(ctx):
    """S1 lines are split by a regex literal that is exactly the alternation of CRLF and LF"""
    ctx.rule('S1', 'line split literal', floor=1)
    b = ctx.facts.body('session::Session::set_text')
    ctx.fn(b)
    rn = list(b.calls(r'Regex::new$'))
    if len(rn) != 1:
        raise AnchorLost('set_text: expected one Regex::new')
    lit = model.const_str(b.expr(rn[0][1]['args'][0]))
    if lit is None:
        raise AnchorLost('set_text: split regex is not a literal')
    h = ctx.config.rx.hir(lit)
    alts = None
    if h and h['k'] == 'alt' and all(x['k'] == 'lit' for x in h['subs']):
        alts = sorted(x['s'] for x in h['subs'])
    elif h and h['k'] == 'concat':
        # regex-syntax factors the common suffix: (?:\r)?\n
        from ..data import enumerate_language
        L = enumerate_language(h)
        alts = sorted(L) if L else None
    if alts == ['\n', '\r\n']:
        ctx.ok('S1', 'split literal %r matches exactly LF and CRLF' % lit, 'regex-language', site=rn[0][1]['loc'])
    else:
        ctx.finding('S1', 'set_text/split-literal', 'lines are split by %r whose language is %s; the statement says LF or CRLF' % (lit, alts), site=rn[0][1]['loc'])
    sp = list(b.calls(r'Regex::split$'))
    if len(sp) != 1 or 'self.text' not in render(b.expr(sp[0][1]['args'][1])):
        ctx.finding('S1', 'set_text/split-target', 'set_text does not split self.text with that regex', site=b.loc)


def s2_session_loop(ctx):
    """S2 execute_session: exactly one slot is pushed per line, in order, and a line cannot stop the remaining ones. Stated on
    the CFG without assuming a particular loop form: with P = pushes into `lines` (each of a value produced by execute_text) and
    N = the next_line() call: (1) no path from entry reaches N without a push; (2) no path from N returns to N without a push;
    (3) no path leads from one push to a push without passing N; (4) after a push the function cannot return without passing N;
    (5) nothing is pushed once next_line() answered None; status = true is set before the first push."""
    ctx.rule('S2', 'one slot per line', floor=5)
    b = ctx.facts.body('smartcalc::SmartCalc::execute_session')
    ctx.fn(b)
    pushes = [(bid, t) for bid, t, m, recv in collection_writes(b) if m == 'push' and render(recv).endswith('.lines')]
    # the result may also be assembled at the end: `ExecuteResult { status: true, lines }` from a local list that was started
    # with `vec![first]` and pushed to; the construction of that first element counts as the first push
    built = [(i, st) for i in b.normal_blocks for st in b.blocks[i]['stmts'] if st['k'] == 'assign' and st['rv'] == 'aggr' and st.get('adt') == 'smartcalc::ExecuteResult::ExecuteResult']
    from ..facts import opplace
    list_locals = set()
    for i, st in built:
        names = st.get('fields') or []
        k = names.index('lines') if 'lines' in names else 1
        e = strip(b.expr(st['ops'][k]))
        p_ = opplace(st['ops'][k])
        if p_ is not None and not p_['proj']:
            ds = b.defs().get(p_['local'], [])
            if len(ds) == 1 and ds[0][1] == 'stmt' and ds[0][2]['rv'] == 'use' and opplace(ds[0][2]['ops'][0]) and not opplace(ds[0][2]['ops'][0])['proj']:
                list_locals.add(opplace(ds[0][2]['ops'][0])['local'])
            list_locals.add(p_['local'])
    init_pushes = []
    if list_locals:
        for bid, t, m, recv in collection_writes(b):
            r0 = strip(recv)
            if m == 'push' and any(('var', l, b.names.get(l)) == r0 or (r0[0] in ('call', 'phi', 'undef', 'arg') and False) for l in list_locals):
                pushes.append((bid, t))
        for bid, t in b.calls(r'Vec::<.*>::push$'):
            p0 = opplace(t['args'][0])
            if p0 is None or (bid, t) in pushes:
                continue
            for d in b.defs().get(p0['local'], []):
                if d[1] == 'stmt' and d[2]['rv'] == 'ref':
                    q = opplace(d[2]['ops'][0])
                    if q and not q['proj'] and q['local'] in list_locals:
                        pushes.append((bid, t))
        # `vec![x]`: an array literal written through the fresh box, then turned into the list
        for l in sorted(list_locals):
            for d in b.defs().get(l, []):
                if d[1] == 'call' and d[2].get('callee') and re.search(r'into_vec|box_assume_init_into_vec', d[2]['callee']['path']):
                    for i in b.normal_blocks:
                        for st in b.blocks[i]['stmts']:
                            if st['k'] == 'assign' and st['rv'] == 'aggr' and st.get('adt') == 'array' and st['lhs']['proj'] and (b.dominates(i, d[0]) or i == d[0]):
                                for o in st['ops']:
                                    init_pushes.append((i, {'args': [None, o], 'loc': st['loc']}))
    pushes = pushes + init_pushes
    nexts = [bid for bid, t in b.calls(r'Session::next_line$')]
    if not pushes or len(nexts) != 1:
        ctx.finding('S2', 'execute_session/shape', 'execute_session has %d push sites and %d next_line sites; expected at least one push and one next_line' % (len(pushes), len(nexts)), site=b.loc)
        return
    N = nexts[0]
    P = set(bid for bid, t in pushes)
    rets = [i for i in b.normal_blocks if b.blocks[i]['term']['k'] == 'return']
    for bid, t in pushes:
        v = render(b.expr(t['args'][1]))
        if 'execute_text(' not in v:
            ctx.finding('S2', 'execute_session/pushed-value', 'a slot is filled with %s, not with the result of execute_text for the current line' % v[:80], site=t['loc'])
    loc = b.blocks[N]['term']['loc']
    c1 = not (0 not in P and (0 == N or b.can_reach(0, N, avoid=P)))
    c2 = not b.can_reach(N, N, avoid=P)
    c3 = not any(b.can_reach(p_, q_, avoid={N}) for p_ in P for q_ in P)
    c4 = not any(b.can_reach(p_, r_, avoid={N}) for p_ in P for r_ in rets)
    # (5): blocks that run only when next_line() was None cannot reach a push
    none_blocks = []
    for i in b.normal_blocks:
        for (_, d, v) in b.conditions(i):
            ds = render(d)
            if 'next_line(' in ds:
                is_none = (ds.startswith('discr(') and not isinstance(v, tuple) and set(v) == {0}) or \
                          ('is_none(' in ds and ((isinstance(v, tuple) and 0 in v[1]) or (not isinstance(v, tuple) and 0 not in v))) or \
                          ('is_some(' in ds and not isinstance(v, tuple) and set(v) == {0})
                if is_none:
                    none_blocks.append(i)
    c5 = bool(none_blocks) and not any(i in P or b.can_reach(i, p_) for i in none_blocks for p_ in P)
    for ok_, key, good, bad in (
            (c1, 'first-line', 'the first line is evaluated and pushed before the cursor moves', 'the cursor can move (next_line) before the first line was pushed'),
            (c2, 'push-per-iteration', 'every further line is pushed before the cursor moves again', 'a line can be skipped: next_line() can be reached again without a push'),
            (c3, 'double-push', 'at most one slot per line', 'two slots can be pushed for one line (push reaches push without next_line)'),
            (c4, 'early-exit', 'after a line is pushed the only way out is next_line() == None', 'the function can return after a line without asking for the next one (a malformed line could stop the remaining ones)'),
            (c5, 'push-after-end', 'nothing is pushed after next_line() == None', 'a slot can be pushed after the last line (or the None branch was not found)')):
        if ok_:
            ctx.ok('S2', good, 'cfg-paths', site=loc, sample=key in ('first-line', 'early-exit'))
        else:
            ctx.finding('S2', 'execute_session/%s' % key, bad, site=loc)
    st = field_sets(b, 'smartcalc::ExecuteResult.status')
    if built and list_locals and not st and all(render(b.expr(s_['ops'][(s_.get('fields') or ['status']).index('status') if 'status' in (s_.get('fields') or []) else 0])) == 'True' for i_, s_ in built):
        ctx.ok('S2', 'the result that carries the slots is built with status = true', 'dominance', site=b.loc)
    elif st and all(v == 'True' for i, v in st) and all(any(b.dominates(i, p_) for i, v in st) for p_ in P):
        ctx.ok('S2', 'status = true before the first slot', 'dominance', site=b.loc)
    else:
        ctx.finding('S2', 'execute_session/status', 'status is not set to true before the first line is pushed', site=b.loc)


def field_sets(b, field):
    out = []
    for i in b.normal_blocks:
        for s in b.blocks[i]['stmts']:
            if s['k'] == 'assign' and s['lhs']['proj'] and isinstance(s['lhs']['proj'][-1], dict) and s['lhs']['proj'][-1].get('field') == field:
                out.append((i, render(b.expr(s['ops'][0]))))
    return out


def s3_next_line(ctx):
    """S3 next_line, tabulated: for every (number of lines n, cursor p) in 0..5 x 0..5 the CFG path selected by these values
    sets the cursor to p + 1 and answers Some exactly when n > p + 1, and otherwise leaves the cursor alone and answers None
    (however the guard is spelled); the line handed out is text_parts[new cursor]."""
    from ..evalint import walk_cfg
    ctx.rule('S3', 'cursor guard and increment', floor=2)
    b = ctx.facts.body('session::Session::next_line')
    ctx.fn(b)
    if b.loops():
        raise AnchorLost('next_line contains a loop')
    sf = model.session_fields(ctx)
    LN, CN = '.' + sf['lines_name'], '.' + sf['cursor_name']
    bad = []
    cells = 0
    for n in range(0, 6):
        for p_ in range(0, 6):
            def leaf(body, e, n=n, p_=p_):
                e2 = strip(e, transparent=False)
                if e2[0] == 'call':
                    if re.search(r'Cell::<.*>::get$', e2[1]) and render(e2).rstrip(')').endswith(CN):
                        return p_
                    if re.search(r'(Vec::<.*>|slice::<impl \[T\]>)::len$', e2[1]) and render(e2).rstrip(')').endswith(LN):
                        return n
                    if e2[1].endswith('Session::line_count') or e2[1].endswith('Session::has_value'):
                        return None
                if e2[0] == 'unop' and e2[1] == 'PtrMetadata' and render(e2).rstrip(')').endswith(LN):
                    return n
                return None
            r = walk_cfg(b, leaf, watch=r'Cell::<.*>::set$')
            cells += 1
            if not r['ok']:
                bad.append((n, p_, 'not evaluable: %s' % r.get('why')))
                continue
            sets = [c for c in r['calls']]
            rk = None
            # `_0 = move tmp`: what the path assigned to tmp (a result built in a helper's match arm and handed on)
            from ..facts import opplace as _opp
            for _hop in range(4):
                rr = r['ret']
                if rr is not None and rr.get('k') == 'assign' and rr['rv'] == 'use':
                    pl = _opp(rr['ops'][0])
                    if pl and not pl['proj'] and pl['local'] in r.get('last', {}):
                        r['ret'] = r['last'][pl['local']]
                        continue
                break
            if r['ret'] is not None:
                if r['ret'].get('k') == 'assign' and r['ret']['rv'] == 'aggr':
                    rk = r['ret']['adt'].rsplit('::', 1)[1]
                elif r['ret'].get('k') == 'assign' and r['ret']['rv'] == 'use':
                    ve = strip(b.expr(r['ret']['ops'][0]))
                    rk = ve[1].rsplit('::', 1)[1] if ve[0] == 'aggr' else ('call' if ve[0] == 'call' else None)
                elif r['ret'].get('k') == 'call':
                    rk = 'call'
            want_some = n > p_ + 1
            if want_some:
                okc = len(sets) == 1 and sets[0][1][1] == p_ + 1 and rk in ('Some', 'call')
            else:
                okc = len(sets) == 0 and rk == 'None'
            if not okc:
                bad.append((n, p_, 'cursor writes %s, result %s' % ([c[1][1] for c in sets], rk)))
    ctx.analysed('S3', '%d (lines, cursor) cells walked' % cells)
    if bad:
        n, p_, why = bad[0]
        ctx.finding('S3', 'next_line/table', 'with %d lines and the cursor at %d: %s; expected %s (%d of %d cells differ)' % (
            n, p_, why, 'cursor := %d and Some(line)' % (p_ + 1) if n > p_ + 1 else 'cursor unchanged and None', len(bad), cells), site=b.loc)
    else:
        ctx.ok('S3', 'Some and cursor := cursor + 1 exactly when lines > cursor + 1 (36 cells)', 'table', site=b.loc)
    # the line handed out is the one at the new cursor
    idx = model.deep_calls(ctx, b, r'Index<.*>>::index$|slice::<impl \[T\]>::get$|Vec::<.*>::get$')
    txt = ' '.join(render(a) for _b, _t, as_ in idx for a in as_)
    if LN in txt and (CN in txt):
        ctx.ok('S3', 'the returned line is the line at the cursor', 'wiring', site=b.loc)
    else:
        ctx.finding('S3', 'next_line/line', 'the returned line is not indexed by the cursor: %s' % txt[:100], site=b.loc)


RULES = [('P1', p1_panics), ('T1', t1_loops), ('T2', t2_recursion), ('S1', s1_split), ('S2', s2_session_loop), ('S3', s3_next_line)]
