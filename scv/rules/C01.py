"""C01 - Evaluation is total: no panic, no hang, one result slot per input line.  (P rule; T and S follow)"""
import collections
import re

from ..facts import render, strip, walk, fn_key, AnchorLost
from ..panics import enumerate_obligations, Discharger, held_across_calls


def p1_panics(ctx):
    """P1 every construct that can unwind in a body reachable from execute / execute_session is discharged"""
    ctx.rule('P1', 'panic obligations in evaluation-reachable bodies', floor=300)
    reach = ctx.eval_reach()
    D = Discharger(ctx)
    left = collections.defaultdict(list)
    n = 0
    bodies = [ctx.facts.bodies[p] for p in sorted(reach) if ctx.facts.bodies[p].kind != 'promoted']
    # first pass fills the discharger's environment (regex-digit value bounds) before intervals are used
    obs = []
    for b in bodies:
        o = enumerate_obligations(ctx, b)
        if o:
            ctx.fn(b)
        obs += o
    for ob in obs:
        if ob.kind in ('unwrap-result', 'unwrap-option'):
            D.discharge(ob)
    for ob in obs:
        n += 1
        d = D.discharge(ob)
        if d:
            ctx.ok('P1', '%s: %s' % (ob.key(), d[1]), d[0], site=ob.loc, sample=(n % 37 == 0))
        else:
            left[ob.key()].append(ob)
    for b in bodies:
        for gt, ct, fam, why in held_across_calls(D, b):
            left['%s/refcell-held-across-call/%s' % (fn_key(b.path), fam)].append(type('X', (), {'loc': ct['loc'], 'what': why, 'kind': 'refcell', 'body': b})())
    ctx._left = left
    for key, items in sorted(left.items()):
        for ob in items:
            ctx.finding('P1', key, '%s in %s cannot be shown not to panic' % (ob.what, fn_key(ob.body.path)), site=ob.loc)


RULES = [('P1', p1_panics)]
