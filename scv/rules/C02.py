"""C02 - Arithmetic obeys precedence, associativity and parentheses for every expression.

G1 precedence ladder wiring and operator arrays; G2 left fold; G3 char -> OperationType -> arithmetic tables;
G4 guarded division; G5 suffix tables (two code siblings); G6 implicit '+' / leading 0 insertion and its guard;
G7 cursor protocol (peek .. return Ok(non-None) passes through consume_token); G8 stage order of tokinize.
Not decided: independence from spacing on all strings; exact f64 results.
"""
import re

from ..facts import render, strip, walk, fn_key, AnchorLost, alternatives, cond_str, resolve_conds
from ..common import check_binop_table
from ..tables import spec
from .. import model


def promoted_array(ctx, body, operand):
    """elements of a `&[..]` literal argument (promoted constant)"""
    e = strip(body.expr(operand))
    if e[0] == 'aggr' and e[1] == 'array':          # promoted constants are resolved by Body.expr
        return [strip(x) for x in e[2]]
    if e[0] == 'const' and e[3] and 'promoted[' in e[3]:
        idx = int(re.search(r'promoted\[(\d+)\]', e[3]).group(1))
        for pb in ctx.facts.promoted(body.path):
            if pb.rec.get('promoted_index') == idx:
                r = strip(pb.local_expr(0))
                if r[0] == 'aggr' and r[1] == 'array':
                    return [strip(x) for x in r[2]]
    return None


def g1_ladder(ctx):
    """G1 AddSubtract(+,-) -> Modulo(%) -> MultiplyDivide(*,/) -> Unary -> Primative; parenthesis re-enters at the top"""
    ctx.rule('G1', 'precedence ladder', floor=6)
    levels = {}
    for b in ctx.facts.find(r'^<syntax::binary::\w+ as syntax::SyntaxParserTrait>::parse$'):
        ctx.fn(b)
        pb = list(b.calls(r'^syntax::binary::parse_binary$'))
        if len(pb) != 1:
            raise AnchorLost('%s does not call parse_binary exactly once' % fn_key(b.path))
        t = pb[0][1]
        nxt = t['callee']['gen'][0] if t['callee'].get('gen') else None
        arr = promoted_array(ctx, b, t['args'][1])
        if arr is None or nxt is None:
            raise AnchorLost('%s: operator array or generic argument not extractable' % fn_key(b.path))
        ops = [x[2] for x in arr]
        me = re.match(r'^<(.*) as ', b.path).group(1)
        levels[me] = (ops, nxt, t['loc'])
    want = [('syntax::binary::AddSubtractParser', ['+', '-']), ('syntax::binary::ModuloParser', ['%']), ('syntax::binary::MultiplyDivideParser', ['*', '/'])]
    # walk the chain from AddSubtract
    chain = []
    cur = 'syntax::binary::AddSubtractParser'
    seen = set()
    while cur in levels and cur not in seen:
        seen.add(cur)
        chain.append((cur, levels[cur][0]))
        cur = levels[cur][1]
    end = cur
    pos = {}
    for depth, (lv, ops) in enumerate(chain):
        for o in ops:
            if o in pos:
                ctx.finding('G1', 'operator-on-two-levels/%s' % o, 'operator %r is parsed on two precedence levels' % o, site=levels[lv][2])
            pos[o] = depth
    for o in '+-*/':
        if o not in pos:
            ctx.finding('G1', 'operator-missing/%s' % o, 'operator %r is on no precedence level reachable from AddSubtractParser' % o)
    if all(o in pos for o in '+-*/'):
        if pos['+'] == pos['-'] and pos['*'] == pos['/'] and pos['+'] < pos['*']:
            ctx.ok('G1', "'+','-' share a level above the level of '*','/' (%s)" % ' > '.join('%s%s' % (l.rsplit('::', 1)[1], o) for l, o in chain), 'tables')
        else:
            ctx.finding('G1', 'precedence-order', "* and / must bind tighter than + and -; the ladder is %s" % ' > '.join('%s%s' % (l.rsplit('::', 1)[1], o) for l, o in chain),
                        site=levels[chain[0][0]][2])
    if end != 'syntax::unary::UnaryParser':
        ctx.finding('G1', 'ladder-end', 'the binary ladder ends in %s, not in UnaryParser' % end)
    else:
        ctx.ok('G1', 'ladder ends in UnaryParser', 'generic-args')
    # Unary -> [prefix, Primative]; Primative -> [parenthesis, basic]; parenthesis -> AddSubtract; top -> [Assignment, AddSubtract]
    def fn_list(path_regex):
        b = ctx.facts.one(path_regex)
        ctx.fn(b)
        mp = list(b.calls(r'^syntax::util::map_parser$'))
        if len(mp) != 1:
            raise AnchorLost('%s: expected one map_parser call' % fn_key(b.path))
        arr = promoted_array(ctx, b, mp[0][1]['args'][1])
        if arr is None:
            raise AnchorLost('%s: parser list not extractable' % fn_key(b.path))
        out = []
        for x in arr:
            if x[0] != 'fnitem':
                raise AnchorLost('%s: parser list holds a non-function' % fn_key(b.path))
            fn = x[2]
            out.append(fn.get('inst') or fn['path'])
        return out, mp[0][1]['loc']
    checks = [
        (r'^<syntax::unary::UnaryParser as syntax::SyntaxParserTrait>::parse$', [r'UnaryParser::parse_prefix_unary$', r'PrimativeParser as syntax::SyntaxParserTrait>::parse$'], 'UnaryParser'),
        (r'^<syntax::primative::PrimativeParser as syntax::SyntaxParserTrait>::parse$', [r'PrimativeParser::parse_parenthesis$', r'PrimativeParser::parse_basic_primatives$'], 'PrimativeParser'),
        (r"^syntax::SyntaxParser::<'a>::parse$", [r'AssignmentParser as syntax::SyntaxParserTrait>::parse$', r'AddSubtractParser as syntax::SyntaxParserTrait>::parse$'], 'SyntaxParser'),
    ]
    for rx, want_l, name in checks:
        got, loc = fn_list(rx)
        if len(got) == len(want_l) and all(re.search(w, g) for w, g in zip(want_l, got)):
            ctx.ok('G1', '%s tries %s in order' % (name, [g.rsplit('::', 2)[-2:] for g in got]), 'tables', site=loc)
        else:
            ctx.finding('G1', '%s/alternatives' % name, '%s tries %s; expected %s' % (name, got, want_l), site=loc)
    pp = ctx.facts.one(r'^syntax::primative::PrimativeParser::parse_parenthesis$')
    inner = [t['callee']['path'] for _, t in pp.calls(r'SyntaxParserTrait>::parse$')]
    if inner == ['<syntax::binary::AddSubtractParser as syntax::SyntaxParserTrait>::parse']:
        ctx.ok('G1', 'a parenthesis re-enters the ladder at AddSubtractParser', 'call', site=pp.loc)
    else:
        ctx.finding('G1', 'parenthesis-entry', 'inside parentheses the parser continues with %s' % inner, site=pp.loc)
    asg = ctx.facts.one(r'^<syntax::assignment::AssignmentParser as syntax::SyntaxParserTrait>::parse$')
    inner = [t['callee']['path'] for _, t in asg.calls(r'SyntaxParserTrait>::parse$')]
    if inner == ['<syntax::binary::AddSubtractParser as syntax::SyntaxParserTrait>::parse']:
        ctx.ok('G1', 'the right-hand side of an assignment is parsed from the top of the ladder', 'call', site=asg.loc)
    else:
        ctx.finding('G1', 'assignment-rhs-entry', 'the right-hand side of an assignment is parsed by %s' % inner, site=asg.loc)


def g2_left_fold(ctx):
    """G2 parse_binary builds Binary{left: <accumulated>, operator: <matched>, right: <fresh T::parse>}"""
    ctx.rule('G2', 'left fold', floor=1)
    b = ctx.facts.one(r'^syntax::binary::parse_binary$')
    ctx.fn(b)
    aggs = [s for i in b.normal_blocks for s in b.blocks[i]['stmts'] if s['k'] == 'assign' and s['rv'] == 'aggr' and s['adt'] == 'types::SmartCalcAstType::Binary']
    if len(aggs) != 1:
        raise AnchorLost('parse_binary: expected one Binary construction, found %d' % len(aggs))
    s = aggs[0]
    f = dict(zip(s['fields'], s['ops']))
    left, right, op = b.expr(f['left']), b.expr(f['right']), b.expr(f['operator'])
    lt, rt, ot = render(left), render(right), render(op)
    acc = any(x[0] in ('loop', 'phi') for x in walk(left))
    FRESH = r'(Result::unwrap\()?SyntaxParserTrait::parse\(parser\)\)?( as Ok\.0)?'
    fresh = re.fullmatch(r'Rc::new\(%s\)' % FRESH, rt)
    if not fresh:
        # the operand may come from a helper of this file that hands back what the tighter level parsed: every Ok(..) the
        # helper returns is the payload of a T::parse(parser) call made in it (errors are propagated unchanged)
        r2 = strip(right)
        while r2[0] == 'call' and re.search(r'Rc::<.*>::new$|Rc::new$', r2[1]) and r2[2]:
            r2 = strip(r2[2][0])
        while (r2[0] == 'field' and r2[1][0] == 'downcast' and r2[1][2] == 'Ok') or (r2[0] == 'call' and re.search(r'Result::<.*>::unwrap$', r2[1])):
            r2 = strip(r2[1][1] if r2[0] == 'field' else r2[2][0])
        hb = ctx.facts.bodies.get(r2[1]) if r2[0] == 'call' else None
        if hb is not None and hb.file == b.file and [render(a) for a in r2[2]] == ['parser']:
            oks = [render(a[2][0]) for a, _ in alternatives(hb, hb.ret_expr()) if strip(a)[0] == 'aggr' and a[1].endswith('Result::Ok')]
            others = [render(a) for a, _ in alternatives(hb, hb.ret_expr()) if not (strip(a)[0] == 'aggr' and a[1].endswith('Result::Ok'))]
            if oks and all(re.fullmatch(FRESH, o) for o in oks) and all(re.fullmatch(r'from_residual\(branch\(SyntaxParserTrait::parse\(parser\)\) as Break\.0\)|SyntaxParserTrait::parse\(parser\)', o) for o in others):
                ctx.fn(hb)
                fresh = True
    if not acc or re.fullmatch(r'Rc::new\((Result::unwrap\()?SyntaxParserTrait::parse\(parser\)\)?\)', lt):
        ctx.finding('G2', 'parse_binary/left-operand', 'the new node\'s left child is %s, not the expression accumulated so far: equal-precedence operators no longer associate to the left' % lt[:120], site=s['loc'])
    elif not fresh:
        ctx.finding('G2', 'parse_binary/right-operand', 'the new node\'s right child is %s, not the operand just parsed' % rt[:120], site=s['loc'])
    elif 'match_operator' not in ot:
        ctx.finding('G2', 'parse_binary/operator', 'the node\'s operator is %s, not the operator just matched' % ot[:80], site=s['loc'])
    else:
        ctx.ok('G2', 'Binary{left: accumulated, operator: matched, right: fresh parse}', 'use-def', site=s['loc'])
    # the folded node becomes the new accumulator
    lhs = s['lhs']['local']
    if b.names.get(lhs) is None and not any(b.names.get(l) for l in [lhs]):
        pass


def g3_tables(ctx):
    """G3 char -> OperationType (calculate_item) and OperationType -> arithmetic (NumberItem::calculate)"""
    ctx.rule('G3', 'operator tables', floor=8)
    b = ctx.facts.one(r'^compiler::Interpreter::calculate_item$')
    ctx.fn(b)
    want = {ord('+'): 'Add', ord('-'): 'Sub', ord('*'): 'Mul', ord('/'): 'Div'}
    got = {}
    from ..evalint import try_ev, feasible_values
    oadt = ctx.facts.adts.get('compiler::OperationType')
    if not oadt:
        raise AnchorLost('enum compiler::OperationType not found')
    oby = {v['discr']: v['name'] for v in oadt['variants']}
    calls = list(b.calls(r'^compiler::DataItem::calculate$'))
    if not calls:
        raise AnchorLost('calculate_item: no DataItem::calculate call')
    # the table char -> operation, evaluated: for each operator character, the calculate calls whose path conditions hold for
    # that character and the operation value they are handed (a match on the char, a lookup helper, a table - all the same)
    for ch in sorted(want):
        def leaf(body, e, ch=ch):
            e2 = strip(e, transparent=False)
            if e2[0] == 'arg' and e2[2] == 'operator':
                return ch
            return None
        hits = []
        for bid, t in calls:
            feasible = True
            for (_, d, v) in b.conditions(bid):
                dv = try_ev(b, d, leaf)
                if isinstance(dv, dict):
                    dv = dv.get('__discr__')
                if isinstance(dv, bool):
                    dv = int(dv)
                if not isinstance(dv, int):
                    continue
                if (dv in v[1]) if isinstance(v, tuple) else (dv not in v):
                    feasible = False
                    break
            if not feasible:
                continue
            variants = set()
            for val, alt in feasible_values(b, b.expr(t['args'][4]), leaf):
                a0 = strip(alt)
                if a0[0] == 'aggr' and 'OperationType::' in str(a0[1]):
                    variants.add(str(a0[1]).rsplit('::', 1)[1])
                elif isinstance(val, dict) and val.get('__discr__') in oby:
                    variants.add(oby[val['__discr__']])
                else:
                    variants.add('?' + render(alt)[:40])
            hits.append((t, variants))
        if not hits:
            continue
        vs_ = set().union(*[v_ for _, v_ in hits])
        t = hits[0][0]
        recv, other = render(b.expr(t['args'][0])), render(b.expr(t['args'][3]))
        if len(vs_) != 1 or any(x.startswith('?') for x in vs_):
            ctx.finding('G3', 'calculate_item/not-extractable', 'operator dispatch not extractable for %r: the operation handed to calculate is %s' % (chr(ch), sorted(vs_)), site=t['loc'])
            continue
        name = list(vs_)[0]
        got[ch] = name
        if want.get(ch) != name:
            ctx.finding('G3', 'calculate_item/%s' % chr(ch), "operator %r is evaluated as OperationType::%s" % (chr(ch), name), site=t['loc'])
        elif not recv.startswith('left') or not other.startswith('right'):
            ctx.finding('G3', 'calculate_item/operands/%s' % chr(ch), "operator %r: calculate is invoked as %s.calculate(.., %s, ..); expected left.calculate(.., right, ..)" % (chr(ch), recv[:40], other[:40]), site=t['loc'])
        else:
            ctx.ok('G3', "%r -> left.calculate(true, right, %s)" % (chr(ch), name), 'gamma', site=t['loc'])
    for ch in want:
        if ch not in got:
            ctx.finding('G3', 'calculate_item/missing/%s' % chr(ch), 'operator %r has no arm in calculate_item' % chr(ch), site=b.loc)
    n = ctx.facts.one(r'^<compiler::number::NumberItem as compiler::DataItem>::calculate$')
    ctx.fn(n)
    check_binop_table(ctx, n, 'G3', None, False)
    # binary nodes evaluate left and right and dispatch with the node's operator
    eb = ctx.facts.one(r'^compiler::Interpreter::executer_binary$')
    ci = list(eb.calls(r'Interpreter::calculate_item$'))
    if len(ci) != 1:
        raise AnchorLost('executer_binary: expected one calculate_item call')
    a = [render(eb.expr(x)) for x in ci[0][1]['args']]
    if a[1] == 'operator' and 'execute_ast(config, session, left)' in a[2] and 'execute_ast(config, session, right)' in a[3]:
        ctx.ok('G3', 'executer_binary: calculate_item(operator, eval(left), eval(right))', 'wiring', site=ci[0][1]['loc'])
    else:
        ctx.finding('G3', 'executer_binary/wiring', 'executer_binary calls calculate_item(%s)' % ', '.join(x[:50] for x in a[1:]), site=ci[0][1]['loc'])


def g4_division(ctx):
    """G4 do_divition(l, r) = l / r, replaced by 0 exactly when the quotient is infinite or NaN"""
    import math
    from ..evalint import try_ev, fdiv
    ctx.rule('G4', 'guarded division', floor=2)
    b = ctx.facts.one(r'^tools::do_divition$')
    ctx.fn(b)
    if b.argc != 2:
        raise AnchorLost('do_divition no longer takes two arguments')
    if b.loops():
        raise AnchorLost('do_divition contains a loop: its value is no longer a term')
    ret = b.ret_expr()
    # (a) structure: the term is built from exactly one division, of the first argument by the second
    divs = {render(x) for x in walk(ret) if x[0] == 'binop' and x[1] == 'Div'}
    quot = '(%s Div %s)' % (b.arg_names[1], b.arg_names[2])
    if divs == {quot}:
        ctx.ok('G4', 'quotient = %s' % quot, 'shape', site=b.loc)
    else:
        ctx.note('G4: do_divition is not written as one division %s (found %s); decided by the table alone' % (quot, sorted(divs)))
    # (b) the returned term, tabulated over representatives of every class of quotient (finite of both signs, zero,
    #     +inf, -inf, NaN from 0/0, overflow to inf of finite operands, non-finite operands, huge-but-finite)
    vals = [0.0, -0.0, 6.0, -6.0, 0.5, 1e308, -1e308, 1e-308, 1e305, 5e-324, math.inf, -math.inf, math.nan]
    bad = {}
    n = 0
    for l in vals:
        for r in vals:
            def leaf(body, e, l=l, r=r):
                if e[0] == 'arg':
                    return l if e[1] == 1 else r
                return None
            got = try_ev(b, ret, leaf)
            q = fdiv(l, r)
            want = q if math.isfinite(q) else 0.0
            n += 1
            if got is None:
                raise AnchorLost('do_divition: the returned term cannot be evaluated for (%r, %r)' % (l, r))
            if not (got == want):
                cls = 'nan' if math.isnan(q) else 'inf' if math.isinf(q) else 'finite'
                bad.setdefault(cls, []).append((l, r, got, want))
    if not bad:
        ctx.ok('G4', 'do_divition(l, r) == (l/r if finite else 0) on %d operand pairs covering finite, +-inf, NaN and overflowing quotients' % n, 'table', site=b.loc)
    for cls, rows in sorted(bad.items()):
        l, r, got, want = rows[0]
        key = {'finite': 'do_divition/finite-quotient-changed', 'inf': 'do_divition/infinite-quotient-kept', 'nan': 'do_divition/nan-quotient-kept'}[cls]
        ctx.finding('G4', key, 'do_divition(%r, %r) is %r, the statement says %r (%d of %d pairs with a %s quotient differ)' % (l, r, got, want, len(rows), n, cls), site=b.loc)


def suffix_table(ctx, b):
    """{"k": 1000.0, ...} from `match notation.as_str() { "k" | "K" => 1_000.0, .. }`"""
    out = {}
    sites = {}
    for i in b.normal_blocks:
        for s in b.blocks[i]['stmts']:
            if s['k'] == 'assign' and s['rv'] == 'use' and 'const' in s['ops'][0] and s['lhs']['ty'] == 'f64':
                val = s['ops'][0]['const'].get('val')
                if not isinstance(val, float) or val == 0.0:
                    continue
                for d, v in b.incoming_edge_conds(i):
                    ds = strip(d)
                    if ds[0] == 'call' and re.search(r'PartialEq.*::eq$', ds[1]):
                        lit = [model.const_str(x) for x in ds[2]]
                        lit = [x for x in lit if x is not None]
                        truthy = (isinstance(v, tuple) and 0 in v[1]) or (not isinstance(v, tuple) and v and 0 not in v)
                        if lit and truthy:
                            out[lit[0]] = val
                            sites[lit[0]] = s['loc']
    return out, sites


def _notation_leaf(suf):
    """leaf assignment for the literal readers: the line has a decimal / price part that parses (value 1.0) and a NOTATION
    group whose text is `suf`; no based literal"""
    def group_of(e):
        for x in walk(e):
            if x[0] == 'call' and re.search(r'Captures::<.*>::name$|Captures::name$', x[1]) and len(x[2]) == 2:
                return model.const_str(x[2][1])
        return None

    def leaf(body, e):
        e0 = strip(e)
        if e0[0] == 'call':
            if re.search(r'PartialEq.*::eq$', e0[1]) and len(e0[2]) == 2:
                lits = [model.const_str(x) for x in e0[2]]
                if any(l is not None for l in lits) and any(model.const_str(x) is None and group_of(x) == 'NOTATION' for x in e0[2]):
                    return int([l for l in lits if l is not None][0] == suf)
            if re.search(r'Match::<.*>::end$|Match::end$', e0[1]):
                return 'end:%s' % group_of(e0)
        if e0[0] == 'discr':
            x = strip(e0[1])
            if x[0] == 'call' and re.search(r'Captures::<.*>::name$|Captures::name$', x[1]):
                g = model.const_str(x[2][1]) if len(x[2]) == 2 else None
                return {'NOTATION': 1, 'DECIMAL': 1, 'PRICE': 1, 'CURRENCY': 1}.get(g, 0)
            if x[0] == 'call' and re.search(r'::parse$|FromStr', x[1]):
                return 0
        if e0[0] == 'field' and e0[1][0] == 'downcast' and e0[1][2] == 'Ok':
            x = strip(e0[1][1])
            if x[0] == 'call' and re.search(r'::parse$|FromStr', x[1]):
                return 1.0
        return None
    return leaf


def suffix_factors(ctx, b, kind):
    """{suffix: set of feasible factors} of a literal reader: the value operand of its TokenType::<kind> construction,
    evaluated (E6b) for a literal whose digits parse to 1.0 and whose NOTATION group is the suffix. Works for a `match`, a
    const table searched with find / find_map (unfolded by E0b) and a helper function (spliced or inlined)."""
    from ..evalint import feasible_values
    aggs = [s for i in b.normal_blocks for s in b.blocks[i]['stmts'] if s['k'] == 'assign' and s['rv'] == 'aggr' and s['adt'] == 'types::TokenType::' + kind]
    if not aggs:
        raise AnchorLost('%s: no TokenType::%s construction found' % (fn_key(b.path), kind))
    out = {}
    for suf in list(spec.SUFFIX) + ['q']:
        vals = set()
        for s in aggs:
            for v, a in feasible_values(b, b.expr(s['ops'][0]), _notation_leaf(suf)):
                vals.add(v if isinstance(v, (int, float)) else None)
        out[suf] = vals
    return out, aggs[0]['loc']


def g5_suffixes(ctx):
    """G5 the suffix tables of the number and the money reader agree with each other and with 1000^k"""
    ctx.rule('G5', 'magnitude suffix tables', floor=16)
    tabs = {}
    for name, rx, kind in (('number', r'regex_tokinizer::number::number_regex_parser$', 'Number'), ('money', r'regex_tokinizer::money::money_regex_parser$', 'Money')):
        b = ctx.facts.one(rx)
        ctx.fn(b)
        t, site = suffix_factors(ctx, b, kind)
        tabs[name] = {k: tuple(sorted(v, key=repr)) for k, v in t.items()}
        for suf, want in spec.SUFFIX.items():
            got = t.get(suf, set())
            if got == {want}:
                ctx.ok('G5', '%s reader: %r -> %g' % (name, suf, want), 'gamma', site=site, sample=False)
            elif got == {1.0}:
                ctx.finding('G5', '%s/%s/missing' % (name, suf), 'the %s reader has no factor for suffix %r (the literal keeps its value)' % (name, suf), site=site)
            elif None in got or not got:
                ctx.finding('G5', '%s/%s/not-extractable' % (name, suf), 'the factor the %s reader applies for suffix %r could not be evaluated from its value term' % (name, suf), site=site)
            else:
                ctx.finding('G5', '%s/%s/factor' % (name, suf), 'the %s reader scales suffix %r by %s; the statement says %r' % (name, suf, sorted(got), want), site=site)
        if t.get('q') not in ({1.0}, None) and None not in t.get('q', set()):
            ctx.note('G5: the %s reader scales an unknown suffix letter by %s' % (name, sorted(t['q'])))
    if {k: v for k, v in tabs['number'].items() if k != 'q'} != {k: v for k, v in tabs['money'].items() if k != 'q'}:
        ctx.finding('G5', 'siblings-disagree', 'number and money readers scale suffixes differently: %s' % sorted(set(tabs['number'].items()) ^ set(tabs['money'].items()), key=repr))
    # data table (deserialised only): note
    for lang, l in ctx.config.languages.items():
        nn = l.get('number_notation', {})
        for suf, k in nn.items():
            if suf in spec.SUFFIX and 1000.0 ** k != spec.SUFFIX[suf]:
                ctx.note('G5: config.json languages.%s.number_notation[%r] = %s disagrees with 1000^k (table is not read by code)' % (lang, suf, k))


def g6_implicit(ctx):
    """G6 missing_token_adder inserts Operator('+') between adjacent operands and Number(0) before a leading sign"""
    ctx.rule('G6', 'implicit + and leading 0', floor=2)
    b = ctx.facts.one(r"^tokinizer::Tokinizer::<'a>::missing_token_adder$")
    ctx.fn(b)
    ins = [(bid, t) for bid, t in b.calls(r'Vec::<.*>::insert$') if render(b.expr(t['args'][0])).endswith('.tokens')]
    if len(ins) != 2:
        raise AnchorLost('missing_token_adder: expected two inserts into tokens, found %d' % len(ins))
    from ..facts import implied_conds
    for bid, t in ins:
        val = render(b.expr(t['args'][2]))
        conds = b.cond_text(bid) + [c for c in implied_conds(b, bid) if c not in b.cond_text(bid)]
        if re.fullmatch(r'Rc::new\(types::TokenType::Number\{0\.0, types::NumberType::Decimal\{\}\}\)', val):
            # guard: the token at the insertion point is an operator AND that operator is a sign
            tadt = ctx.facts.adts['types::TokenType']
            opd = [v['discr'] for v in tadt['variants'] if v['name'] == 'Operator'][0]
            is_op = any(re.search(r'discr\(.*tokens.*\)=\[%d\]' % opd, c) for c in conds)
            sign = any(re.search(r'as Operator\.0.*=\[(43, 45|45|43)\]', c) or re.search(r'as Operator\.0', c) and re.search(r'\[(43|45)', c) for c in conds)
            if not is_op:
                ctx.finding('G6', 'leading-zero/guard-missing', 'a 0 is inserted without testing that the line starts with an operator (%s)' % conds[-2:], site=t['loc'])
            elif not sign:
                ctx.finding('G6', 'leading-zero/any-operator', "a 0 is inserted in front of ANY leading operator, also '(' : only a sign prefix ('+' / '-') may get an implicit 0", site=t['loc'])
            else:
                ctx.ok('G6', 'Number(0) inserted only before a leading sign', 'guard-dom', site=t['loc'])
        elif re.fullmatch(r"Rc::new\(types::TokenType::Operator\{\"\+\"\}\)", val) or val == 'Rc::new(types::TokenType::Operator{"+"})':
            ctx.ok('G6', "Operator('+') inserted between adjacent operands", 'const', site=t['loc'])
        elif 'TokenType::Operator' in val:
            ctx.finding('G6', 'implicit-operator', 'adjacent operands are joined by %s; the statement says they are added' % val, site=t['loc'])
        else:
            ctx.finding('G6', 'unknown-insert', 'missing_token_adder inserts %s' % val[:80], site=t['loc'])


def g7_cursor(ctx):
    """G7 in src/syntax every path from peek_token() to `return Ok(<node built from the token>)` passes consume_token()"""
    ctx.rule('G7', 'cursor protocol: peek, then consume', floor=2)
    n = 0
    for b in ctx.facts.find(r'^syntax::|^<syntax::'):
        if b.kind not in ('fn', 'method'):
            continue
        peeks = [bid for bid, t in b.calls(r'SyntaxParser::<.*>::peek_token$|SyntaxParser::peek_token$')]
        if not peeks or b.path.endswith('::check_operator'):
            continue
        ctx.fn(b)
        consumes = set(bid for bid, t in b.calls(r'SyntaxParser::<.*>::consume_token$|SyntaxParser::consume_token$'))
        # result definitions: _0 = Ok(x) with x not the None node, x derived from the peeked token
        for i in b.normal_blocks:
            for s in b.blocks[i]['stmts']:
                if s['k'] == 'assign' and s['lhs']['local'] == 0 and not s['lhs']['proj'] and s['rv'] == 'aggr' and s['adt'] == 'core::result::Result::Ok':
                    inner = b.expr(s['ops'][0])
                    alts = [strip(a) for a, _ in alternatives(b, inner)]
                    non_none = [a for a in alts if not (a[0] == 'aggr' and a[1] == 'types::SmartCalcAstType::None')]
                    from_token = [a for a in non_none if 'peek_token' in render(a)]
                    if not from_token:
                        continue
                    n += 1
                    # is block i reachable from a peek block without passing a consume block?
                    bad = False
                    for pk in peeks:
                        if (pk == i or b.can_reach(pk, i, avoid=consumes)) and i not in consumes:
                            # consume inside block i itself happens at its terminator, i.e. after the assignment
                            bad = True
                    if bad:
                        variant = sorted(set(re.findall(r'as (\w+)\.\d', ' '.join(render(a) for a in from_token))))
                        ctx.finding('G7', '%s/returns-without-consume' % fn_key(b.path),
                                    '%s returns a node built from the peeked token (%s) without consuming it: the cursor stays on the operand and the rest of the line is dropped or re-read' % (fn_key(b.path), '/'.join(v for v in variant if v not in ('Ok', 'Some')) or 'token'), site=s['loc'])
                    else:
                        ctx.ok('G7', '%s: Ok(node) only after consume_token()' % fn_key(b.path), 'must-pass-through', site=s['loc'])
    if n < 2:
        raise AnchorLost('expected at least two peek-then-return sites in src/syntax, found %d' % n)


STAGES = ['language_tokinizer', 'regex_tokinizer', 'alias_tokinizer', 'update_token_variables', 'dynamic_type_tokinizer', 'rule_tokinizer',
          'token_generator', 'token_cleaner', 'missing_token_adder']


def g8_stage_order(ctx):
    """G8 tokinize runs the nine stages once each, in the documented order"""
    ctx.rule('G8', 'stage order of tokinize', floor=9)
    b = ctx.facts.one(r"^tokinizer::Tokinizer::<'a>::tokinize$")
    ctx.fn(b)
    seq = []
    for bid, t in b.calls(local=True):
        name = t['callee']['path'].rsplit('::', 1)[1]
        if name in STAGES:
            seq.append((name, bid, t))
    names = [x[0] for x in seq]
    if sorted(names) != sorted(STAGES):
        ctx.finding('G8', 'tokinize/stages', 'tokinize calls %s; expected each of %s exactly once' % (names, STAGES), site=b.loc)
        return
    order = sorted(seq, key=lambda x: len(b.dominators().get(x[1], ())))
    for (a, abid, at), (c, cbid, ct) in zip(order, order[1:]):
        if not b.dominates(abid, cbid):
            ctx.finding('G8', 'tokinize/not-sequential', 'stage %s does not always run before %s' % (a, c), site=ct['loc'])
    got = [x[0] for x in order]
    for i, (g, w) in enumerate(zip(got, STAGES)):
        if g != w:
            ctx.finding('G8', 'tokinize/order/%s' % w, 'stage %d of tokinize is %s, expected %s (order is %s)' % (i + 1, g, w, got), site=order[i][2]['loc'])
        else:
            ctx.ok('G8', 'stage %d: %s' % (i + 1, g), 'dominance', site=order[i][2]['loc'], sample=i < 2)


def g9_prefix_sign(ctx):
    """G9 a detached prefix sign: `- N` is N * -1 and `+ N` is N for every literal N (tabulated on positive, negative and
    fractional literals); variables, percentages and money are wrapped in exactly one PrefixUnary of the matched operator;
    every DataItem::unary with a numeric payload negates for Minus and keeps the value for Plus"""
    from ..evalint import try_ev
    from ..common import result_alternatives
    ctx.rule('G9', 'prefix sign table', floor=8)
    b = ctx.facts.one(r'syntax::unary::UnaryParser::parse_prefix_unary$')
    ctx.fn(b)
    tadt = ctx.facts.adts['types::TokenType']
    tby = {v['discr']: v['name'] for v in tadt['variants']}
    seen = set()
    for v, inner, conds in result_alternatives(b):
        if v != 'Ok' or inner[0] != 'aggr' or inner[1].endswith('SmartCalcAstType::None'):
            continue
        kind = None
        for d, vv in conds:
            if render(d).endswith('peek_token(parser) as Ok.0)') and render(d).startswith('discr(') and not isinstance(vv, tuple) and len(vv) == 1:
                kind = tby.get(list(vv)[0])
        if kind is None:
            ctx.finding('G9', 'parse_prefix_unary/arm-not-classified', 'a result of parse_prefix_unary is not tied to one token kind: %s' % render(inner)[:80], site=b.loc)
            continue
        seen.add(kind)
        if kind == 'Number':
            val = None
            for x in walk(inner):
                if x[0] == 'aggr' and x[1].endswith('NumberItem::NumberItem'):
                    val = x[2][0]
            if val is None:
                ctx.finding('G9', 'parse_prefix_unary/Number/shape', '`<sign> N` does not build a NumberItem: %s' % render(inner)[:100], site=b.loc)
                continue
            bad = []
            for X in (5.0, -5.0, 0.25, -0.0, 1e21):
                for op in ('-', '+'):
                    def leaf(body, e, X=X, op=op):
                        e2 = strip(e, transparent=False)
                        r = render(e2)
                        if r.endswith('as Number.0') or r.endswith('as Number.#0'):
                            return X
                        if e2[0] == 'call' and e2[1].endswith('::match_operator'):
                            return {'__discr__': 1, '0': ord(op), '#0': ord(op)}
                        return None
                    got = try_ev(b, val, leaf)
                    want = -X if op == '-' else X
                    if got is None or got != want or (got == 0 and str(got) != str(want)):
                        bad.append((op, X, got, want))
            if bad:
                op, X, got, want = bad[0]
                ctx.finding('G9', 'parse_prefix_unary/Number/sign', 'a detached `%s` in front of the literal %s yields %s, expected %s (%d of 10 cells differ): the sign must negate, not be forced' % (op, X, got, want, len(bad)), site=b.loc)
            else:
                ctx.ok('G9', '`- N` = N * -1, `+ N` = N on 10 (sign, literal) cells', 'table', site=b.loc)
        else:
            wraps = [x for x in walk(inner) if x[0] == 'aggr' and x[1].endswith('SmartCalcAstType::PrefixUnary')]
            opr = render(wraps[0][2][0]) if wraps else ''
            if len(wraps) != 1:
                ctx.finding('G9', 'parse_prefix_unary/%s/wrappers' % kind, '`<sign> %s` is wrapped in %d PrefixUnary nodes: the sign is applied %d times' % (kind.lower(), len(wraps), len(wraps)), site=b.loc)
            elif 'match_operator(' not in opr:
                ctx.finding('G9', 'parse_prefix_unary/%s/operator' % kind, '`<sign> %s` carries the operator %s, not the matched sign' % (kind.lower(), opr[:60]), site=b.loc)
            else:
                ctx.ok('G9', '`<sign> %s` = PrefixUnary(sign, operand), once' % kind.lower(), 'shape', site=b.loc)
    for k in ('Number', 'Variable', 'Percent', 'Money'):
        if k not in seen:
            ctx.finding('G9', 'parse_prefix_unary/%s/missing' % k, 'a prefix sign in front of a %s is no longer handled' % k.lower(), site=b.loc)
    # DataItem::unary: numeric payload kinds negate on Minus and keep on Plus
    uadt = ctx.facts.adts.get('compiler::UnaryType')
    if not uadt:
        raise AnchorLost('enum compiler::UnaryType not found')
    ud = {v['name']: v['discr'] for v in uadt['variants']}
    for item in ('number::NumberItem', 'percent::PercentItem', 'money::MoneyItem', 'dynamic_type::DynamicTypeItem'):
        ub = ctx.facts.one(r'^<compiler::%s as compiler::DataItem>::unary$' % item.replace('::', '::'))
        ctx.fn(ub)
        name = item.rsplit('::', 1)[1]
        rows = {}
        from ..evalint import feasible_values
        for which, dsc in ud.items():
            vals = []
            for X in (3.0, -2.5):
                def leaf(body, e, X=X, dsc=dsc):
                    e2 = strip(e, transparent=False)
                    if render(e2) in ('self.0', 'self.#0'):
                        return X
                    if e2[0] == 'arg' and e2[2] == 'unary':
                        return {'__discr__': dsc}
                    return None
                got = set()
                # the result under this sign (whichever way the two arms are written: a match around the constructor, or the
                # sign applied inside its argument), then the numeric payload of the item it builds
                for _v, alt in feasible_values(ub, ub.ret_expr(), leaf):
                    for x in walk(alt):
                        if x[0] == 'aggr' and x[1].endswith('%s::%s' % (name, name)):
                            pv = [v_ for v_, _a in feasible_values(ub, x[2][0], leaf)]
                            got.update(pv if pv else [None])
                vals.append(list(got)[0] if len(got) == 1 else None)
            rows[which] = vals
        want = {'Minus': [-3.0, 2.5], 'Plus': [3.0, -2.5]}
        for which, w in want.items():
            if rows.get(which) == w:
                ctx.ok('G9', '%s::unary(%s) %s' % (name, which, 'negates' if which == 'Minus' else 'keeps the value'), 'table', site=ub.loc, sample=False)
            else:
                ctx.finding('G9', '%s::unary/%s' % (name, which), '%s::unary(%s) maps (3, -2.5) to %s, expected %s' % (name, which, rows.get(which), w), site=ub.loc)


RULES = [('G9', g9_prefix_sign), ('G1', g1_ladder), ('G2', g2_left_fold), ('G3', g3_tables), ('G4', g4_division), ('G5', g5_suffixes), ('G6', g6_implicit), ('G7', g7_cursor), ('G8', g8_stage_order)]


def _arg_in_callers(ctx, b, argi, depth):
    """alternatives of argument `argi` (1-based) of b over all its call sites: [(text, operator chars, site)]"""
    if depth >= 3:
        raise AnchorLost('%s: the scan start is passed through more than two calls' % fn_key(b.path))
    out = []
    n = 0
    for caller in ctx.facts.src_bodies():
        for bid, t in caller.calls():
            c = t.get('callee')
            if not c or c['path'] != b.path or len(t['args']) < argi:
                continue
            n += 1
            e = caller.expr(t['args'][argi - 1])
            for a, conds in alternatives(caller, e):
                sa = strip(a)
                if sa[0] == 'arg':
                    out += _arg_in_callers(ctx, caller, sa[1], depth + 1)
                else:
                    out.append((render(a), _op_chars(conds), t['loc']))
    if not n:
        raise AnchorLost('%s takes its scan start as a parameter but is never called' % fn_key(b.path))
    return out


def _scan_start_chars(ctx, b, local, at_block):
    """How the scan cursor `local` of function b is initialised before block `at_block`: list of (text of the initial value,
    set of operator characters whose test selects it, site) over all definitions outside the loop of `at_block`; a parameter
    is followed into the callers (helpers are spliced by E0b)."""
    out = []
    loop = [L for L in b.loops() if at_block in L['body']]
    inside = min(loop, key=lambda L: len(L['body']))['body'] if loop else set()
    defs = [d for d in b.defs().get(local, []) if d[0] not in inside]
    if 1 <= local <= b.argc:
        out += _arg_in_callers(ctx, b, local, 0)
    for (bid, kind, x) in defs:
        e = b.def_expr(bid, kind, x, 1, frozenset())
        conds = tuple((d, v) for (_, d, v) in b.conditions(bid))
        for a, c2 in alternatives(b, e, _conds=conds):
            sa = strip(a)
            if sa[0] == 'arg':
                out += _arg_in_callers(ctx, b, sa[1], 0)
            else:
                out.append((render(a), _op_chars(c2), x.get('loc')))
    return out


def _op_chars(conds):
    """characters c such that the conditions contain the test `token is Operator(c)` taken positively"""
    chars = set()
    for d, v in conds:
        if re.search(r'as Operator\.0$', render(d)) and not isinstance(v, tuple):
            chars |= set(chr(x) if isinstance(x, int) else x for x in v)
    return chars


def g10_table(ctx, b):
    """token_cleaner tabulated (E6c) over token lists of up to four tokens of the kinds the cleaner can tell apart: a word, a
    number, '=', '(' and '+'. Expected: every word behind the first '=' is dropped (every word when there is no '='), nothing
    else changes. Returns None when the walk cannot be done (the site rule decides then)."""
    import itertools
    from ..absint import Machine, Unknown
    from .. import absstr
    tadt = ctx.facts.adts['types::TokenType']
    dv = {v['name']: v['discr'] for v in tadt['variants']}

    def tok(kind):
        if kind == 'T':
            return {'__adt__': 'types::TokenType', '__variant__': 'Text', '__discr__': dv['Text'], '0': ('str', ['w'])}
        if kind == 'N':
            return {'__adt__': 'types::TokenType', '__variant__': 'Number', '__discr__': dv['Number'], '0': 1.0, '1': ('sym', 'number-type')}
        return {'__adt__': 'types::TokenType', '__variant__': 'Operator', '__discr__': dv['Operator'], '0': {'E': '=', 'P': '(', 'A': '+'}[kind]}

    def model(m, path, args, t):
        return absstr.std_model(m, path, args, t)
    n = 0
    bad = None
    for k in range(0, 5):
        for seq in itertools.product('TNEPA', repeat=k):
            toks = [tok(x) for x in seq]
            infos = [{'__adt__': 'tokinizer::TokenInfo', '__variant__': 'TokenInfo', 'token_type': {'__adt__': 'core::option::Option', '__variant__': 'Some', '__discr__': 1, '0': tk},
                      'start': i, 'end': i + 1} for i, tk in enumerate(toks)]
            m = Machine(b, model, max_steps=20000)
            m.env['self'] = {'__adt__': 'tokinizer::Tokinizer', '__variant__': 'Tokinizer', 'tokens': ('vec', list(toks)), 'token_infos': ('vec', infos)}
            m.env[1] = ('ptr', 'self', ())
            try:
                if m.run(0) != 'return':
                    return None
            except Unknown as ex:
                ctx.note('G10: token_cleaner could not be tabulated (%s); judged by its sites instead' % str(ex)[:140])
                return None
            out = m.env['self']['tokens']
            if not absstr.is_vec(out):
                return None
            got = ''.join({'Text': 'T', 'Number': 'N'}[x.get('__variant__')] if x.get('__variant__') in ('Text', 'Number') else {'=': 'E', '(': 'P', '+': 'A'}.get(x.get('0') if isinstance(x.get('0'), str) else None, '?') for x in out[1])
            start = seq.index('E') + 1 if 'E' in seq else 0
            want = ''.join(x for i, x in enumerate(seq) if not (x == 'T' and i >= start))
            n += 1
            if got != want and bad is None:
                names = {'T': 'word', 'N': 'number', 'E': "'='", 'P': "'('", 'A': "'+'"}
                bad = 'the token list [%s] is cleaned to [%s]; expected [%s] (words are dropped from the start of the calculation: behind the first \'=\', else from the beginning)' % (
                    ' '.join(names[x] for x in seq), ' '.join(names.get(x, x) for x in got), ' '.join(names[x] for x in want))
    return n, bad


def g10_cleaner_start(ctx):
    """G10 token_cleaner drops every Text token of the calculated part (a magnitude suffix leaves one): its scan starts at 0,
    or behind the first '=' - and behind nothing else, so a suffix in front of a parenthesis is dropped like any other"""
    ctx.rule('G10', 'token_cleaner: Text tokens are dropped from the start of the calculation', floor=2)
    b = ctx.facts.one(r"^tokinizer::Tokinizer::<'a>::token_cleaner$")
    ctx.fn(b)
    tab = g10_table(ctx, b)
    if tab is not None:
        n, bad = tab
        if bad:
            ctx.finding('G10', 'token_cleaner/table', bad, site=b.loc)
        else:
            ctx.ok('G10', 'token_cleaner over %d token lists of up to four tokens: words are dropped behind the first "=" (or everywhere), nothing else' % n, 'table', site=b.loc)
            ctx.ok('G10', 'a word in front of a parenthesis is dropped like any other', 'table', site=b.loc)
        return
    rm = [(bid, t) for bid, t in b.calls(r'Vec::<.*>::remove$') if render(b.expr(t['args'][0])).endswith('.tokens')]
    if len(rm) != 1:
        raise AnchorLost('token_cleaner: expected one removal from tokens, found %d' % len(rm))
    bid, t = rm[0]
    tadt = ctx.facts.adts['types::TokenType']
    textd = [v['discr'] for v in tadt['variants'] if v['name'] == 'Text'][0]
    conds = b.cond_text(bid)
    if any(re.search(r'discr\(.*tokens.*\)=\[%d\]' % textd, c) for c in conds):
        ctx.ok('G10', 'the removed token is a Text token', 'guard-dom', site=t['loc'])
    else:
        ctx.finding('G10', 'token_cleaner/removes', 'token_cleaner removes a token that is not tested to be Text (%s)' % conds[-2:], site=t['loc'])
    from ..facts import opplace
    p = opplace(t['args'][1])
    cur = None
    if p is not None and not p['proj']:
        ds = b.defs().get(p['local'], [])
        if len(ds) == 1 and ds[0][1] == 'stmt' and ds[0][2]['rv'] == 'use':
            q = opplace(ds[0][2]['ops'][0])
            if q and not q['proj']:
                cur = q['local']
        elif p['local'] in b.names:
            cur = p['local']
    if cur is None:
        raise AnchorLost('token_cleaner: the index of the removed token is not a cursor variable')
    inits = _scan_start_chars(ctx, b, cur, bid)
    if not inits:
        raise AnchorLost('token_cleaner: no initial value of the scan cursor found')
    for txt, chars, site in inits:
        if txt == '0' and not chars:
            ctx.ok('G10', 'scan starts at 0 when the line has no "="', 'const', site=site)
        elif chars == {'='}:
            ctx.ok('G10', 'scan starts behind the first "=" (%s)' % txt[:60], 'guard-dom', site=site)
        elif txt == '0':
            ctx.ok('G10', 'scan starts at 0', 'const', site=site)
        else:
            ctx.finding('G10', 'token_cleaner/start', 'Text tokens are only dropped from %s on, selected by the operator(s) %s: a magnitude suffix in front of it stays in the token list and ends the expression there'
                        % (txt[:80], sorted(chars) or '?'), site=site)


RULES.append(('G10', g10_cleaner_start))


def g11_suffix_claimed(ctx):
    """G11 a recognised magnitude suffix belongs to its literal. Either the Number token ends behind the suffix letter (then no
    later tokenizer sees the letter), or - where the token ends at the digits and the letter is left behind as a word - no unit
    spelling may equal that letter (unit words are compared lower-cased, so 'M' would be metres and 'G' grams)."""
    from ..evalint import feasible_values
    ctx.rule('G11', 'a magnitude suffix is not read as a word', floor=8)
    b = ctx.facts.one(r'regex_tokinizer::number::number_regex_parser$')
    ctx.fn(b)
    calls = list(b.calls(r"Tokinizer::<'a>::add_token_location$|Tokinizer::add_token_location$"))
    if len(calls) != 1:
        raise AnchorLost('number_regex_parser: expected one add_token_location call, found %d' % len(calls))
    bid, t = calls[0]
    end = b.expr(t['args'][2])

    def group_of(e):
        """name of the capture group a Match value comes from"""
        for x in walk(e):
            if x[0] == 'call' and re.search(r'Captures::<.*>::name$|Captures::name$', x[1]) and len(x[2]) == 2:
                return model.const_str(x[2][1])
        return None
    units = []
    for fam, it in ctx.config.units():
        for p in it['parse']:
            from ..data import abstract_tokens
            for tk in abstract_tokens(p):
                if tk[0] == 'field' and tk[1] == 'TEXT' and tk[3]:
                    units.append((fam, it, tk[3], p))
                elif tk[0] == 'word':
                    units.append((fam, it, tk[1], p))
    for suf in sorted(spec.SUFFIX):
        def leaf(body, e, suf=suf):
            e0 = strip(e)
            if e0[0] == 'call':
                if re.search(r'PartialEq.*::eq$', e0[1]) and len(e0[2]) == 2:
                    lits = [model.const_str(x) for x in e0[2]]
                    if any(l is not None for l in lits) and any(model.const_str(x) is None and group_of(x) == 'NOTATION' for x in e0[2]):
                        return int([l for l in lits if l is not None][0] == suf)
                if re.search(r'Match::<.*>::end$|Match::end$', e0[1]):
                    return 'end:%s' % group_of(e0)
            if e0[0] == 'discr':
                x = strip(e0[1])
                if x[0] == 'call' and re.search(r'Captures::<.*>::name$|Captures::name$', x[1]):
                    g = model.const_str(x[2][1]) if len(x[2]) == 2 else None
                    return {'NOTATION': 1, 'DECIMAL': 1}.get(g, 0)
                if x[0] == 'call' and re.search(r'::parse$|FromStr', x[1]):
                    return 0
            return None
        vals = set()
        for v, a in feasible_values(b, end, leaf):
            vals.add(v if isinstance(v, str) else 'end:?')
        if vals == {'end:NOTATION'}:
            ctx.ok('G11', 'suffix %r: the Number token ends behind the suffix' % suf, 'table', site=t['loc'])
            continue
        hits = [(fam, it, w, p) for fam, it, w, p in units if w.lower() == suf.lower()]
        if not hits:
            ctx.ok('G11', 'suffix %r is left behind as a word (token end: %s) and no unit is spelled like it' % (suf, '/'.join(sorted(vals))), 'data', site=t['loc'])
        for fam, it, w, p in hits:
            ctx.finding('G11', 'suffix/%s/%s/%s' % (suf, fam, w), "the Number token of 'N%s' ends at the digits (token end: %s) and the suffix letter is left behind as a word, which the unit pattern %r (%s) reads case-insensitively: '3%s' is %s, not 3 x %g, and '2 * 3%s' has no value"
                        % (suf, '/'.join(sorted(vals)), p, fam, suf, it['names'][0], spec.SUFFIX[suf], suf), site='src/json/config.json types.%s[%d].parse' % (fam, it['index']))


RULES.append(('G11', g11_suffix_claimed))


def g12_lexical(ctx):
    """G12 decimal literals of every separator convention are number tokens (E7b lexical competition model: month stage, regex families in TOKEN_REGEX_PARSER order with first-claim-wins,
    alias stage; samples generated from the configuration)"""
    from ..lexrules import run_samples, number_samples, based_samples, money_samples, unit_samples, month_samples, zone_samples, duration_samples, percent_samples, keyword_samples
    ctx.rule('G12', 'decimal literals of every separator convention are number tokens', floor=80)
    run_samples(ctx, 'G12', number_samples())


RULES.append(('G12', g12_lexical))


def g13_stateless(ctx):
    """G13 literal readers carry no state from one capture of the line to the next (shared rule, scv/common.py)"""
    from ..common import reader_stateless
    reader_stateless(ctx, 'G13', ('Number',))


RULES.append(('G13', g13_stateless))
