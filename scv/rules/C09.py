"""C09 - Dates are read as calendar dates and date arithmetic is calendar arithmetic.

D1 month / year steps of DateItem::calculate, tabulated over the finite domain month 1..12 x count 1..12 (E6b) and
   compared with calendar arithmetic: (year, month) -> (year + (month-1 +/- n) div 12, (month-1 +/- n) mod 12 + 1),
   day unchanged; year step: year +/- n, month and day unchanged. Findings are keyed by failure class
   (invalid month / wrong year / wrong month) so that a new class is a new violation.
D2 small_date builds its date with the checked constructor from the fields named year / month / day, None is rejected;
   the default year is the current year; date patterns bind day and month with accepted types.
D3 'A to B' is |A - B| on the stored values, both for dates and for times (decision table; no projection in between).
D4 today / tomorrow / yesterday are today + 0 / +1 / -1 days.
D5 every literal parser scans *all* matches of its regexes (a month or number occurring twice is found twice).
D6 month numbers: the month table is indexed by month-1, entries carry index+1, the parser emits that number.
D7 duration split: years = |seconds| / YEAR, months = |seconds| / MONTH, each step removes exactly n * unit;
   the remainder is applied with the operator of the operation (+ for Add, - for Sub).
Not decided: leap days, day-of-month overflow (31 Jan + 1 month), 30-day months vs calendar months for counts given in days.
"""
import re

from ..facts import render, strip, walk, fn_key, AnchorLost, alternatives, cond_str
from ..common import result_alternatives, pattern_field_check
from ..evalint import try_ev
from .. import model

CALC = r'^<compiler::date::DateItem as compiler::DataItem>::calculate$'


DAY_SECS = 60 * 60 * 24
MONTH_SECS = DAY_SECS * 30
YEAR_SECS = DAY_SECS * 365


def _leaf_factory(Y, M, D, S, op_discr, op_arg):
    """leaf assignment of one table cell: the receiver's date is (Y, M, D), the other operand is a duration of S seconds, the
    operation is the variant with discriminant op_discr. Dates are {y, m, d}, durations {secs}; `date +/- duration` yields
    the date with the direction and the seconds still applied (that last step is chrono's, outside the table)."""
    from ..evalint import ev, Unknown

    def leaf(body, e):
        e2 = strip(e, transparent=False)
        k = e2[0]
        if k == 'arg' and e2[1] == op_arg:
            return {'__discr__': op_discr}
        if k == 'aggr' and e2[1].endswith('Option::None'):
            return 'NONE'
        if k == 'aggr' and e2[1].endswith('DateItem::DateItem'):
            return ev(body, e2[2][0], leaf)
        if k == 'call':
            p = e2[1]
            if p.endswith('::from_residual'):
                return 'NONE'
            if re.search(r'Rc::<.*>::new$|Rc::new$', p):
                return ev(body, e2[2][0], leaf)
            if p.endswith('::get_duration'):
                return {'secs': S}
            if re.search(r'(TimeDelta|Duration)::num_seconds$', p):
                d = ev(body, e2[2][0], leaf)
                if isinstance(d, dict) and 'secs' in d:
                    return d['secs']
                raise Unknown('num_seconds of a non-duration')
            if re.search(r'(TimeDelta|Duration)::seconds$', p):
                n = ev(body, e2[2][0], leaf)
                if isinstance(n, int):
                    return {'secs': n}
                raise Unknown('seconds(non-int)')
            if re.search(r'Datelike>?::(year|month|day)$', p):
                d = ev(body, e2[2][0], leaf)
                if isinstance(d, dict) and 'panic' in d:
                    return d
                if isinstance(d, dict) and 'y' in d:
                    if not _valid(d):
                        return {'panic': 'NaiveDate::from_ymd(%s, %s, %s) is not a calendar date' % (d['y'], d['m'], d['d'])}
                    return d[p.rsplit('::', 1)[1][0]]
                raise Unknown('component of a non-date')
            if re.search(r'NaiveDate::(pred|succ)(_opt)?$', p):
                d = ev(body, e2[2][0], leaf)
                if isinstance(d, dict) and 'panic' in d:
                    return d
                if isinstance(d, dict) and 'y' in d and 'dir' not in d:
                    if not _valid(d):
                        return {'panic': 'NaiveDate::from_ymd(%s, %s, %s) is not a calendar date' % (d['y'], d['m'], d['d'])}
                    import datetime
                    x = datetime.date(d['y'], d['m'], d['d']) + datetime.timedelta(days=-1 if 'pred' in p else 1)
                    return {'y': x.year, 'm': x.month, 'd': x.day}
                raise Unknown('pred / succ of a non-date')
            mm_ = re.search(r'cmp::(?:Ord>?::)?(min|max)$', p)
            if mm_ and len(e2[2]) == 2:
                x, y_ = ev(body, e2[2][0], leaf), ev(body, e2[2][1], leaf)
                for v_ in (x, y_):
                    if isinstance(v_, dict) and 'panic' in v_:
                        return v_
                if isinstance(x, int) and isinstance(y_, int):
                    return min(x, y_) if mm_.group(1) == 'min' else max(x, y_)
                raise Unknown('min / max of non-integers')
            if re.search(r'NaiveDate::from_ymd(_opt)?$', p):
                y, m, d = (ev(body, a, leaf) for a in e2[2])
                for v_ in (y, m, d):
                    if isinstance(v_, dict) and 'panic' in v_:
                        return v_
                return {'y': y, 'm': m, 'd': d}
            m = re.search(r'NaiveDate as .*(Add|Sub)<.*(Duration|TimeDelta)>>::(add|sub)$', p)
            if m:
                d = ev(body, e2[2][0], leaf)
                if isinstance(d, dict) and 'panic' in d:
                    return d
                r = ev(body, e2[2][1], leaf)
                if isinstance(d, dict) and 'y' in d and isinstance(r, dict) and 'secs' in r:
                    return dict(d, dir=m.group(3), rest=r['secs'])
                raise Unknown('date +/- duration operands')
        if k == 'field' and e2[2] in ('0', '#0') and strip(e2[1])[0] == 'arg' and strip(e2[1])[1] == 1:
            return {'y': Y, 'm': M, 'd': D}
        return None
    return leaf


def _valid(d):
    import datetime
    try:
        datetime.date(d['y'], d['m'], d['d'])
        return True
    except (ValueError, TypeError):
        return False


_TABLE = {}


def calc_cell(ctx, op, M, S, D=15, Y=2021):
    """evaluated result of DateItem::calculate for one cell, or None when the term is not evaluable / not unique"""
    from ..evalint import feasible_values
    key = (id(ctx.facts), op, M, S, D, Y)
    if key in _TABLE:
        return _TABLE[key]
    b = ctx.facts.one(CALC)
    if b.loops():
        raise AnchorLost('DateItem::calculate contains a loop: its result is no longer a term')
    if b.argc != 5:
        raise AnchorLost('DateItem::calculate no longer has the DataItem::calculate signature')
    adt = ctx.facts.adts.get('compiler::OperationType')
    if not adt:
        raise AnchorLost('enum compiler::OperationType not found')
    discr = {v['name']: v['discr'] for v in adt['variants']}
    leaf = _leaf_factory(Y, M, D, S, discr[op], 5)
    vals = [v for v, _ in feasible_values(b, b.ret_expr(), leaf)]
    pan = [v for v in vals if isinstance(v, dict) and 'panic' in v]
    if pan:
        _TABLE[key] = pan[0]
        return pan[0]
    dates = []
    for v in vals:
        if isinstance(v, dict) and v not in dates:
            dates.append(v)
    res = None
    if len(dates) == 1 and not any(v is None for v in vals) and all(isinstance(dates[0].get(k), int) for k in ('y', 'm', 'd', 'rest')):
        res = dates[0]
    _TABLE[key] = res
    return res


def d1_steps(ctx):
    """D1 month and year steps are calendar arithmetic: the date that DateItem::calculate hands to the final `+ / - rest` is
    tabulated for Add / Sub x year / month step x 12 start months x 12 counts, wherever and however the steps are written"""
    ctx.rule('D1', 'month / year step tables of DateItem::calculate', floor=4)
    b = ctx.facts.one(CALC)
    ctx.fn(b)
    Y = 2021
    for op in ('Add', 'Sub'):
        sign = 1 if op == 'Add' else -1
        for step in ('year', 'month'):
            classes = {}
            n_ok = 0
            cells = 0
            deep = ctx.tier == 'thorough' and ctx.cfg_name == 'dev'
            cells_ = [(2021, M_, n_, D_) for D_ in ((1, 15, 28, 29, 30, 31) if deep else (15, 31)) for M_ in range(1, 13) for n_ in range(1, 25 if (deep and step == 'year') else 13)]
            # leap days: steps that start or arrive on 29 February, also of a year divisible by 400
            if step == 'year':
                cells_ += [(1996, 2, 4, 29), (1996, 2, 8, 29), (2004, 2, 4, 29), (2008, 2, 8, 29), (1600, 2, 400, 29)] if op == 'Add' else [(2004, 2, 4, 29), (2008, 2, 8, 29), (2012, 2, 12, 29)]
            else:
                cells_ += [(2000, 1, 1, 29), (1999, 12, 2, 29), (2004, 1, 1, 29)] if op == 'Add' else [(2000, 3, 1, 29), (2000, 4, 2, 29), (2004, 3, 1, 29)]
            for Y, M, n, D in cells_:
                if True:
                    if step == 'year':
                        want = (Y + sign * n, M, D)
                    else:
                        tot = M - 1 + sign * n
                        want = (Y + tot // 12, tot % 12 + 1, D)
                    if (D != 15 or Y != 2021) and not (_valid({'y': Y, 'm': M, 'd': D}) and _valid({'y': want[0], 'm': want[1], 'd': want[2]})):
                        continue          # the day does not exist in the start or the target month: the statement says nothing (C01-g)
                    S = n * (YEAR_SECS if step == 'year' else MONTH_SECS) + 3 * DAY_SECS
                    r = calc_cell(ctx, op, M, S, D, Y)
                    cells += 1
                    if r is None:
                        classes.setdefault('not-extractable' if D == 15 else 'not-extractable-day-%d' % D, []).append((M, n, None))
                        continue
                    if 'panic' in r:
                        classes.setdefault('panics', []).append((M, n, (r['panic'], D, '')))
                        continue
                    got = (r['y'], r['m'], r['d'])
                    if got == want:
                        n_ok += 1
                    elif not (1 <= got[1] <= 12):
                        classes.setdefault('invalid-month', []).append((M, n, got))
                    elif got[0] != want[0]:
                        classes.setdefault('wrong-year', []).append((M, n, got, want))
                    elif got[1] != want[1]:
                        classes.setdefault('wrong-month', []).append((M, n, got, want))
                    else:
                        classes.setdefault('wrong-day', []).append((M, n, got, want))
            ctx.analysed('D1', '%s/%s step: %d cells (month x count), %d agree with calendar arithmetic' % (op, step, cells, n_ok))
            if not classes:
                ctx.ok('D1', '%s %s step = calendar arithmetic on all %d (month, count) cells' % (op, step, cells), 'table', site=b.loc)
            elif n_ok:
                ctx.ok('D1', '%s %s step = calendar arithmetic on %d of %d cells (the others are findings)' % (op, step, n_ok, cells), 'table', site=b.loc)
            for cls, rows in sorted(classes.items()):
                M, n, got = rows[0][:3]
                if got is None:
                    ctx.finding('D1', 'DateItem::calculate/%s/%s-step/%s' % (op, step, cls),
                                'DateItem::calculate, %s, %s step: the date handed to the final +/- cannot be evaluated for month %d, count %d (%d of %d cells)' % (op, step, M, n, len(rows), cells), site=b.loc)
                    continue
                if cls == 'panics':
                    ctx.finding('D1', 'DateItem::calculate/%s/%s-step/panics' % (op, step),
                                'DateItem::calculate, %s, %s step: day %d of month %d %s %d %ss unwinds (%s) in %d of %d cells; the target date exists' % (op, step, got[1], M, '+' if sign > 0 else '-', n, step, got[0], len(rows), cells), site=b.loc)
                    continue
                ex = 'month %d %s %d %ss -> (year %s, month %s, day %s)' % (M, '+' if sign > 0 else '-', n, step, got[0], got[1], got[2])
                if len(rows[0]) > 3:
                    ex += ', calendar arithmetic gives (%d, %d, %d)' % rows[0][3]
                ctx.finding('D1', 'DateItem::calculate/%s/%s-step/%s' % (op, step, cls),
                            'DateItem::calculate, %s, %s step: %s in %d of %d (month, count) cells, e.g. %s' % (op, step, cls.replace('-', ' '), len(rows), cells, ex), site=b.loc)
    # checked construction: the panicking constructor with computed arguments
    for bid, t in b.calls(r'NaiveDate::from_ymd$'):
        ctx.note('D1: a step rebuilds the date with the panicking NaiveDate::from_ymd (day-of-month overflow such as 31 Jan + 1 month and the invalid-month cells panic: C01-g)')
        break


def d2_small_date(ctx):
    """D2 spelled / numeric dates are built by the checked constructor from the same-named fields"""
    ctx.rule('D2', 'small_date wiring', floor=12)
    b = ctx.facts.one(r'rules::date_rules::small_date$')
    ctx.fn(b)
    ctors = list(b.calls(r'NaiveDate::from_ymd(_opt)?$'))
    if len(ctors) != 1:
        raise AnchorLost('small_date: expected one date constructor, found %d' % len(ctors))
    bid, t = ctors[0]
    if not t['callee']['path'].endswith('from_ymd_opt'):
        ctx.finding('D2', 'small_date/unchecked-constructor', 'small_date builds its date with %s: impossible dates are not rejected' % t['callee']['path'].rsplit('::', 1)[1], site=t['loc'])
    else:
        ctx.ok('D2', 'small_date uses NaiveDate::from_ymd_opt', 'shape', site=t['loc'])
    y, m, d = (b.expr(a) for a in t['args'])
    ys = sorted(set(render(a) for a, _ in alternatives(b, strip(y)[3] if strip(y)[0] == 'cast' else y)) | ({render(y)} if strip(y)[0] != 'phi' else set()))
    yalts = sorted(set(render(a) for a, _ in alternatives(b, y)))
    want_y = [r'\(tools::get_number\("year", fields\) as Some\.0 as i32\)', r'year\((DateTime::date|DateTime::date_naive|Date::naive_utc)\(Utc::(now|today)\(\)\)\)|year\(Utc::today\(\)\)']
    unknown = [a for a in yalts if not any(re.fullmatch(w, a) for w in want_y)]
    if not unknown and len(yalts) == 2:
        ctx.ok('D2', 'year = the field "year" as written, or the current year', 'wiring', site=t['loc'])
    else:
        ctx.finding('D2', 'small_date/year', 'the year of a date is %s; expected the field "year" exactly as written (a printed year must read back as itself) or, without it, the current year' % (unknown or yalts)[0][:120], site=t['loc'])
    mr = render(m)
    if re.fullmatch(r'tools::get_number_or_month\("month", fields\) as Some\.0', mr):
        ctx.ok('D2', 'month = field "month"', 'wiring', site=t['loc'])
    else:
        ctx.finding('D2', 'small_date/month', 'the month of a date is %s; expected the field "month"' % mr[:120], site=t['loc'])
    dr = render(d)
    if re.fullmatch(r'\(tools::get_number\("day", fields\) as Some\.0 as u32\)', dr):
        ctx.ok('D2', 'day = field "day"', 'wiring', site=t['loc'])
    else:
        ctx.finding('D2', 'small_date/day', 'the day of a date is %s; expected the field "day"' % dr[:120], site=t['loc'])
    # None is rejected, Some is returned unchanged
    oks = [(inner, conds) for v, inner, conds in result_alternatives(b) if v == 'Ok']
    if len(oks) != 1:
        ctx.finding('D2', 'small_date/ok-arms', 'small_date has %d Ok results, expected one' % len(oks), site=b.loc)
    else:
        inner, conds = oks[0]
        val = render(inner[2][0]) if inner[0] == 'aggr' and inner[1].endswith('TokenType::Date') else render(inner)
        cs = [cond_str(dd, vv) for dd, vv in conds]
        if re.fullmatch(r'NaiveDate::from_ymd_opt\(.*\) as Some\.0', val) and any(c.startswith('discr(NaiveDate::from_ymd_opt(') and c.endswith('=[1]') for c in cs):
            ctx.ok('D2', 'the date is the Some payload of the constructor; None is an error', 'gamma', site=b.loc)
        else:
            ctx.finding('D2', 'small_date/result', 'small_date returns %s under %s' % (val[:80], cs[-1:] ), site=b.loc)
    # get_number_or_month: number first, else the Month token's number
    g = ctx.facts.one(r'^tokinizer::tools::get_number_or_month$')
    ctx.fn(g)
    r = render(g.ret_expr())
    if 'get_number(field_name, fields)' in r and 'get_month(field_name, fields)' in r:
        ctx.ok('D2', 'get_number_or_month = number, else month token', 'shape', site=g.loc)
    else:
        ctx.finding('D2', 'get_number_or_month/shape', 'get_number_or_month returns %s' % r[:100], site=g.loc)
    pattern_field_check(ctx, 'D2', 'small_date')
    # every date pattern names a month field and a day field; month-word patterns use {MONTH:..}
    pats = model.date_patterns(ctx)
    for lang, lst in sorted(pats.items()):
        for p in lst:
            from ..data import fields_of
            fl = fields_of(p)
            if 'day' in fl and 'month' in fl:
                ctx.ok('D2', 'date pattern %r (%s) binds day and month' % (p, lang), 'data', sample=False)
            else:
                ctx.finding('D2', 'pattern/%s/%s' % (lang, p), 'date pattern %r (%s) does not bind both day and month' % (p, lang), site='SmartCalc::default')


def d3_difference(ctx, rid='D3'):
    """D3 'A to B' = |A - B| on the stored values"""
    ctx.rule(rid, 'absolute, symmetric difference', floor=4)
    b = ctx.facts.one(r'rules::duration_rules::to_duration$')
    ctx.fn(b)
    seen = set()
    for v, inner, conds in result_alternatives(b):
        if v != 'Ok':
            continue
        if inner[0] != 'aggr' or not inner[1].endswith('TokenType::Duration'):
            ctx.finding(rid, 'to_duration/result-kind', "'A to B' yields %s" % render(inner)[:60], site=b.loc)
            continue
        for a, c2 in alternatives(b, inner[2][0], _conds=conds):
            a = strip(a)
            if a[0] != 'call' or not re.search(r'ops::(arith::)?Sub.*>::sub$|::sub$', a[1]):
                ctx.finding(rid, 'to_duration/not-a-difference', "'A to B' computes %s" % render(a)[:100], site=b.loc)
                continue
            l, r = render(a[2][0]), render(a[2][1])
            m1 = re.fullmatch(r'tools::(get_time|get_date)\("(source|target)", fields\) as Some\.0\.#?0', l)
            m2 = re.fullmatch(r'tools::(get_time|get_date)\("(source|target)", fields\) as Some\.0\.#?0', r)
            if not m1 or not m2 or m1.group(1) != m2.group(1) or m1.group(2) == m2.group(2):
                ctx.finding(rid, 'to_duration/operands', "'A to B' subtracts %s from %s; expected the two stored %s values themselves" % (r[:70], l[:70], 'date/time'), site=b.loc)
                continue
            kind = m1.group(1)
            gt = [cond_str(d, vv) for d, vv in c2 if 'PartialOrd' in render(d) or re.search(r' (Gt|Lt|Ge|Le) ', render(d))]
            # any comparison that implies l >= r on this branch
            implied = []
            for fn, a1, a2, truth in (('gt', l, r, True), ('ge', l, r, True), ('lt', r, l, True), ('le', r, l, True),
                                      ('gt', r, l, False), ('ge', r, l, False), ('lt', l, r, False), ('le', l, r, False)):
                implied.append('PartialOrd::%s(%s, %s)%s' % (fn, a1, a2, '!=[0]' if truth else '=[0]'))
                implied.append('(%s %s %s)%s' % (a1, fn.capitalize(), a2, '!=[0]' if truth else '=[0]'))
            if any(g in implied for g in gt):
                seen.add((kind, m1.group(2)))
                ctx.ok(rid, '%s: %s - %s when it is the larger' % (kind, m1.group(2), m2.group(2)), 'gamma', site=b.loc)
            else:
                ctx.finding(rid, 'to_duration/%s/guard' % kind, "'A to B' computes %s - %s under %s: not the absolute difference" % (m1.group(2), m2.group(2), gt), site=b.loc)
    for kind in ('get_time', 'get_date'):
        for first in ('source', 'target'):
            if (kind, first) not in seen:
                ctx.finding(rid, 'to_duration/%s/missing-%s-minus' % (kind, first), "'A to B' (%s) has no branch computing %s minus the other: the difference is not symmetric" % (kind[4:], first), site=b.loc)


def d4_day_constants(ctx):
    """D4 today / tomorrow / yesterday"""
    ctx.rule('D4', 'day keyword constants', floor=3)
    b = ctx.facts.one(r'regex_tokinizer::text::text_regex_parser$')
    ctx.fn(b)
    adt = ctx.facts.adts.get('constants::ConstantType')
    if not adt:
        raise AnchorLost('enum ConstantType not found')
    by = {v['discr']: v['name'] for v in adt['variants']}
    want = {'Today': 0, 'Tomorrow': 1, 'Yesterday': -1}
    got = {}
    for i in b.normal_blocks:
        for s in b.blocks[i]['stmts']:
            if s['k'] == 'assign' and s['rv'] == 'aggr' and s['adt'].endswith('TokenType::Date'):
                e = strip(b.expr(s['ops'][0]))
                name = None
                for (_, d, v) in b.conditions(i):
                    if strip(d)[0] == 'discr' and 'constant' in render(b.sexpr(b.blocks[_]['term']['discr']) if b.blocks[_]['term']['k'] == 'switch' else d) and not isinstance(v, tuple) and len(v) == 1:
                        name = by.get(list(v)[0], name)
                r = render(e)
                off = None
                if r == 'Date::naive_utc(Utc::today())':
                    off = 0
                else:
                    m = re.fullmatch(r'(add|sub)\(Date::naive_utc\(Utc::today\(\)\), TimeDelta::days\((-?\d+)\)\)', r)
                    if m:
                        off = int(m.group(2)) * (1 if m.group(1) == 'add' else -1)
                got[name] = (off, r, s['loc'])
    for name, w in sorted(want.items()):
        if name not in got:
            ctx.finding('D4', '%s/missing' % name, 'the text parser builds no date for ConstantType::%s' % name, site=b.loc)
        elif got[name][0] != w:
            ctx.finding('D4', '%s/offset' % name, '%s is %s; expected today %+d days' % (name, got[name][1][:80], w), site=got[name][2])
        else:
            ctx.ok('D4', '%s = today %+d days' % (name, w), 'gamma', site=got[name][2])
    # the keyword table maps these kinds
    for lang, L in sorted(ctx.config.languages.items()):
        kinds = set(L.get('constant_pair', {}).values())
        names = {v['name']: v['discr'] for v in adt['variants']}
        for nm in want:
            if names.get(nm) not in kinds:
                ctx.finding('D4', 'data/%s/%s' % (lang, nm), 'language %s configures no word for %s' % (lang, nm), site='config.json languages.%s.constant_pair' % lang)


def d5_all_matches(ctx):
    """D5 every literal parser iterates over all matches"""
    ctx.rule('D5', 'literal parsers scan every occurrence', floor=12)
    fns = [f for _, f in model.regex_parsers(ctx)] + list(model.language_parsers(ctx))
    for f in fns:
        b = ctx.facts.body(f)
        ctx.fn(b)
        bodies = [b] + [ctx.facts.bodies[y] for (y, k) in ctx.cg.edges.get(b.path, ()) if k == 'direct' and y.startswith('tokinizer::regex_tokinizer::') and y in ctx.facts.bodies]
        # closures of these bodies (an iterator chain `flat_map(|re| re.captures_iter(line))` does the scan in a closure)
        for _ in range(3):
            have = {x.path for x in bodies}
            bodies += [c for c in ctx.facts.bodies.values() if c.kind == 'closure' and c.rec.get('parent') in have and c.path not in have]
        scans = []
        for bb in bodies:
            scans += [(bb, t) for _, t in bb.calls(r'^regex::(regex::string::)?Regex::(captures_iter|find_iter|captures|find|captures_at|find_at|shortest_match|is_match)$')]
        if not scans:
            ctx.finding('D5', '%s/no-scan' % fn_key(f), '%s no longer scans the line with its regexes' % fn_key(f), site=b.loc)
            continue
        for bb, t in scans:
            m = t['callee']['path'].rsplit('::', 1)[1]
            if m in ('captures_iter', 'find_iter'):
                ctx.ok('D5', '%s: %s (all occurrences)' % (fn_key(f), m), 'shape', site=t['loc'], sample=False)
            else:
                ctx.finding('D5', '%s/single-match/%s' % (fn_key(f), m), '%s uses Regex::%s: only the first occurrence on a line becomes a token (a second date, number or zone on the same line is lost)' % (fn_key(f), m), site=t['loc'])


def d6_month_numbers(ctx):
    """D6 month numbering of the month table"""
    ctx.rule('D6', 'month table numbering', floor=4)
    lj = ctx.facts.one(r'^config::SmartCalcConfig::load_from_json$')
    ctx.fn(lj)
    # MonthInfo{short, long, month: i + 1}
    ok = 0
    for i in lj.normal_blocks:
        for s in lj.blocks[i]['stmts']:
            if s['k'] == 'assign' and s['rv'] == 'aggr' and s.get('adt', '').endswith('constants::MonthInfo::MonthInfo'):
                e = dict(zip(s['fields'], s['ops']))
                r = render(lj.mexpr(e['month']))
                if re.search(r'AddWithOverflow 1\)\.#?0$|Add 1\)$', r):
                    ok += 1
                    ctx.ok('D6', 'month table entry carries index + 1', 'shape', site=s['loc'])
                else:
                    ctx.finding('D6', 'month-table/number', 'a month table entry is numbered %s; expected its index + 1' % r[:60], site=s['loc'])
    if not ok:
        # iterator form: (1..=12).map(|month| MonthInfo { .., month }).collect(): the k-th element (index k - 1) carries k
        for cpath, agg in model._closure_sites(ctx.facts, lj).items():
            cb = ctx.facts.bodies.get(cpath)
            if cb is None:
                continue
            for i in cb.normal_blocks:
                for s in cb.blocks[i]['stmts']:
                    if s['k'] == 'assign' and s['rv'] == 'aggr' and s.get('adt', '').endswith('constants::MonthInfo::MonthInfo'):
                        e = dict(zip(s['fields'], s['ops']))
                        me = strip(cb.expr(e['month']))
                        src = None
                        for bid, t in lj.calls(r'Iterator>?::map$'):
                            if len(t['args']) == 2 and cpath in render(lj.expr(t['args'][1])):
                                src = render(lj.expr(t['args'][0]))
                        if me[0] == 'arg' and me[1] == 2 and src and re.fullmatch(r'RangeInclusive::new\(1, 12\)|core::ops::Range::Range\{1, 13\}|core::ops::range::Range::Range\{1, 13\}', src):
                            ok += 1
                            ctx.ok('D6', 'month table entry k of (1..=12).map(..) carries k (its index + 1)', 'shape', site=s['loc'])
                        else:
                            ctx.finding('D6', 'month-table/number', 'a month table entry is numbered %s over %s; expected its index + 1' % (render(me)[:60], src), site=s['loc'])
                            ok += 1
    if not ok:
        raise AnchorLost('load_from_json: MonthInfo construction not found')
    n = 0
    for bid, t in lj.calls(r'(Vec|slice)(::<.*>)?::get_mut$|slice::<impl \[T\]>::get_mut$'):
        r = render(lj.mexpr(t['args'][1]))
        if 'month_list' not in render(lj.sexpr(t['args'][0])) and 'month_list' not in render(lj.mexpr(t['args'][0])):
            continue
        n += 1
        if re.search(r'SubWithOverflow 1\)\.#?0 as usize\)$|Sub 1\) as usize\)$', r):
            ctx.ok('D6', 'month names are stored at index number - 1', 'shape', site=t['loc'], sample=False)
        else:
            ctx.finding('D6', 'month-table/index', 'a month name is stored at index %s; expected its number - 1' % r[:60], site=t['loc'])
    if n < 2:
        raise AnchorLost('load_from_json: expected the long- and short-name placements into month_list, found %d' % n)
    mp = ctx.facts.one(r'regex_tokinizer::month::month_parser$')
    ctx.fn(mp)
    toks = [s for i in mp.normal_blocks for s in mp.blocks[i]['stmts'] if s['k'] == 'assign' and s['rv'] == 'aggr' and s['adt'] == 'types::TokenType::Month']
    if len(toks) != 1:
        raise AnchorLost('month_parser: expected one TokenType::Month construction')
    r = render(mp.expr(toks[0]['ops'][0]))
    if re.search(r'\.month as u32\)$', r):
        ctx.ok('D6', 'month_parser emits Month(entry.month)', 'wiring', site=toks[0]['loc'])
    else:
        ctx.finding('D6', 'month_parser/number', 'month_parser emits Month(%s)' % r[-60:], site=toks[0]['loc'])
    gm = ctx.facts.one(r'^formatter::get_month_info$')
    ctx.fn(gm)
    r = render(gm.ret_expr())
    if re.search(r'month SubWithOverflow 1\)\.#?0 as usize\)', r) or re.search(r'\(month Sub 1\) as usize\)', r):
        ctx.ok('D6', 'get_month_info looks up index month - 1', 'shape', site=gm.loc)
    else:
        ctx.finding('D6', 'get_month_info/index', 'month names are printed from index %s' % r[:100], site=gm.loc)


def d7_split(ctx):
    """D7 duration split: a duration of a years (365 d) + b months (30 d) + r days moves the year by a, the month by b, and
    leaves exactly r days to the final `date + rest` (Add) / `date - rest` (Sub); the constants are 365 and 30 days.
    Decided on the evaluated result term (the same table as D1), so helper names and statement order do not matter."""
    ctx.rule('D7', 'duration split and remainder operator', floor=8)
    F = ctx.facts
    consts = {k.rsplit('::', 1)[1]: v.get('val') for k, v in F.consts.items() if k.startswith('formatter::')}
    for unit in ('YEAR', 'MONTH'):
        if consts.get(unit) is None:              # moved next to the type it belongs to: the one constant of that name
            cands = [v.get('val') for k, v in F.consts.items() if k.rsplit('::', 1)[-1] == unit]
            if len(cands) == 1:
                consts[unit] = cands[0]
    for unit, want in (('YEAR', YEAR_SECS), ('MONTH', MONTH_SECS)):
        if consts.get(unit) is None:
            raise AnchorLost('constant formatter::%s not found' % unit)
        if consts[unit] == want:
            ctx.ok('D7', 'formatter::%s = %d s' % (unit, want), 'data')
        else:
            ctx.finding('D7', 'constant/%s' % unit, 'formatter::%s is %s seconds; the split uses %d-day %ss' % (unit, consts[unit], want // DAY_SECS, unit.lower()), site='src/formatter/mod.rs')
    b = F.one(CALC)
    ctx.fn(b)
    Y, D = 2021, 15
    for op in ('Add', 'Sub'):
        sign = 1 if op == 'Add' else -1
        bad = {}
        cells = 0
        for (a_, b_, r_) in ((0, 0, 5), (1, 0, 0), (0, 1, 0), (2, 3, 7), (1, 5, 29), (3, 0, 20), (0, 11, 20), (10, 2, 0), (0, 0, 29)):
            S = a_ * YEAR_SECS + b_ * MONTH_SECS + r_ * DAY_SECS
            # the split is greedy: years first, then months of what is left
            ea = S // YEAR_SECS
            eb = (S - ea * YEAR_SECS) // MONTH_SECS
            er = S - ea * YEAR_SECS - eb * MONTH_SECS
            M = 6
            r = calc_cell(ctx, op, M, S)
            cells += 1
            if r is None:
                bad.setdefault('not-extractable', []).append((S, None))
                continue
            tot = M - 1 + sign * eb
            want_date = (Y + sign * ea + tot // 12, tot % 12 + 1, D)
            if r.get('dir') != ('add' if op == 'Add' else 'sub'):
                bad.setdefault('remainder-operator', []).append((S, r))
            if r['rest'] != er:
                bad.setdefault('%s-remainder' % ('year' if eb == 0 and ea else 'month'), []).append((S, r))
            if (r['y'], r['m'], r['d']) != want_date and 1 <= want_date[1] <= 12 and not (op == 'Sub' and tot < 0) and r['rest'] == er:
                bad.setdefault('split', []).append((S, r, want_date))
        ctx.analysed('D7', '%s: %d durations (years, months, days mixes) evaluated' % (op, cells))
        for cls, rows in sorted(bad.items()):
            S, r = rows[0][:2]
            if cls == 'not-extractable':
                ctx.finding('D7', 'DateItem::calculate/%s/not-extractable' % op, 'DateItem::calculate(%s): the result term cannot be evaluated for a duration of %d s' % (op, S), site=b.loc)
            elif cls == 'remainder-operator':
                ctx.finding('D7', 'DateItem::calculate/%s/remainder-operator' % op, 'the remaining days are applied with `%s` under %s' % (r.get('dir'), op), site=b.loc)
            elif cls == 'split':
                ctx.finding('D7', 'DateItem::calculate/%s/split' % op, 'a duration of %d s (= %d y %d m) moves the date to %s; whole 365-day years then whole 30-day months give %s' % (
                    S, S // YEAR_SECS, (S % YEAR_SECS) // MONTH_SECS, (r['y'], r['m'], r['d']), rows[0][2]), site=b.loc)
            else:
                ctx.finding('D7', 'DateItem::calculate/%s/%s' % (op, cls), 'after the year / month steps of a %d s duration %d s are left for the final %s; expected %d s (seconds - YEAR * years - MONTH * months)' % (
                    S, r['rest'], '+' if sign > 0 else '-', S % YEAR_SECS % MONTH_SECS), site=b.loc)
        if not bad:
            for what in ('years = |s| / YEAR, months = |rest| / MONTH', 'the remainder loses exactly the whole years and months', 'the remainder is applied with %s' % ('+' if sign > 0 else '-')):
                ctx.ok('D7', '%s: %s (%d durations)' % (op, what, cells), 'table', site=b.loc)


def d8_month_spellings(ctx):
    """D8 every configured month spelling of every language is recognised by the month regexes built at load time
    (shared with C19 L2)"""
    from .C19 import l2_month_spellings
    l2_month_spellings(ctx)


RULES = [('L2', d8_month_spellings), ('D1', d1_steps), ('D2', d2_small_date), ('D3', d3_difference), ('D4', d4_day_constants), ('D5', d5_all_matches), ('D6', d6_month_numbers), ('D7', d7_split)]


def d8_unique_fields(ctx):
    """D8 a pattern that names two fields alike loses one of the matched tokens (shared rule)"""
    from ..common import unique_field_names
    unique_field_names(ctx, 'D8', ('small_date', 'at_date'), floor=4)


RULES.append(('D8', d8_unique_fields))


def d9_lexical(ctx):
    """D9 every month name is a month token (E7b lexical competition model: month stage, regex families in TOKEN_REGEX_PARSER order with first-claim-wins,
    alias stage; samples generated from the configuration)"""
    from ..lexrules import run_samples, number_samples, based_samples, money_samples, unit_samples, month_samples, zone_samples, duration_samples, percent_samples, keyword_samples
    ctx.rule('D9', 'every month name is a month token', floor=80)
    run_samples(ctx, 'D9', month_samples(ctx))


RULES.append(('D9', d9_lexical))
