"""C03 - A text is a straight-line program: later lines see the latest binding.

V1 the only write of a variable's value cell is dominated by successful evaluation; V2 what is stored is the
evaluation result (a value), not the expression; V3 who may write Session.variables and when (never replacing an
existing binding at parse time; only after the right-hand side parsed); V4 both key constructions lower-case;
V5 name comparison is case-insensitive the same way; V6 stored values cannot change afterwards.
Not decided: closest-then-longest choice among overlapping names; histories as such.
"""
import re

from ..facts import render, strip, walk, fn_key, AnchorLost, alternatives, cond_str, opplace
from ..effects import cell_writes, fields_in, spine_fields
from ..common import check_case_insensitive_compares
from .. import model


def data_writes(ctx):
    out = []
    for b in ctx.facts.src_bodies():
        for bid, t, method, recv in cell_writes(b):
            if 'variable::VariableInfo.data' in spine_fields(recv):
                out.append((b, bid, t, method, recv))
    return out


def v1_store_after_success(ctx):
    """V1/V2 VariableInfo.data is written once, in the interpreter's assignment, after evaluation succeeded, with the result"""
    ctx.rule('V1', 'value cell written only after successful evaluation', floor=1)
    ctx.rule('V2', 'the stored operand is the evaluation result', floor=1)
    ws = data_writes(ctx)
    if not ws:
        raise AnchorLost('no write of VariableInfo.data found')
    for b, bid, t, method, recv in ws:
        ctx.fn(b)
        if b.path != 'compiler::Interpreter::executer_assignment':
            ctx.finding('V1', 'writer/%s' % fn_key(b.path), '%s writes a variable\'s value cell; only the interpreter\'s assignment may' % fn_key(b.path), site=t['loc'])
            continue
        conds = b.cond_text(bid)
        ev = [c for c in conds if 'Interpreter::execute_ast(' in c and 'branch(' in c]
        if ev and ev[0].endswith('=[0]'):
            ctx.ok('V1', 'borrow_mut of variable.data is dominated by the Continue arm of execute_ast(expression)?', 'guard-dom', site=t['loc'])
        else:
            ctx.finding('V1', 'executer_assignment/write-before-success', 'the value cell is borrowed mutably before / independent of the successful evaluation of the right-hand side (%s)' % conds, site=t['loc'])
        # V2: the value stored through the guard
        dl = b.dest_local(t)
        stored = None
        # guard -> deref_mut(&mut guard) -> (*ptr) = value
        for (ubid, kind, node, role) in b.uses_of_local(dl):
            if kind == 'stmt' and node['k'] == 'assign' and node['rv'] == 'ref':
                for (u2, k2, n2, r2) in b.uses_of_local(node['lhs']['local']):
                    if k2 == 'term' and n2['k'] == 'call' and n2.get('callee') and n2['callee']['path'].endswith('deref_mut'):
                        ptr = b.dest_local(n2)
                        for i in b.normal_blocks:
                            for s in b.blocks[i]['stmts']:
                                if s['k'] == 'assign' and s['lhs']['local'] == ptr and s['lhs']['proj'] == ['deref']:
                                    stored = (b.expr(s['ops'][0]), s)
        if stored is None:
            ctx.finding('V2', 'executer_assignment/store-not-found', 'cannot find what is stored into the value cell', site=t['loc'])
            continue
        e, s = stored
        txt = render(e)
        if re.fullmatch(r'branch\(Interpreter::execute_ast\(config, session, expression\)\) as Continue\.0|Interpreter::execute_ast\(config, session, expression\) as Ok\.0', txt):
            ctx.ok('V2', 'stored value = result of execute_ast(expression)', 'use-def', site=s['loc'])
        elif txt == 'expression' or 'execute_ast' not in txt:
            ctx.finding('V2', 'executer_assignment/stores-expression', 'the binding stores %s, not the evaluated value: later changes of other variables would show through' % txt[:100], site=s['loc'])
        else:
            ctx.finding('V2', 'executer_assignment/stored-value', 'the binding stores %s' % txt[:140], site=s['loc'])
    # executer_variable hands out the stored Rc (a clone of the pointer), never re-evaluates
    ev = ctx.facts.one(r'^compiler::Interpreter::executer_variable$')
    r = render(ev.local_expr(0))
    if r == 'variable.data':
        ctx.ok('V2', 'executer_variable returns the stored value', 'use-def', site=ev.loc)
    else:
        ctx.finding('V2', 'executer_variable/result', 'a variable use evaluates to %s instead of the stored value' % r[:100], site=ev.loc)


def v3_who_may_bind(ctx):
    """V3 Session.variables: written by add_variable only; add_variable called only by the assignment parser, after the
    right-hand side parsed to a non-empty AST, and only when the name is not bound yet"""
    ctx.rule('V3', 'who may create bindings, and when', floor=2)
    writers = []
    for b in ctx.facts.src_bodies():
        for bid, t, method, recv in cell_writes(b):
            if 'session::Session.variables' in spine_fields(recv):
                writers.append((b, t))
    for b, t in writers:
        if b.path != 'session::Session::add_variable':
            ctx.finding('V3', 'writer/%s' % fn_key(b.path), '%s mutably borrows Session.variables; only Session::add_variable may change the bindings' % fn_key(b.path), site=t['loc'])
        else:
            ctx.ok('V3', 'Session::add_variable writes Session.variables', 'who-may-write', site=t['loc'])
    if not writers:
        raise AnchorLost('no writer of Session.variables')
    callers = []
    for b in ctx.facts.src_bodies():
        for bid, t in b.calls(r'^session::Session::add_variable$'):
            callers.append((b, bid, t))
    if not callers:
        raise AnchorLost('Session::add_variable is never called')
    for b, bid, t in callers:
        ctx.fn(b)
        owner = b
        for _ in range(4):           # a closure (of the parser, or of a helper spliced into it) belongs to the function that creates it
            if owner.kind == 'closure' and owner.rec.get('parent') in ctx.facts.bodies:
                owner = ctx.facts.bodies[owner.rec['parent']]
            elif owner.kind == 'closure':
                hp = owner.rec.get('parent')
                cs = [c for h, c in getattr(ctx.facts, 'splice_report', []) if h == hp]
                if cs and len(cs[0]) == 1 and cs[0][0] in ctx.facts.bodies:
                    owner = ctx.facts.bodies[cs[0][0]]
                else:
                    break
            else:
                break
        if not owner.path.startswith('<syntax::assignment::AssignmentParser as'):
            ctx.finding('V3', 'binder/%s' % fn_key(b.path), '%s creates a binding; only the assignment parser may' % fn_key(b.path), site=t['loc'])
            continue
        from ..facts import norm_cond
        conds = b.cond_text(bid)
        deep = [(render(d2), v2) for (_, d, v) in b.conditions(bid) for d2, v2 in [norm_cond(d, v)]]
        if b.kind == 'closure' and owner is not b:
            # the call sits in a closure: what holds where the closure is handed over holds inside it, and a closure given to
            # unwrap_or_else / or_else / map_or_else (as the default) runs exactly when the receiver is None
            for obid, ot in owner.calls():
                for k_, a_ in enumerate(ot['args']):
                    ae = strip(owner.expr(a_), transparent=False)
                    if ae[0] == 'aggr' and ae[1] == 'closure:' + b.path:
                        deep += [(render(d2), v2) for (_, d, v) in owner.conditions(obid) for d2, v2 in [norm_cond(d, v)]]
                        conds = conds + owner.cond_text(obid)
                        cp = ot['callee']['path'] if ot.get('callee') else ''
                        if re.search(r'Option::<.*>::(unwrap_or_else|or_else|map_or_else|ok_or_else)$', cp) and k_ == 1:
                            deep.append(('discr(%s)' % render(owner.expr(ot['args'][0])), frozenset({0})))
                            conds = conds + ['discr(%s)=[0]' % render(owner.expr(ot['args'][0]))]

        def is_false(v):       # the decision taken is `false` / `None` (discriminant 0)
            return (not isinstance(v, tuple) and set(v) == {0}) or (isinstance(v, tuple) and v[0] == 'else' and 1 in v[1] and 0 not in v[1])
        # "the name is not bound yet": contains_key(variables, name) is false, or get(variables, name) [.cloned()] is None
        fresh = [c for (c, v) in deep if re.search(r'^(BTreeMap::contains_key|discr\((Option::cloned\()?BTreeMap::get)\((RefCell::borrow\()?parser\.session\.variables', c) and is_false(v)]
        fresh = ['x=[0]'] if fresh else []
        # "the right-hand side parsed": the result of the expression parser is Ok
        okp = any(re.fullmatch(r'discr\(parse\(parser\)\)', c) and not isinstance(v, tuple) and set(v) == {0} for (c, v) in deep)
        if not fresh or not any(c.endswith('=[0]') for c in fresh):
            ctx.finding('V3', 'AssignmentParser::parse/rebinds-at-parse-time',
                        'the assignment parser registers a (fresh, empty) binding even when the name is already bound: an existing value is lost before the right-hand side has been evaluated (%s)' % conds[-3:], site=t['loc'])
        elif not okp:
            ctx.finding('V3', 'AssignmentParser::parse/binds-before-rhs', 'add_variable is not guarded by the right-hand side having parsed (%s)' % conds, site=t['loc'])
        else:
            ctx.ok('V3', 'add_variable only for a new name, after the right-hand side parsed', 'guard-dom', site=t['loc'])
        # the value cell of a fresh binding starts as None and the AST node carries this very VariableInfo
        arg = render(b.expr(t['args'][1]))
        if not re.search(r'Rc::new\(variable::VariableInfo::VariableInfo\{', arg):
            ctx.finding('V3', 'AssignmentParser::parse/binding-object', 'add_variable is given %s' % arg[:100], site=t['loc'])


def v4_keys(ctx, rid='V4'):
    """V4 the parser's key and VariableInfo::to_string (the map key) both lower-case every token's text"""
    ctx.rule(rid, 'binding keys are lower-cased on both sides', floor=3)
    b = ctx.facts.one(r'^<syntax::assignment::AssignmentParser as syntax::SyntaxParserTrait>::parse$')
    ctx.fn(b)
    from ..common import always_through
    from ..facts import opplace
    n = 0
    receivers = set()
    for bid, t in b.calls(r'String::push_str$'):
        val = b.expr(t['args'][1])
        n += 1
        # the receiver `&mut key`: the local the reference was taken of
        p0 = opplace(t['args'][0])
        for d in (b.defs().get(p0['local'], []) if p0 else []):
            if d[1] == 'stmt' and d[2]['rv'] == 'ref':
                q = opplace(d[2]['ops'][0])
                if q and not q['proj']:
                    receivers.add(q['local'])
        if always_through(val, r'::to_lowercase$'):
            ctx.ok(rid, 'parser key part: to_lowercase(token.to_string())', 'shape', site=t['loc'])
        else:
            ctx.finding(rid, 'AssignmentParser::parse/key-not-lowercased', 'a part of the variable key is appended without lower-casing: %s' % render(val)[:100], site=t['loc'])
    # what the key starts from: empty, or itself lower-cased text (`let mut key = first.to_string().to_lowercase()`)
    for l in sorted(receivers):
        for (bid, kind, x) in b.defs().get(l, []):
            e = strip(b.def_expr(bid, kind, x, 1, frozenset()), transparent=False)
            if e[0] == 'call' and re.search(r'String::new$', e[1]):
                continue
            n += 1
            if always_through(e, r'::to_lowercase$'):
                ctx.ok(rid, 'parser key starts from lower-cased text', 'shape', site=x.get('loc'))
            else:
                ctx.finding(rid, 'AssignmentParser::parse/key-not-lowercased', 'the variable key starts from text that is not lower-cased: %s' % render(e)[:100], site=x.get('loc'))
    if n < 2:
        raise AnchorLost('AssignmentParser::parse: expected the first word and the following words to be added to the key, found %d contributions' % n)
    # lookup uses the same key string
    for bid, t in b.calls(r'BTreeMap::<.*>::(contains_key|get)$'):
        k = render(b.expr(t['args'][1]))
        if 'variable_name' not in k and 'String::new' not in k and 'push_str' not in k:
            pass
    c = ctx.facts.find(r'^<variable::VariableInfo as alloc::string::ToString>::to_string::\{closure#0\}$')
    if not c:
        # the key text is built in a helper / accessor that to_string hands back (spliced in): the closures it owns
        ts = ctx.facts.find(r'^<variable::VariableInfo as alloc::string::ToString>::to_string$')
        if len(ts) == 1:
            c = [x for x in model.closures_of(ctx, ts[0]) if 'to_lowercase' in render(x.local_expr(0), transparent=False) or True][:1] if len(model.closures_of(ctx, ts[0])) == 1 else []
    disp = ctx.facts.find(r'^<variable::VariableInfo as core::fmt::Display>::fmt$')
    if len(c) == 1:
        r = render(c[0].local_expr(0), transparent=False)
        if 'to_lowercase' in r:
            ctx.ok(rid, 'VariableInfo::to_string lower-cases every token', 'shape', site=c[0].loc)
        else:
            ctx.finding(rid, 'VariableInfo::to_string/not-lowercased', 'the map key of a binding is built as %s' % r[:100], site=c[0].loc)
    elif len(disp) == 1:
        # the key text is what Display writes (to_string() is then the blanket impl): every piece written is lower-cased
        d_ = disp[0]
        ctx.fn(d_)
        writes = list(d_.calls(r'fmt::Formatter::<.*>::write_str$|fmt::Write>?::write_str$|Formatter::<.*>::write_fmt$|fmt::Write>?::write_fmt$|Formatter::<.*>::pad$|fmt::Write>?::write_char$'))
        if not writes:
            raise AnchorLost('VariableInfo as Display: no write found')
        bad = [t for bid, t in writes if not (t['callee']['path'].endswith('write_str') and always_through(d_.expr(t['args'][1]), r'::to_lowercase$'))]
        if bad:
            ctx.finding(rid, 'VariableInfo::to_string/not-lowercased', 'the map key of a binding (Display of VariableInfo) writes %s without lower-casing' % render(d_.expr(bad[0]['args'][1]))[:100], site=bad[0]['loc'])
        else:
            ctx.ok(rid, 'Display of VariableInfo writes lower-cased token texts only', 'shape', site=d_.loc)
    else:
        raise AnchorLost('VariableInfo::to_string closure not found')
    a = ctx.facts.body('session::Session::add_variable')
    ins = list(a.calls(r'BTreeMap::<.*>::insert$'))

    def keyed_by_to_string(x):
        if x[0] != 'call':
            return False
        if re.search(r'variable::VariableInfo as alloc::string::ToString>::to_string$', x[1]):
            return True
        gen = ((x[3].get('callee') or {}).get('gen') or []) if isinstance(x[3], dict) else []
        return bool(re.search(r'ToString>::to_string$', x[1]) and any(re.search(r'variable::VariableInfo>?$', str(g)) for g in gen))
    if len(ins) != 1 or not any(keyed_by_to_string(x) for x in walk(a.expr(ins[0][1]['args'][1]))):
        ctx.finding(rid, 'add_variable/key', 'add_variable does not key the binding by VariableInfo::to_string', site=a.loc)
    else:
        ctx.ok(rid, 'add_variable keys by variable_info.to_string()', 'wiring', site=ins[0][1]['loc'])


def v5_compare(ctx):
    """V5 variable names are found through comparisons that lower-case both sides (same normalisation as the keys)"""
    ctx.rule('V5', 'case-insensitive comparison of names', floor=10)
    check_case_insensitive_compares(ctx, 'V5')
    # substitution only looks right of '=' and runs in every tokinize (stage order is C02's)
    u = ctx.facts.one(r'^variable::update_token_variables$')
    ctx.fn(u)
    fl = list(u.calls(r'^types::find_location$'))
    if len(fl) != 1:
        raise AnchorLost('update_token_variables: expected one find_location call')
    hay = render(u.expr(fl[0][1]['args'][0]))
    if 'token_start_index' in hay or re.search(r'RangeFrom', hay):
        ctx.ok('V5', 'substitution searches tokens right of "=" only', 'wiring', site=fl[0][1]['loc'])
    else:
        ctx.finding('V5', 'update_token_variables/search-range', 'variable substitution searches %s' % hay[:120], site=fl[0][1]['loc'])


def v6_immutable_values(ctx):
    """V6 no DataItem implementor has interior mutability: a stored value cannot change after the assignment"""
    ctx.rule('V6', 'stored values are immutable', floor=6)
    for im in ctx.facts.impls_of(r'^compiler::DataItem$'):
        adt = ctx.facts.adts.get(im['self_ty'])
        if not adt:
            continue
        tys = [f['ty'] for v in adt['variants'] for f in v['fields']]
        if any(re.search(r'Cell<|RefCell<|Mutex<|Atomic', t) for t in tys):
            ctx.finding('V6', 'item-mutable/%s' % im['self_ty'].rsplit('::', 1)[-1], '%s has interior mutability: %s' % (im['self_ty'], tys), site=adt['loc'])
        else:
            ctx.ok('V6', '%s has no interior mutability' % im['self_ty'].rsplit('::', 1)[-1], 'types', site=adt['loc'])


RULES = [('V1', v1_store_after_success), ('V3', v3_who_may_bind), ('V4', v4_keys), ('V5', v5_compare), ('V6', v6_immutable_values)]


def v7_selection(ctx):
    """V7 the variable that is substituted next is the closest match, the longest name among matches that start at the same
    token: tabulated over the order types of up to three candidate matches (E6c). The selection touches positions and
    lengths only through copies and comparisons (checked while walking), so three representatives per quantity cover every
    value. Observed: the span that is drained and the binding that is inserted."""
    import itertools
    from ..absint import Machine, Unknown, Rep, is_ptr
    ctx.rule('V7', 'closest-then-longest selection, tabulated over order types', floor=500)
    u = ctx.facts.one(r'^variable::update_token_variables$')
    ctx.fn(u)
    fl = list(u.calls(r'^types::find_location$'))
    if len(fl) != 1:
        raise AnchorLost('update_token_variables: expected one find_location call, found %d' % len(fl))
    fbid = fl[0][0]
    loops = [L for L in u.loops() if fbid in L['body']]
    if not loops:
        raise AnchorLost('update_token_variables: find_location is not called in a loop over the bindings')
    inner = min(loops, key=lambda L: len(L['body']))
    nexts = [(bid, t) for bid, t in u.calls(r'Iterator>::next$') if bid in inner['body'] and u.dominates(bid, fbid)]
    nexts = [x for x in nexts if not any(x[0] in L['body'] and L is not inner and len(L['body']) < len(inner['body']) for L in u.loops())]
    if len(nexts) != 1:
        raise AnchorLost('update_token_variables: expected one iterator driving the search over the bindings, found %d' % len(nexts))
    next_term = nexts[0][1]
    item_ty = u.locals.get(next_term['dest']['local'], '')
    pair_items = '(&' in item_ty

    def walk(cands):
        """cands: [(item, pos, len)] in iteration order -> observation"""
        script = list(cands)
        info = {c[0]: c for c in cands}
        obs = {}

        def item_of(m, v):
            v = m.deref_value(v)
            if isinstance(v, tuple) and len(v) == 2 and v[0] in ('toks', 'key'):
                return v[1]
            return None

        def model(m, path, args, t):
            if t is next_term:
                if not script:
                    return m.make_adt('core::option::Option::None', [], [])
                it = script.pop(0)[0]
                m.env['h' + it] = {'__adt__': 'variable::VariableInfo', 'tokens': ('toks', it), 'data': ('sym', 'data:' + it), '__item__': it}
                m.env['k' + it] = ('key', it)
                val = ('ptr', 'h' + it, ())
                if pair_items:
                    val = ('tuple', [('ptr', 'k' + it, ()), val])
                return m.make_adt('core::option::Option::Some', [val], [])
            if re.search(r'Iterator>::next$', path):
                return m.make_adt('core::option::Option::None', [], [])          # every other loop of the function is empty here
            if path == 'types::find_location':
                it = item_of(m, args[1])
                if it is None:
                    raise Unknown('find_location is asked for %r' % (m.deref_value(args[1]),))
                return m.make_adt('core::option::Option::Some', [Rep(info[it][1])], [])
            if re.search(r'BTreeMap::<.*>::is_empty$', path):
                return int(not cands)            # the session's bindings: the candidates of this walk
            if re.search(r'BTreeMap::<.*>::len$', path):
                return len(cands)
            if re.search(r'Vec::<.*>::len$|slice::<impl \[T\]>::len$', path):
                it = item_of(m, args[0])
                if it is not None:
                    return Rep(info[it][2])
                return NotImplemented
            if re.search(r'BTreeMap<.*> as core::ops::Index<.*>>::index$', path) and len(args) == 2:
                it = item_of(m, args[1])
                if it is None:
                    raise Unknown('the bindings are indexed by %r' % (m.deref_value(args[1]),))
                return ('ptr', 'h' + it, ())
            if re.search(r'BTreeMap::<.*>::get$', path) and len(args) == 2:
                it = item_of(m, args[1])
                if it is None:
                    raise Unknown('the bindings are looked up by %r' % (m.deref_value(args[1]),))
                return m.make_adt('core::option::Option::Some', [('ptr', 'h' + it, ())], [])
            if re.search(r'Vec::<.*>::drain$', path) and len(args) == 2:
                r = m.deref_value(args[1])
                if isinstance(r, dict) and 'start' in r and 'end' in r:
                    obs['drain'] = (r['start'], r['end'])
                else:
                    raise Unknown('drain range %r' % (r,))
                return ('sym', 'drain')
            if re.search(r'Vec::<.*>::insert$', path) and len(args) == 3:
                obs['insert'] = (args[1], args[2])
                return ('sym', 'unit')
            if re.search(r'Vec::<.*>::splice$', path) and len(args) == 3:
                r = m.deref_value(args[1])
                if isinstance(r, dict) and 'start' in r and 'end' in r:
                    obs['drain'] = (r['start'], r['end'])
                    obs['insert'] = (r['start'], args[2])
                return ('sym', 'splice')
            if re.search(r'Option::<.*>::(map|map_or|unwrap_or|and_then|filter|or_else)$', path):
                from .. import absstr as _abs
                return _abs.std_model(m, path, args, t)          # combinators on the Option a lookup handed back
            return NotImplemented

        m = Machine(u, model, order_only=inner['body'])
        why = m.run(0, on_call=lambda mm, path, a, t: 'insert' in obs)
        return obs, why, m

    def items_in(m, v, depth=0, seen=None):
        out = set()
        if depth > 12:
            return out
        if is_ptr(v):
            return items_in(m, m.read(v[1], v[2]), depth + 1)
        if isinstance(v, dict):
            if '__item__' in v:
                out.add(v['__item__'])
                return out
            for k, x in v.items():
                if not k.startswith('__'):
                    out |= items_in(m, x, depth + 1)
        elif isinstance(v, tuple) and v and v[0] == 'tuple':
            for x in v[1]:
                out |= items_in(m, x, depth + 1)
        return out

    pairs = [(p, l) for p in (10, 20, 30) for l in (1, 2, 3)]
    n = 0
    bad = {}
    for k in ((1, 2, 3, 4) if ctx.tier == 'thorough' and ctx.cfg_name == 'dev' else (1, 2, 3)):
        for seq in itertools.permutations(pairs, k):
            cands = [('ABCD'[i], p, l) for i, (p, l) in enumerate(seq)]
            want = min(cands, key=lambda c: (c[1], -c[2]))
            n += 1
            try:
                obs, why, m = walk(cands)
            except Unknown as ex:
                ctx.finding('V7', 'update_token_variables/selection/not-extractable',
                            'the search for the next variable could not be tabulated: %s' % ex, site=fl[0][1]['loc'])
                return
            desc = ', '.join('%s at token %d of %d tokens' % (c[0], c[1], c[2]) for c in cands)
            if 'drain' not in obs or 'insert' not in obs:
                bad.setdefault('no-substitution', 'with matches [%s] (in map order) no substitution is made (walk ended: %s)' % (desc, why))
                continue
            got_items = items_in(m, obs['insert'][1])
            s, e = obs['drain']
            if got_items != {want[0]}:
                bad.setdefault('wrong-binding', 'with matches [%s] (in map order) the inserted token carries binding %s; the closest, then longest match is %s'
                               % (desc, '/'.join(sorted(got_items)) or '?', want[0]))
            elif not (isinstance(s, int) and isinstance(e, int) and s == want[1] and e == want[1] + want[2] and obs['insert'][0] == s):
                bad.setdefault('wrong-span', 'with matches [%s] (in map order) tokens %s..%s are replaced (inserted at %s); the chosen match %s spans %d..%d'
                               % (desc, s, e, obs['insert'][0], want[0], want[1], want[1] + want[2]))
            else:
                ctx.ok('V7', 'matches [%s] -> %s substituted for tokens %d..%d' % (desc, want[0], s, e), 'table', site=fl[0][1]['loc'], sample=(n in (1, 40, 300)))
    for kind, what in sorted(bad.items()):
        ctx.finding('V7', 'update_token_variables/selection/%s' % kind, what, site=fl[0][1]['loc'])
    ctx.analysed('V7', '%d sequences of 1..3 (thorough: 1..4) candidate matches over 3 positions x 3 lengths; order-only premise checked in %d blocks of the search loop' % (n, len(inner['body'])))


RULES.append(('V7', v7_selection))
