"""C17 - Highlight (UI) tokens are well-formed character spans.

H1 offset units (E4): what is stored into UiToken.start/end is a character offset; no comparison, field or parameter mixes
   byte and character offsets; the byte->char map is indexed with byte offsets only.
H2 offset domain: the string a regex is matched on is the string the byte->char map was built from (identity copy),
   not a case-mapped / rewritten derivative; the tokenizer's copy and the map come from the same line.
H3 protocol: a token is appended only after the collision test succeeded; the collision predicates (UI tokens and
   internal tokens) reject every interval ordering in which two spans share a character (finite enumeration of the
   orderings of the four end points); `sort` precedes the first merge; a merge replaces a contiguous run by one token
   with the outer bounds.
H4 kinds: number / operator / comment parsers report Number / Operator / Comment on a match of the literal they tokenised,
   after the internal token was accepted.
Not decided: non-overlap for all lines as such.
"""
import itertools
import re

from ..facts import render, strip, walk, fn_key, AnchorLost, opplace, alternatives
from ..units import Units, Origins, BYTES, CHARS, EMPTY, fmt
from .. import model

UI_START = 'token::ui_token::UiToken.start'
UI_END = 'token::ui_token::UiToken.end'
SEEDS = {UI_START: {CHARS}, UI_END: {CHARS}}
CMP = ('Lt', 'Le', 'Gt', 'Ge', 'Eq', 'Ne')


def units_of(ctx):
    c = ctx.__dict__.setdefault('_model_cache', {})
    if 'units' not in c:
        rs = {}
        if getattr(ctx, '_h5_ok', False):
            # H5 tabulated get_position: the byte offset of character k becomes k - its result is a character position
            rs['token::ui_token::UiTokenCollection::get_position'] = {CHARS}
        c['units'] = Units(ctx, seeds=SEEDS, ret_seeds=rs)
    return c['units']


def short_operand(b, o):
    return render(b.sexpr(o))[:50]


def h1_units(ctx, rid='H1', scope=None):
    """H1 byte offsets and character offsets never meet"""
    ctx.rule(rid, 'offset units: bytes and chars never meet', floor=14)
    U = units_of(ctx)
    F = ctx.facts
    ctx.analysed(rid, 'fixpoint rounds=%d, fields with a unit=%d, parameters with a unit=%d' % (U.rounds_used, len(U.field_units), len(U.param_units)))
    for k, v in sorted(U.field_units.items()):
        ctx.analysed(rid, 'field %s : %s' % (k, fmt(v)))
    for (p, i), v in sorted(U.param_units.items()):
        ctx.analysed(rid, 'param %s#%d : %s' % (fn_key(p), i, fmt(v)))
    # (a) stores into UiToken.start / end
    n_known = 0
    for b in F.src_bodies():
        if b.kind not in ('fn', 'method', 'closure'):
            continue
        for i in b.normal_blocks:
            for s in b.blocks[i]['stmts']:
                if s['k'] != 'assign':
                    continue
                stores = []
                if s['rv'] == 'aggr' and s.get('adt') == 'token::ui_token::UiToken::UiToken':
                    for name, o in zip(s['fields'], s['ops']):
                        if name in ('start', 'end'):
                            stores.append((name, b.expr(o), o))
                elif s['lhs']['proj'] and isinstance(s['lhs']['proj'][-1], dict) and s['lhs']['proj'][-1].get('field') in (UI_START, UI_END):
                    stores.append((s['lhs']['proj'][-1]['field'].rsplit('.', 1)[1], b.def_expr(i, 'stmt', s, 1, frozenset()), None))
                for name, e, o in stores:
                    ctx.fn(b)
                    un = U.unit(b, e)
                    if BYTES in un:
                        ctx.finding(rid, '%s/store-UiToken.%s/bytes' % (fn_key(b.path), name),
                                    '%s stores a byte offset into UiToken.%s (a character offset): %s' % (fn_key(b.path), name, U.explain(b, e, BYTES)), site=s['loc'])
                    elif un == {CHARS}:
                        n_known += 1
                        ctx.ok(rid, '%s: UiToken.%s <- %s [chars]' % (fn_key(b.path), name, render(e)[:60]), 'units', site=s['loc'])
                    else:
                        se = strip(e)
                        how = 'api-parameter' if se[0] == 'arg' else 'unknown-unit'
                        ctx.ok(rid, '%s: UiToken.%s <- %s [%s]' % (fn_key(b.path), name, render(e)[:60], how), how, site=s['loc'])
    if n_known < 4:
        ctx.finding(rid, 'stores/known-count', 'anchor lost: only %d stores into UiToken.start/end have a known unit, 4 were confirmed by hand' % n_known)
    # (b) comparisons
    for b in F.src_bodies():
        if b.kind not in ('fn', 'method', 'closure'):
            continue
        if re.match(r'^<?(formatter|compiler)::', b.path) or (b.rec.get('parent') or '').startswith(('formatter::', 'compiler::')):
            continue          # positions inside printed renderings (ASCII digits) never reach a highlight token: C07 N9 tabulates them
        for i in b.normal_blocks:
            for s in b.blocks[i]['stmts']:
                if s['k'] != 'assign' or s['rv'] != 'binop' or s['op'] not in CMP:
                    continue
                ty = (opplace(s['ops'][0]) or {}).get('ty') or (s['ops'][0].get('const') or {}).get('ty')
                if ty not in ('usize', 'u32', 'u64', 'isize', 'i64', 'i32'):
                    continue
                l, r = b.expr(s['ops'][0]), b.expr(s['ops'][1])
                ul, ur = U.unit(b, l), U.unit(b, r)
                if not ul or not ur:
                    continue
                ctx.fn(b)
                if ul == ur and len(ul) == 1:
                    ctx.ok(rid, '%s: %s %s %s [%s]' % (fn_key(b.path), short_operand(b, s['ops'][0]), s['op'], short_operand(b, s['ops'][1]), sorted(ul)[0]), 'units', site=s['loc'], sample=False)
                else:
                    lo, ro = short_operand(b, s['ops'][0]), short_operand(b, s['ops'][1])
                    bad_atom = sorted((ul | ur))
                    ctx.finding(rid, '%s/compare/%s%s~%s%s' % (fn_key(b.path), lo, fmt(ul), ro, fmt(ur)),
                                '%s compares %s %s with %s %s: %s; %s' % (fn_key(b.path), lo, fmt(ul), ro, fmt(ur),
                                                                       U.explain(b, l, sorted(ul)[0]), U.explain(b, r, sorted(ur - ul or ur)[0])), site=s['loc'])
    # (c) the byte->char map is indexed with byte offsets only
    gp = F.one(r'^token::ui_token::UiTokenCollection::get_position$')
    ctx.fn(gp)
    if getattr(ctx, '_h5_ok', False):
        ctx.ok(rid, 'the byte -> character map and get_position are decided by the table of H5 (any data structure)', 'table', site=gp.loc)
        ctx.ok(rid, 'get_position returns a character offset (H5)', 'table', site=gp.loc)
        return _h1_tail(ctx, rid, U, F)
    gm = F.one(r'^token::ui_token::UiTokenCollection::generate_char_map$')
    ctx.fn(gm)
    per_byte = list(gm.calls(r'char::methods::<impl char>::len_utf8$')) and len(gm.loops()) >= 2
    pushes = [t for _, t in gm.calls(r'Vec::<.*>::push$')]
    # iterator form of the same thing: extend(repeat(char index).take(len_utf8))
    ext = [t for _, t in gm.calls(r'Vec::<.*>::extend$|Extend<.*>>::extend$')]
    ext_ok = False
    if not pushes and len(ext) == 1 and gm.loops():
        it = gm.expr(ext[0]['args'][1])
        takes = [x for x in walk(it) if x[0] == 'call' and re.search(r'Iterator>?::take$', x[1]) and len(x[2]) == 2]
        reps = [x for x in walk(it) if x[0] == 'call' and re.search(r'iter::(sources::repeat::)?repeat$', x[1]) and x[2]]
        if takes and reps and 'len_utf8(' in render(takes[0][2][1]):
            ext_ok = U.unit(gm, reps[0][2][0]) == {CHARS}
    if ext_ok:
        ctx.ok(rid, 'char_sizes: extend(repeat(character index).take(len_utf8)): one entry per byte, value = character index', 'units', site=gm.loc)
    elif not per_byte or len(pushes) != 1:
        ctx.finding(rid, 'char-map/shape', 'generate_char_map no longer pushes one entry per byte of every character (len_utf8 loop with one push)', site=gm.loc)
    else:
        pv = U.unit(gm, gm.expr(pushes[0]['args'][-1]))
        if pv != {CHARS}:
            ctx.finding(rid, 'char-map/value', 'generate_char_map stores %s %s, expected the character index of enumerate(chars())' % (render(gm.expr(pushes[0]['args'][-1]))[:60], fmt(pv)), site=pushes[0]['loc'])
        else:
            ctx.ok(rid, 'char_sizes: one entry per byte, value = character index', 'units', site=gm.loc)
    ru = U._ret_unit(gp, {}, 0)
    if ru != {CHARS}:
        ctx.finding(rid, 'get_position/result', 'get_position returns %s, expected a character offset on every path' % fmt(ru), site=gp.loc)
    else:
        ctx.ok(rid, 'get_position returns a character offset on every path', 'units', site=gp.loc)
    return _h1_tail(ctx, rid, U, F)


def _h1_tail(ctx, rid, U, F):
    n_gp = 0
    for b in F.src_bodies():
        for bid, t in b.calls(r'^token::ui_token::UiTokenCollection::get_position$'):
            n_gp += 1
            e = b.expr(t['args'][1])
            un = U.unit(b, e)
            ctx.fn(b)
            if CHARS in un:
                ctx.finding(rid, '%s/get_position-arg/chars' % fn_key(b.path), '%s looks up a character offset in the per-byte map: %s' % (fn_key(b.path), U.explain(b, e, CHARS)), site=t['loc'])
            else:
                ctx.ok(rid, '%s: get_position(%s) %s' % (fn_key(b.path), render(e)[:40], fmt(un)), 'units' if un else 'unknown-unit', site=t['loc'], sample=False)
    if n_gp < 4:
        ctx.finding(rid, 'get_position/count', 'anchor lost: %d call sites of get_position, 4 confirmed by hand' % n_gp)
    # (d) no field / parameter holds both
    for k, v in sorted(U.field_units.items()):
        if len(v) > 1:
            ws = '; '.join('%s from %s at %s' % (a, who, site) for a, site, who in U.field_why.get(k, [])[:4])
            ctx.finding(rid, 'field/%s/mixed' % k.replace('elem:', 'elem-'), 'field %s holds byte offsets and character offsets (%s)' % (k, ws))
        else:
            ctx.ok(rid, 'field %s %s' % (k, fmt(v)), 'units', sample=False)
    for (p, i), v in sorted(U.param_units.items()):
        if len(v) > 1:
            ws = '; '.join('%s from %s at %s' % (a, who, site) for a, site, who in U.param_why.get((p, i), [])[:4])
            ctx.finding(rid, 'param/%s#%d/mixed' % (fn_key(p), i), 'parameter %d of %s receives byte offsets and character offsets (%s)' % (i, fn_key(p), ws), site=F.bodies[p].loc)
        else:
            ctx.ok(rid, 'param %s#%d %s' % (fn_key(p), i, fmt(v)), 'units', sample=False)


# ---------------------------------------------------------------------------------------------
SCANS = re.compile(r'^regex::(regex::string::)?Regex::(captures_iter|find_iter|captures|find|captures_at|find_at|is_match)$')
NAMED = {'tokinizer::Tokinizer.data': 'DATA'}


def scanning_bodies(ctx):
    """bodies that scan with a regex and (transitively, depth 2) add tokens"""
    out = []
    adders = r'Tokinizer::<.*>::(add_token_from_match|add_uitoken_from_match|add_token_location)$|Tokinizer::(add_token_from_match|add_uitoken_from_match|add_token_location)$|UiTokenCollection::add'
    for b in ctx.facts.src_bodies():
        if b.kind not in ('fn', 'method', 'closure'):
            continue
        scans = list(b.calls(SCANS))
        if not scans:
            continue
        if any(True for _ in b.calls(adders)):
            out.append((b, scans))
    return out


def h2_haystack(ctx, rid='H2'):
    """H2 regex offsets are offsets into the line"""
    ctx.rule(rid, 'match haystack is the line the byte->char map was built from', floor=15)
    F = ctx.facts
    O = Origins(ctx, NAMED)
    # (a) every construction of a Tokinizer: data and the char map come from the same line, unchanged
    n = 0
    for b in F.src_bodies():
        for i in b.normal_blocks:
            for s in b.blocks[i]['stmts']:
                if s['k'] == 'assign' and s['rv'] == 'aggr' and s.get('adt') == 'tokinizer::Tokinizer::Tokinizer':
                    n += 1
                    ctx.fn(b)
                    ops = dict(zip(s['fields'], s['ops']))
                    od = O.origin(b, b.expr(ops['data']))
                    ui = strip(b.expr(ops['ui_tokens']))
                    om = {'?'}
                    if ui[0] == 'call' and ui[1].endswith('UiTokenCollection::new') and ui[2]:
                        om = O.origin(b, ui[2][0])
                    if od == {'LINE'} and om == {'LINE'}:
                        ctx.ok(rid, '%s: Tokinizer.data and the char map are both built from session.current_line(), unchanged' % fn_key(b.path), 'identity', site=s['loc'])
                    else:
                        ctx.finding(rid, '%s/tokinizer-data-vs-char-map' % fn_key(b.path),
                                    '%s builds Tokinizer.data from %s but the byte->char map from %s: regex byte offsets into one string are translated with the map of another' % (
                                        fn_key(b.path), sorted(od), sorted(om)), site=s['loc'])
    if n < 1:
        raise AnchorLost('no construction of a Tokinizer found')
    # a function that hands back such a construction is a constructor: each of its call sites is one more place where a
    # tokenizer comes into being with data and char map from one line (so `token_infos` delegating to `new` counts as before)
    ctors = set()
    for b in F.src_bodies():
        if b.kind in ('fn', 'method') and not b.loops():
            r = strip(b.ret_expr())
            if r[0] == 'aggr' and r[1] == 'tokinizer::Tokinizer::Tokinizer':
                ctors.add(b.path)
    for b in F.src_bodies():
        for bid, t in b.calls():
            c = t.get('callee')
            if c and c['path'] in ctors:
                ctx.ok(rid, '%s obtains its tokenizer from the constructor %s' % (fn_key(b.path), fn_key(c['path'])), 'identity', site=t['loc'], sample=False)
    from ..effects import field_assigns
    for b in F.src_bodies():
        for fld in ('tokinizer::Tokinizer.data', 'token::ui_token::UiTokenCollection.char_sizes'):
            for i, s in field_assigns(b, fld):
                ctx.finding(rid, '%s/rewrites-%s' % (fn_key(b.path), fld.rsplit('.', 1)[1]), '%s assigns %s after construction' % (fn_key(b.path), fld), site=s['loc'])
    # (b) every scanning body that adds tokens scans the tokenizer's copy of the line
    for b, scans in scanning_bodies(ctx):
        ctx.fn(b)
        for bid, t in scans:
            hay = b.expr(t['args'][1])
            og = O.origin(b, hay)
            if og <= {'DATA', 'LINE'}:
                ctx.ok(rid, '%s scans %s' % (fn_key(b.path), sorted(og)), 'identity', site=t['loc'], sample=False)
            else:
                kinds = sorted(re.sub(r'\(.*', '', x.replace('derived:', '')) for x in og if x not in ('DATA', 'LINE'))
                ctx.finding(rid, '%s/haystack/%s' % (fn_key(b.path), '+'.join(kinds)),
                            '%s matches its regex on %s and reports the byte offsets as offsets into the line; the derived string can have a different byte layout (case mapping changes lengths)' % (
                                fn_key(b.path), sorted(og)), site=t['loc'])


# ---------------------------------------------------------------------------------------------
def collision_table(ctx, b, pnames):
    """Abstractly evaluate `b` (a loop over existing items that returns false on collision) on one existing item
    [a, b) and a new span [s, e) for every ordering of the four end points. Returns {ordering: 'reject'|'accept'|'?'}."""
    if not b.loops():
        return collision_table_any(ctx, b, pnames)
    # comparisons in the body: binop over (item.start|item.end) x (param)
    cmps = {}
    for i in b.normal_blocks:
        for s in b.blocks[i]['stmts']:
            if s['k'] == 'assign' and s['rv'] == 'binop' and s['op'] in CMP and not s['lhs']['proj']:
                l, r = render(b.sexpr(s['ops'][0])), render(b.sexpr(s['ops'][1]))
                def cls(x):
                    if x.endswith('.start'):
                        return 'a'
                    if x.endswith('.end'):
                        return 'b'
                    for n, nm in enumerate(pnames):
                        if x == nm:
                            return 'se'[n]
                    return None
                cl, cr = cls(l), cls(r)
                if cl and cr:
                    cmps[s['lhs']['local']] = (s['op'], cl, cr)
    if len(cmps) < 2:
        raise AnchorLost('%s: collision comparisons not recognised (%d found)' % (fn_key(b.path), len(cmps)))
    # blocks that return constant false / that continue the loop
    loops = b.loops()
    if len(loops) != 1:
        raise AnchorLost('%s: expected one loop over the existing items, found %d' % (fn_key(b.path), len(loops)))
    L = loops[0]
    # first block in the loop that holds a comparison
    first = None
    order = sorted(L['body'])
    for i in order:
        if any(s['k'] == 'assign' and s['rv'] == 'binop' and s['lhs']['local'] in cmps for s in b.blocks[i]['stmts']):
            first = i
            break
    if first is None:
        raise AnchorLost('%s: no comparison inside the loop' % fn_key(b.path))
    OPS = {'Lt': lambda x, y: x < y, 'Le': lambda x, y: x <= y, 'Gt': lambda x, y: x > y, 'Ge': lambda x, y: x >= y, 'Eq': lambda x, y: x == y, 'Ne': lambda x, y: x != y}

    def run(env):
        vals = {}
        cur = first
        steps = 0
        while steps < 200:
            steps += 1
            bl = b.blocks[cur]
            for s in bl['stmts']:
                if s['k'] == 'assign' and not s['lhs']['proj']:
                    if s['lhs']['local'] in cmps and s['rv'] == 'binop':
                        op, x, y = cmps[s['lhs']['local']]
                        vals[s['lhs']['local']] = int(OPS[op](env[x], env[y]))
                    elif s['rv'] == 'use':
                        o = s['ops'][0]
                        if 'const' in o and isinstance(o['const'].get('val'), (bool, int)):
                            vals[s['lhs']['local']] = int(o['const']['val'])
                        else:
                            p = opplace(o)
                            if p and not p['proj'] and p['local'] in vals:
                                vals[s['lhs']['local']] = vals[p['local']]
                    elif s['rv'] == 'unop' and s.get('op') == 'Not':
                        p = opplace(s['ops'][0])
                        if p and p['local'] in vals:
                            vals[s['lhs']['local']] = 1 - vals[p['local']]
            t = bl['term']
            if t['k'] == 'switch':
                p = opplace(t['discr'])
                if not p or p['proj'] or p['local'] not in vals:
                    return '?'
                v = vals[p['local']]
                nxt = t['otherwise']
                for val, tgt in t['vals']:
                    if val == v:
                        nxt = tgt
                cur = nxt
            elif t['k'] == 'goto':
                cur = t['target']
            elif t['k'] == 'return':
                return 'reject' if vals.get(0) == 0 else ('accept' if vals.get(0) == 1 else '?')
            elif t['k'] in ('call', 'drop', 'assert'):
                c = t.get('callee') or {}
                if t['k'] == 'call' and not re.search(r'Deref>::deref$|::clone$|::borrow$|UiTokenIterator|Iterator>::next$', c.get('path', '')):
                    return '?'          # a call the abstraction does not understand: fail closed
                cur = t['target']
            else:
                return '?'
            if cur == L['head']:
                return 'accept'         # next item: this one does not collide
            if cur not in L['body'] and not _leads_to_return(b, cur):
                return '?'
        return '?'

    table = {}
    pts = range(0, 8)
    seen = set()
    for a, bb, s, e in itertools.product(pts, repeat=4):
        if not (a < bb and s < e):
            continue
        # canonical ordering signature
        sig = tuple(sorted(set([a, bb, s, e])).index(x) for x in (a, bb, s, e))
        if sig in seen:
            continue
        seen.add(sig)
        table[sig] = (run({'a': a, 'b': bb, 's': s, 'e': e}), a < e and s < bb)
    return table


def collision_table_any(ctx, b, pnames):
    """the same decision written as `items.iter().any(|item| <predicate>)` (possibly inside a private helper): the closure
    body is walked for every ordering of the four end points; `true` means the spans collide. The append must be on the
    `false` side of that call."""
    from ..facts import subst_args
    anys = model.deep_calls(ctx, b, r'Iterator>?::(any|all)$')
    if len(anys) != 1:
        raise AnchorLost('%s: neither a loop over the existing items nor a single any(..) over them (%d found)' % (fn_key(b.path), len(anys)))
    wb, t, args = anys[0]
    negate = t['callee']['path'].endswith('::all')
    clo = args[1]
    while clo[0] in ('ref', 'deref'):
        clo = clo[1]
    if clo[0] != 'aggr' or not clo[1].startswith('closure:'):
        raise AnchorLost('%s: the predicate of any(..) is not a closure literal' % fn_key(b.path))
    P = ctx.facts.bodies.get(clo[1][8:])
    if P is None or P.loops():
        raise AnchorLost('%s: predicate closure not analysable' % fn_key(b.path))
    env = [clo] + [('arg', j + 1, P.arg_names.get(j + 1)) for j in range(1, P.argc)]
    # names of the two parameters as seen from the closure: in terms of the function that owns the any(..) call
    owner_names = [wb.arg_names.get(i) for i in range(1, wb.argc + 1)]

    def cls(opnd):
        x = render(subst_args(P.expr(opnd), env))
        if x.endswith('.start'):
            return 'a'
        if x.endswith('.end'):
            return 'b'
        for n, nm in enumerate(pnames):
            if x == nm:
                return 'se'[n]
        # helper with renamed parameters: positional (the two usize parameters, in order)
        us = [nm for i, nm in enumerate(owner_names, 1) if wb.locals.get(i) == 'usize']
        if len(us) == 2 and x in us:
            return 'se'[us.index(x)]
        return None
    OPS = {'Lt': lambda x, y: x < y, 'Le': lambda x, y: x <= y, 'Gt': lambda x, y: x > y, 'Ge': lambda x, y: x >= y, 'Eq': lambda x, y: x == y, 'Ne': lambda x, y: x != y}

    def run(vals_env):
        vals = {}
        cur = 0
        for _ in range(300):
            bl = P.blocks[cur]
            for st in bl['stmts']:
                if st['k'] != 'assign' or st['lhs']['proj']:
                    continue
                l = st['lhs']['local']
                if st['rv'] == 'binop' and st['op'] in CMP:
                    cl, cr = cls(st['ops'][0]), cls(st['ops'][1])
                    if cl and cr:
                        vals[l] = int(OPS[st['op']](vals_env[cl], vals_env[cr]))
                elif st['rv'] == 'binop' and st['op'] in ('BitOr', 'BitAnd', 'BitXor'):
                    ps = [opplace(o) for o in st['ops']]
                    if all(p_ and not p_['proj'] and p_['local'] in vals for p_ in ps):
                        x, y = vals[ps[0]['local']], vals[ps[1]['local']]
                        vals[l] = {'BitOr': x | y, 'BitAnd': x & y, 'BitXor': x ^ y}[st['op']]
                elif st['rv'] == 'use':
                    o = st['ops'][0]
                    if 'const' in o and isinstance(o['const'].get('val'), (bool, int)):
                        vals[l] = int(o['const']['val'])
                    else:
                        p_ = opplace(o)
                        if p_ and not p_['proj'] and p_['local'] in vals:
                            vals[l] = vals[p_['local']]
                elif st['rv'] == 'unop' and st.get('op') == 'Not':
                    p_ = opplace(st['ops'][0])
                    if p_ and not p_['proj'] and p_['local'] in vals:
                        vals[l] = 1 - vals[p_['local']]
            t2 = bl['term']
            if t2['k'] == 'switch':
                p_ = opplace(t2['discr'])
                if not p_ or p_['proj'] or p_['local'] not in vals:
                    return '?'
                nxt = t2['otherwise']
                for val, tgt in t2['vals']:
                    if val == vals[p_['local']]:
                        nxt = tgt
                cur = nxt
            elif t2['k'] in ('goto', 'drop'):
                cur = t2['target']
            elif t2['k'] == 'call':
                c2 = t2.get('callee') or {}
                if not re.search(r'Deref>::deref$|::clone$|::borrow$', c2.get('path', '')):
                    return '?'
                cur = t2['target']
            elif t2['k'] == 'return':
                if 0 not in vals:
                    return '?'
                collides = bool(vals[0]) != negate
                return 'reject' if collides else 'accept'
            else:
                return '?'
        return '?'
    table = {}
    seen = set()
    for a_, b_, s_, e_ in itertools.product(range(0, 8), repeat=4):
        if not (a_ < b_ and s_ < e_):
            continue
        sig = tuple(sorted(set([a_, b_, s_, e_])).index(x) for x in (a_, b_, s_, e_))
        if sig in seen:
            continue
        seen.add(sig)
        table[sig] = (run({'a': a_, 'b': b_, 's': s_, 'e': e_}), a_ < e_ and s_ < b_)
    # the append happens on the no-collision side
    pushes = [(bid, tt) for bid, tt in b.calls(r'Vec::<.*>::push$')]
    if not pushes and str(b.locals.get(0)) == 'bool':
        # a predicate function: it must answer `true` for "no collision" (its callers append on `true`)
        r_ = render(b.ret_expr())
        if not (re.match(r'Not\(', r_) if not negate else not re.match(r'Not\(', r_)):
            raise AnchorLost('%s: returns %s; expected the negation of the collision test (callers append when it is true)' % (fn_key(b.path), r_[:60]))
    for bid, tt in pushes:
        from ..facts import cond_str
        conds = ' & '.join(cond_str(d_, v_) for (_x, d_, v_) in b.conditions(bid))
        want = '!=[0]' if negate else '=[0]'
        if not re.search(r'(any|all|%s)\(.*\)%s' % (re.escape(fn_key(wb.path).rsplit('::', 1)[-1]), re.escape(want)), conds):
            raise AnchorLost('%s: the append is not on the no-collision side of the predicate (%s)' % (fn_key(b.path), conds[-120:]))
    return table


def _leads_to_return(b, bid):
    seen = set()
    cur = bid
    while cur not in seen:
        seen.add(cur)
        t = b.blocks[cur]['term']
        if t['k'] == 'return':
            return True
        if t['k'] in ('goto', 'drop'):
            cur = t['target']
        else:
            return False
    return False


def h3_protocol(ctx, rid='H3'):
    """H3 collision test before append; complete collision predicate; sort before merge; merge shape"""
    ctx.rule(rid, 'append / collision / sort / merge protocol', floor=7)
    F = ctx.facts
    # (a) push into UiTokenCollection.tokens only after check_collision returned true
    for name in ('add', 'add_from_regex_match'):
        b = F.one(r'^token::ui_token::UiTokenCollection::%s$' % name)
        ctx.fn(b)
        pushes = [(bid, t) for bid, t in b.calls(r'Vec::<.*>::push$') if 'UiTokenCollection.tokens' in ''.join(x[3] for x in walk(b.expr(t['args'][0])) if x[0] == 'field' and len(x) > 3)]
        if not pushes:
            # delegation: the function hands the span to the other appender (`add`), whose own push is checked above / below
            deleg = [(bid, t) for bid, t in b.calls(r'^token::ui_token::UiTokenCollection::(add|add_from_regex_match)$') if not t['callee']['path'].endswith('::' + name)]
            if deleg:
                ctx.ok(rid, '%s appends through %s (which checks the collision itself)' % (fn_key(b.path), fn_key(deleg[0][1]['callee']['path'])), 'guard-dom', site=deleg[0][1]['loc'])
                continue
            raise AnchorLost('%s no longer pushes into tokens' % fn_key(b.path))
        for bid, t in pushes:
            conds = [(render(d), v) for (_, d, v) in b.conditions(bid)]
            ok = any('check_collision(' in d and ((isinstance(v, tuple) and 0 in v[1]) or (not isinstance(v, tuple) and 0 not in v)) for d, v in conds)
            if ok:
                ctx.ok(rid, '%s: push is guarded by check_collision(..) == true' % fn_key(b.path), 'guard-dom', site=t['loc'])
            else:
                ctx.finding(rid, '%s/push-without-collision-check' % fn_key(b.path), '%s appends a UI token on a path that did not pass check_collision' % fn_key(b.path), site=t['loc'])
    others = []
    for b in F.src_bodies():
        if re.search(r'UiTokenCollection::(add|add_from_regex_match|update_tokens)$', b.path):
            continue
        for bid, t in b.calls(r'Vec::<.*>::(push|insert|extend|append)$'):
            if 'UiTokenCollection.tokens' in ''.join(x[3] for x in walk(b.expr(t['args'][0])) if x[0] == 'field' and len(x) > 3):
                others.append((b, t))
    for b, t in others:
        ctx.finding(rid, '%s/unchecked-writer' % fn_key(b.path), '%s writes UiTokenCollection.tokens outside add / add_from_regex_match / update_tokens' % fn_key(b.path), site=t['loc'])
    # (b) completeness of the two collision predicates over all interval orderings
    for rx, pn in ((r'^token::ui_token::UiTokenCollection::check_collision$', ('start_position', 'end_position')),):
        b = F.one(rx)
        ctx.fn(b)
        table = collision_table(ctx, b, pn)
        missed = [sig for sig, (verdict, overlap) in sorted(table.items()) if overlap and verdict != 'reject']
        spurious = [sig for sig, (verdict, overlap) in sorted(table.items()) if not overlap and verdict == 'reject']
        ctx.analysed(rid, '%s: %d orderings of (item.start, item.end, start, end) evaluated; overlapping=%d, rejected=%d' % (
            fn_key(b.path), len(table), sum(1 for v, o in table.values() if o), sum(1 for v, o in table.values() if v == 'reject')))
        for sig in missed:
            ctx.finding(rid, '%s/overlap-accepted/%s' % (fn_key(b.path), ''.join(map(str, sig))),
                        '%s accepts a span although it shares characters with an existing one: ordering item.start=%d item.end=%d start=%d end=%d (ranks)' % ((fn_key(b.path),) + sig), site=b.loc)
        for sig in spurious:
            ctx.note('%s: %s rejects the disjoint ordering %s (stricter than needed)' % (rid, fn_key(b.path), sig))
        if not missed:
            ctx.ok(rid, '%s rejects all %d overlapping orderings' % (fn_key(b.path), sum(1 for v, o in table.values() if o)), 'finite-orderings', site=b.loc)
    # (c) sort precedes every merge in update_token_variables
    b = F.one(r'^variable::update_token_variables$')
    ctx.fn(b)
    sorts = [bid for bid, t in b.calls(r'UiTokenCollection::sort$')]
    merges = [(bid, t) for bid, t in b.calls(r'UiTokenCollection::update_tokens$')]
    if not sorts or not merges:
        raise AnchorLost('update_token_variables: sort / update_tokens calls not found')
    for bid, t in merges:
        if any(b.dominates(s_, bid) for s_ in sorts):
            ctx.ok(rid, 'update_token_variables: sort() dominates update_tokens()', 'dominance', site=t['loc'], sample=False)
        else:
            ctx.finding(rid, 'update_token_variables/merge-before-sort', 'a merge of UI tokens can run before the tokens were sorted', site=t['loc'])
    # (d) merge shape: one drain of [first..=last], one insert at first with the outer bounds
    b = F.one(r'^token::ui_token::UiTokenCollection::update_tokens$')
    ctx.fn(b)
    drains = list(b.calls(r'Vec::<.*>::drain$'))
    inserts = list(b.calls(r'Vec::<.*>::insert$'))
    if len(drains) != 1 or len(inserts) != 1:
        ctx.finding(rid, 'update_tokens/shape', 'update_tokens has %d drain and %d insert calls, expected one each' % (len(drains), len(inserts)), site=b.loc)
    else:
        ins = inserts[0][1]
        tok = strip(b.expr(ins['args'][2]))
        if tok[0] == 'aggr' and tok[1].endswith('UiToken::UiToken'):
            st, en = render(tok[2][0]), render(tok[2][1])
            if 'get_position(self, position_start)' in st and 'get_position(self, position_end)' in en:
                ctx.ok(rid, 'update_tokens inserts one token (get_position(position_start), get_position(position_end))', 'wiring', site=ins['loc'])
            else:
                ctx.finding(rid, 'update_tokens/bounds', 'the merged token spans (%s, %s), expected the translated outer bounds' % (st[:60], en[:60]), site=ins['loc'])
        else:
            ctx.finding(rid, 'update_tokens/insert-value', 'update_tokens inserts %s' % render(tok)[:80], site=ins['loc'])
        if not b.dominates(drains[0][0], inserts[0][0]):
            ctx.finding(rid, 'update_tokens/order', 'the insert is not preceded by the drain of the merged run', site=ins['loc'])
        else:
            ctx.ok(rid, 'update_tokens: drain dominates insert', 'dominance', site=ins['loc'], sample=False)


# ---------------------------------------------------------------------------------------------
WANT_KIND = {'number': 'Number', 'operator': 'Operator', 'comment': 'Comment'}
WANT_GROUPS = {'number': {'DECIMAL', 'BINARY_FULL', 'HEX_FULL', 'OCTAL_FULL'}, 'operator': {0}, 'comment': {0}}


def ui_calls(ctx, b):
    """[(UiTokenType variant, group names/indices of the match handed over, term, block)]"""
    adt = ctx.facts.adts.get('token::ui_token::UiTokenType')
    if not adt:
        raise AnchorLost('enum UiTokenType not found')
    out = []
    for bid, t in b.calls(r'add_uitoken_from_match$'):
        k = strip(b.expr(t['args'][2]))
        kind = k[1].rsplit('::', 1)[1] if k[0] == 'aggr' else render(k)
        groups = set()
        from ..facts import alternatives
        # the definitions of the handed-over match, one by one (a component of a merged row is projected first, so that the
        # other components of the row - the digits group next to the full-literal group - are not mistaken for it)
        def visit(x, depth=0):
            if depth > 60 or not isinstance(x, tuple):
                return
            if x[0] == 'call' and re.search(r'Captures::<.*>::(name|get)$|Captures::(name|get)$', x[1]) and len(x[2]) > 1:
                for a2, _c2 in alternatives(b, x[2][1], 16):
                    a = strip(a2)
                    if a[0] == 'const':
                        groups.add(a[2])
                visit(x[2][0], depth + 1)          # the group argument itself is not searched for further groups
                return
            for ch in x[1:]:
                if isinstance(ch, tuple):
                    visit(ch, depth + 1)
                elif isinstance(ch, list):
                    for c2 in ch:
                        visit(c2, depth + 1)
        for alt, _c in alternatives(b, b.expr(t['args'][1]), 64):
            visit(alt)
        out.append((kind, groups, t, bid))
    return out


def h4_kinds(ctx, rid='H4'):
    """H4 number / operator / comment literals get their own UI kind on their own characters"""
    ctx.rule(rid, 'UI kind per literal parser', floor=3)
    parsers = dict(model.regex_parsers(ctx))
    for fam, kind in sorted(WANT_KIND.items()):
        if fam not in parsers:
            raise AnchorLost('TOKEN_REGEX_PARSER has no %r entry' % fam)
        b = ctx.facts.body(parsers[fam])
        ctx.fn(b)
        calls = ui_calls(ctx, b)
        mine = [c for c in calls if c[0] == kind]
        if not mine:
            ctx.finding(rid, '%s/kind-missing' % fam, 'the %s parser reports no UiTokenType::%s token' % (fam, kind), site=b.loc)
            continue
        for kd, groups, t, bid in mine:
            conds = [(render(d), v) for (_, d, v) in b.conditions(bid)]
            guarded = any(re.search(r'add_token_(location|from_match)\(', d) and ((isinstance(v, tuple) and 0 in v[1]) or (not isinstance(v, tuple) and 0 not in v)) for d, v in conds)
            bad = [g for g in groups if g not in WANT_GROUPS[fam]]
            if not groups:
                ctx.finding(rid, '%s/match-not-from-capture' % fam, 'the %s parser reports %s on something that is not a group of the capture it tokenised (%s)' % (fam, kind, render(b.expr(t['args'][1]))[:80]), site=t['loc'])
            elif bad:
                ctx.finding(rid, '%s/group/%s' % (fam, '+'.join(map(str, sorted(bad, key=str)))), 'the %s parser reports %s on group(s) %s; the literal is group %s' % (fam, kind, bad, sorted(WANT_GROUPS[fam], key=str)), site=t['loc'])
            elif not guarded:
                ctx.finding(rid, '%s/unguarded' % fam, 'the %s parser reports its UI token even when the internal token was rejected (overlap with an earlier token)' % fam, site=t['loc'])
            else:
                ctx.ok(rid, '%s parser: %s on group %s after the token was accepted' % (fam, kind, sorted(groups, key=str)), 'wiring', site=t['loc'])
        if fam == 'number':
            # the groups named above exist in the configured regexes
            names = set()
            for p, h in ctx.config.parse_family('number'):
                if h is None:
                    raise AnchorLost('number regex %r does not parse' % p)
                from ..data import all_groups
                names |= set(all_groups(h))
            used = set().union(*[g for _, g, _, _ in mine]) if mine else set()
            for g in sorted(used - names, key=str):
                ctx.finding(rid, 'number/group-not-configured/%s' % g, 'the number parser highlights group %r which no configured number regex defines' % g)


RULES = [('H1', h1_units), ('H2', h2_haystack), ('H3', h3_protocol), ('H4', h4_kinds)]


def h5_position_table(ctx, rid='H5'):
    """H5 the byte offset of the k-th character of a line becomes the character position k, and the byte length of the line the
    number of its characters: tabulated (E6c on symbolic strings) by walking UiTokenCollection::new and get_position for every
    line of up to three characters of 1..4 bytes each and every character boundary - whatever data structure and search the
    map uses (a per-byte vector, a vector of character starts searched by bisection, ..)."""
    from ..absint import Machine, Unknown
    from .. import absstr
    ctx.rule(rid, 'byte offset -> character position, tabulated over character widths', floor=80)
    new = ctx.facts.one(r'^token::ui_token::UiTokenCollection::new$')
    gp = ctx.facts.one(r'^token::ui_token::UiTokenCollection::get_position$')
    ctx.fn(new)
    ctx.fn(gp)
    if gp.argc != 2:
        raise AnchorLost('get_position: expected (&self, byte offset), found %d parameters' % gp.argc)

    def width(sym_):
        m_ = re.fullmatch(r'c\d+w(\d)', str(sym_))
        return int(m_.group(1)) if m_ else None

    def model(m, path, args, t):
        a0 = m.deref_value(args[0]) if args else None
        if absstr.is_str(a0) and all(width(x) for x in a0[1]):
            if re.search(r'(string::String|str::<impl str>)::len$', path):
                return sum(width(x) for x in a0[1])
            if re.search(r'str::<impl str>::char_indices$', path):
                out, off = [], 0
                for x in a0[1]:
                    out.append(('tuple', [off, x]))
                    off += width(x)
                return ('it', out, 'char_indices')
            if re.search(r'str::<impl str>::(bytes|as_bytes)$', path):
                raise Unknown('the line is read byte by byte (%s)' % path.rsplit('::', 1)[-1])
        if re.search(r'char::methods::<impl char>::len_utf8$', path) and args:
            w = width(m.deref_value(args[0]))
            if w is None:
                raise Unknown('len_utf8 of %r' % (m.deref_value(args[0]),))
            return w
        return absstr.std_model(m, path, args, t)
    enter = lambda path: path.startswith('token::ui_token::') or path.startswith('<token::ui_token::')
    n = 0
    bad = {}
    visited = {}
    ctx._h5_visited = visited
    ctx._h5_ok = False
    kmax = 4 if (ctx.tier == 'thorough' and ctx.cfg_name == 'dev') else 3
    ctx._h5_kmax = kmax
    for k in range(0, kmax + 1):
        for ws in itertools.product((1, 2, 3, 4), repeat=k):
            line = ('str', ['c%dw%d' % (j + 1, w) for j, w in enumerate(ws)])
            try:
                m = Machine(new, model, max_steps=20000)
                m.enter = enter
                m.env['line'] = line
                m.env[1] = ('ptr', 'line', ())
                if m.run(0) != 'return':
                    raise Unknown('UiTokenCollection::new did not return')
                coll = m.deref_value(m.load(0))
                for pth, blocks in m.shared.get('visited', {}).items():
                    visited.setdefault(pth, set()).update(blocks)
                starts = [sum(ws[:j]) for j in range(k + 1)]       # byte offset of character j; the last one is the byte length
                inside = [(None, off) for off in range(sum(ws)) if off not in starts]
                # offsets inside a character are not offsets of a match; they are walked for unwinding only
                beyond = [('beyond', sum(ws) + 1), ('beyond', sum(ws) + 3)]
                # offsets behind the end of the line (a match on a case-mapped copy that is longer than the line, C17-c): whatever
                # they become, it is a position of the line - at most the number of its characters
                for j, off in list(enumerate(starts)) + inside + beyond:
                    m2 = Machine(gp, model, max_steps=20000)
                    m2.enter = enter
                    m2.env['coll'] = coll
                    m2.env[1] = ('ptr', 'coll', ())
                    m2.env[2] = off
                    if m2.run(0) != 'return':
                        raise Unknown('get_position did not return')
                    for pth, blocks in m2.shared.get('visited', {}).items():
                        visited.setdefault(pth, set()).update(blocks)
                    if j is None:
                        continue
                    got = m2.deref_value(m2.load(0))
                    if j == 'beyond':
                        if not (isinstance(got, int) and 0 <= int(got) <= k):
                            bad.setdefault('beyond-the-line', 'in a line of %d characters taking %s bytes the byte offset %d (behind the end of the line) becomes position %r: past the last character' % (k, list(ws), off, got))
                        continue
                    n += 1
                    if isinstance(got, int) and int(got) == j:
                        ctx.ok(rid, 'widths %s: byte offset %d -> character %d' % (list(ws), off, j), 'table', site=gp.loc, sample=(n in (2, 30, 200)))
                    else:
                        kind = 'end-of-line' if j == k else 'character-start'
                        bad.setdefault(kind, 'in a line whose characters take %s bytes the byte offset %d (%s) becomes position %r, expected %d'
                                       % (list(ws), off, 'the end of the line' if j == k else 'start of character %d' % j, got, j))
            except Unknown as ex:
                ctx.finding(rid, 'char-map/not-extractable', 'the byte offset -> character position map could not be tabulated (characters of %s bytes): %s' % (list(ws), ex), site=gp.loc)
                return False
    for kind, what in sorted(bad.items()):
        ctx.finding(rid, 'char-map/%s' % kind, what, site=gp.loc)
    ctx.analysed(rid, '%d (line, boundary) pairs: lines of 0..%d characters of 1..4 bytes' % (n, kmax))
    ctx._h5_ok = not bad
    return not bad


RULES = [('H5', h5_position_table)] + RULES


def h6_no_narrowing(ctx, rid='H6'):
    """H6 an offset or position (a value with a byte / character unit) is never cast to a narrower integer type: a long line
    would wrap the positions of its highlight tokens"""
    ctx.rule(rid, 'offsets are not narrowed', floor=1)
    U = units_of(ctx)
    WIDTH = {'u8': 8, 'i8': 8, 'u16': 16, 'i16': 16, 'u32': 32, 'i32': 32, 'u64': 64, 'i64': 64, 'usize': 64, 'isize': 64}
    n = 0
    for b in ctx.facts.src_bodies():
        if b.kind not in ('fn', 'method', 'closure'):
            continue
        for i in b.normal_blocks:
            for s in b.blocks[i]['stmts']:
                if s['k'] != 'assign' or s['rv'] != 'cast' or not str(s.get('cast', '')).startswith('IntToInt'):
                    continue
                to, frm = str(s.get('to')), str(s.get('from'))
                if to not in WIDTH or frm not in WIDTH or WIDTH[to] >= WIDTH[frm]:
                    continue
                un = U.unit(b, b.expr(s['ops'][0]))
                if not un:
                    continue
                n += 1
                ctx.fn(b)
                ctx.finding(rid, '%s/narrowing/%s-as-%s' % (fn_key(b.path), frm, to), '%s casts a %s offset (%s) from %s to %s: positions beyond %d wrap around' % (
                    fn_key(b.path), '/'.join(sorted(un)), render(b.expr(s['ops'][0]))[:60], frm, to, 2 ** (WIDTH[to] - (1 if to.startswith('i') else 0)) - 1), site=s['loc'])
    # the element type of the byte -> character map
    for adt, rec in ctx.facts.adts.items():
        if adt.startswith('token::ui_token::'):
            for v in rec['variants']:
                for f in v['fields']:
                    m = re.search(r'Vec<(u8|u16|u32|i8|i16|i32)>', f['ty'])
                    if m and ('elem:%s.%s' % (adt, f['name'])) in U.field_units:
                        ctx.finding(rid, '%s.%s/element-type' % (adt.rsplit('::', 1)[-1], f['name']), 'the position table %s.%s holds %s elements: positions beyond its range wrap around' % (adt.rsplit('::', 1)[-1], f['name'], m.group(1)), site=rec.get('loc'))
                        n += 1
    if not n:
        ctx.ok(rid, 'no value with a byte / character unit is cast to a narrower integer type', 'units', site=None)


RULES.append(('H6', h6_no_narrowing))


def h7_collision_collection(ctx, rid='H7'):
    """H7 a new highlight span is accepted exactly when it shares no position with *any* token already in the collection -
    whatever the order in which those were pushed (the regex passes of one line push out of order: a later family can match left
    of an earlier one). Tabulated (E6c) by walking check_collision over collections of up to two disjoint tokens in both push
    orders and every candidate span on positions 0..6."""
    from ..absint import Machine, Unknown
    from .. import absstr
    ctx.rule(rid, 'collision check against every token of the collection, in any push order', floor=1)
    new = ctx.facts.one(r'^token::ui_token::UiTokenCollection::new$')
    cc = ctx.facts.one(r'^token::ui_token::UiTokenCollection::check_collision$')
    ctx.fn(cc)
    if cc.argc != 3:
        raise AnchorLost('check_collision: expected (&self, start, end), found %d parameters' % cc.argc)
    enter = lambda path: path.startswith('token::ui_token::') or path.startswith('<token::ui_token::')

    def model(m, path, args, t):
        return absstr.std_model(m, path, args, t)
    m0 = Machine(new, model, max_steps=20000)
    m0.enter = enter
    m0.env['line'] = ('str', [])
    m0.env[1] = ('ptr', 'line', ())
    try:
        if m0.run(0) != 'return':
            raise Unknown('UiTokenCollection::new did not return')
    except Unknown as ex:
        ctx.finding(rid, 'check_collision/not-extractable', 'the collision check could not be tabulated: %s' % ex, site=cc.loc)
        return
    base = m0.deref_value(m0.load(0))
    vecs = [k for k, v in base.items() if isinstance(v, tuple) and len(v) == 2 and v[0] == 'vec' and k not in ('__caps__',) and not str(k).isdigit()]
    tokf = [k for k in vecs if 'token' in k] or vecs
    if len(tokf) != 1:
        raise AnchorLost('UiTokenCollection: the token vector is not recognised among %s' % vecs)
    P = 7
    spans = [(a, b_) for a in range(P) for b_ in range(a + 1, P + 1)]
    colls = [[]] + [[x] for x in spans if x[1] - x[0] <= 3]
    for x in spans:
        for y in spans:
            if x[1] - x[0] <= 2 and y[1] - y[0] <= 2 and x[1] <= y[0]:
                colls.append([x, y])
                colls.append([y, x])            # pushed out of order
    n = 0
    bad = []
    for coll in colls:
        for (s_, e_) in spans:
            if e_ - s_ > 3:
                continue
            n += 1
            c = dict(base)
            c[tokf[0]] = ('vec', [{'__adt__': 'token::ui_token::UiToken', '__variant__': 'UiToken', '__open__': True, 'start': a, 'end': b_} for a, b_ in coll])
            mm = Machine(cc, model, max_steps=20000)
            mm.enter = enter
            mm.env['coll'] = c
            mm.env[1] = ('ptr', 'coll', ())
            mm.env[2] = s_
            mm.env[3] = e_
            try:
                if mm.run(0) != 'return':
                    raise Unknown('check_collision did not return')
            except Unknown as ex:
                ctx.finding(rid, 'check_collision/not-extractable', 'the collision check could not be tabulated (collection %s, candidate %s): %s' % (coll, (s_, e_), ex), site=cc.loc)
                return
            got = mm.deref_value(mm.load(0))
            want = int(not any(a < e_ and b_ > s_ for a, b_ in coll))
            if got != want:
                bad.append((coll, (s_, e_), got, want))
    if bad:
        coll, cand, got, want = bad[0]
        ctx.finding(rid, 'check_collision/collection/%s' % ('accepts-overlap' if got else 'rejects-free'),
                    'with the tokens %s in the collection (in this push order) the candidate span %s is %s; it %s a token - %d of %d cells differ' % (
                        coll, cand, 'accepted' if got else 'rejected', 'overlaps' if want == 0 else 'does not touch', len(bad), n), site=cc.loc)
    else:
        ctx.ok(rid, 'check_collision accepts a span exactly when it overlaps no token of the collection, in any push order (%d cells)' % n, 'absint', site=cc.loc)
        ctx.rules[rid].instances += n - 1


RULES.append(('H7', h7_collision_collection))
