"""C11 - Clock times and zones: conversion keeps the instant, arithmetic is modulo 24 h.

Z1 offset protocol (call-chain signatures): reading H:MM anchors the wall time in FixedOffset::east(default*60) and stores
   its UTC instant; re-anchoring a time in a zone (time_with_timezone) reads the instant in the current zone and anchors the
   same wall time in the target zone; convert_timezone keeps the instant and swaps the display zone; print shows the
   instant in east(offset*60).
Z2 every FixedOffset constructor in the crate is east(<minutes> * 60); no west().
Z3 zone table sanity and the GMT+/-h[:mm] formula, tabulated over hour x minute x sign: offset = sign * (h*60 + m).
Z4 as_time: h = (|d| / 3600) % 24, m = (|d| % 3600) / 60, s = |d| % 60 (tabulated on boundary values).
Z5 the host's local zone is not consulted.
Z6 set_timezone stores what parse_timezone returned; time literals carry the configured default zone.
Z7 time literal: and_hms(hour, minute, second) from the groups of those names, pm adds 12 below 12.
Z8 TimeItem::calculate table; 'T1 to T2' is the absolute difference (shared with C09 D3).
Not decided: real-world correctness of the table's offsets; 12:xx am/pm (excluded by the statement).
"""
import re

from ..facts import render, strip, walk, fn_key, AnchorLost, alternatives, cond_str, short
from ..common import result_alternatives, canon_field_reads, value_alternatives
from ..evalint import try_ev, ev, Unknown
from .. import model
from . import C09


def zsig(e, depth=0):
    """call-chain signature of a time expression: calls rendered as name[ZoneType] along all arguments, leaves elided"""
    if depth > 40:
        return '…'
    e = strip(e)
    k = e[0]
    if k == 'call':
        name = short(e[1]).rsplit('::', 1)[-1]
        term = e[3] if isinstance(e[3], dict) else None
        inst = (term.get('callee') or {}).get('inst', '') if term else ''
        z = ''
        m = re.match(r'^<(?:chrono::)?(?:offset::)?(?:\w+::)*(Utc|Local|FixedOffset)\b', inst or '')
        if m and name in ('from_utc_datetime', 'from_local_datetime', 'ymd', 'from_utc_date', 'from_local_date', 'today', 'now'):
            z = '[%s]' % m.group(1)
        if name in ('unwrap', 'expect', 'clone', 'deref'):
            return zsig(e[2][0], depth + 1) if e[2] else name
        if name == 'naive_utc' and e[2]:
            # `Utc.from_utc_datetime(&n).naive_utc()` is n: the round trip through Utc is an identity and may be spelled or not
            a0 = strip(e[2][0])
            if a0[0] == 'call' and short(a0[1]).rsplit('::', 1)[-1] == 'from_utc_datetime' and len(a0[2]) >= 2:
                t0 = a0[3] if isinstance(a0[3], dict) else None
                i0 = (t0.get('callee') or {}).get('inst', '') if t0 else ''
                if re.match(r'^<(?:chrono::)?(?:offset::)?(?:\w+::)*Utc\b', i0 or ''):
                    return zsig(a0[2][-1], depth + 1)
        if re.fullmatch(r'config::SmartCalcConfig::get_\w+|compiler::\w+::\w+Item::get_\w+', e[1]):
            # a configuration accessor (get_time_offset): what it returns
            from ..facts import inline_calls, CURRENT
            e2 = inline_calls(CURRENT, e, depth=1)
            if e2 is not e and not (e2[0] == 'call' and e2[1] == e[1]):
                return zsig(e2, depth + 1)
        args = [zsig(a, depth + 1) for a in e[2]]
        args = [a for a in args if a not in ('', '_')]
        return '%s%s(%s)' % (name, z, ', '.join(args))
    if k == 'binop':
        return '(%s %s %s)' % (zsig(e[2], depth + 1), e[1].replace('WithOverflow', ''), zsig(e[3], depth + 1))
    if k == 'field':
        base = strip(e[1])
        if base[0] == 'aggr' and len(base) > 3 and base[3] and e[2] in base[3] and len(base[3]) == len(base[2]):
            return zsig(base[2][list(base[3]).index(e[2])], depth + 1)     # `TimeOffset { name, offset }.offset`
        if e[1][0] == 'downcast' and e[1][2] in ('Some', 'Ok') and e[2].lstrip('#') == '0' and strip(e[1][1])[0] == 'call' and 'tools::get_' in strip(e[1][1])[1]:
            return zsig(e[1][1], depth + 1)          # the payload of a typed getter: same as get_x(..).unwrap()
        b = zsig(e[1], depth + 1)
        if e[1][0] == 'binop' and e[1][1].endswith('WithOverflow'):
            return b
        return '%s.%s' % (b, e[2].lstrip('#'))
    if k == 'downcast':
        return zsig(e[1], depth + 1)
    if k == 'const':
        return str(e[2]) if not isinstance(e[2], str) else repr(e[2])
    if k == 'arg':
        return str(e[2])
    if k == 'cast':
        return zsig(e[3], depth + 1)
    if k == 'aggr':
        return '%s{%s}' % (e[1].rsplit('::', 1)[-1], ', '.join(zsig(a, depth + 1) for a in e[2]))
    if k == 'phi':
        return 'phi(%s)' % ' | '.join(sorted(set(zsig(a, depth + 1) for a in e[2] if a[0] != 'loop')))
    return '_'


def z1_protocol(ctx):
    """Z1 which constructor / conversion / offset feeds each step"""
    ctx.rule('Z1', 'offset protocol of reading, re-anchoring, converting and printing a time', floor=7)
    F = ctx.facts
    # reading
    b = F.one(r'regex_tokinizer::time::time_regex_parser$')
    ctx.fn(b)
    toks = [s for i in b.normal_blocks for s in b.blocks[i]['stmts'] if s['k'] == 'assign' and s['rv'] == 'aggr' and s['adt'] == 'types::TokenType::Time']
    if len(toks) != 1:
        raise AnchorLost('time_regex_parser: expected one TokenType::Time construction, found %d' % len(toks))
    sg = zsig(b.expr(toks[0]['ops'][0]))
    m = re.fullmatch(r'naive_utc\(and_hms\(ymd\[FixedOffset\]\(east\(\((?:TimeOffset\{config\.timezone, config\.timezone_offset\}\.offset|config\.timezone_offset) Mul 60\)\), .*\), (.*)\)\)', sg)
    if m:
        ctx.ok('Z1', 'time literal: instant = naive_utc of the wall time anchored in east(default offset * 60)', 'chain', site=toks[0]['loc'])
    else:
        ctx.finding('Z1', 'time_regex_parser/chain', 'a time literal stores %s; expected naive_utc(east(default*60).ymd(today).and_hms(h, m, s))' % sg[:260], site=toks[0]['loc'])
    from ..facts import inline_calls
    off = render(inline_calls(ctx.facts, b.expr(toks[0]['ops'][1]), depth=1, skip=r'^(?!config::SmartCalcConfig::get_)'))
    if off == 'types::TimeOffset::TimeOffset{config.timezone, config.timezone_offset}':
        ctx.ok('Z1', 'time literal carries the configured default zone', 'wiring', site=toks[0]['loc'])
    else:
        ctx.finding('Z1', 'time_regex_parser/zone', 'a time literal carries the zone %s' % off[:100], site=toks[0]['loc'])
    # re-anchoring
    b = F.one(r'rules::date_time_rules::time_with_timezone$')
    ctx.fn(b)
    oks = [(inner, conds) for v, inner, conds in result_alternatives(b) if v == 'Ok']
    if len(oks) != 1 or oks[0][0][0] != 'aggr' or oks[0][0][1] != 'types::TokenType::Time':
        raise AnchorLost('time_with_timezone: expected one Ok(Time(..)) result')
    inner = canon_field_reads(oks[0][0])
    sg = zsig(inner[2][0])
    cur = r'east\(\(get_time\(\'time\', fields\)\.1\.offset Mul 60\)\)'
    tgt = r'east\(\(get_timezone\(\'timezone\', fields\)\.1 Mul 60\)\)'
    wall = r'naive_local\(from_utc_datetime\[FixedOffset\]\(%s, get_time\(\'time\', fields\)\.0\)\)' % cur
    via_local = r'naive_local\(from_local_datetime\[Local\]\((?:[^,]*, )?%s\)\)' % wall
    want = r'naive_utc\(from_utc_datetime\[Utc\]\((?:[^,]*, )?naive_utc\(from_local_datetime\[FixedOffset\]\(%s, (?:%s|%s)\)\)\)\)' % (tgt, via_local, wall)
    # `Utc.from_utc_datetime(&x.naive_utc()).naive_utc()` is `x.naive_utc()`: with or without that identity round trip
    want_short = r'naive_utc\(from_local_datetime\[FixedOffset\]\(%s, (?:%s|%s)\)\)' % (tgt, via_local, wall)
    if re.fullmatch(want, sg) or re.fullmatch(want_short, sg):      # (the Utc round trip is elided by zsig: want_short is what matches)
        ctx.ok('Z1', 'time + zone: wall time read in the current zone, anchored in east(target*60), stored as UTC', 'chain', site=b.loc)
    else:
        ctx.finding('Z1', 'time_with_timezone/chain', "'H:MM ZONE' stores %s; expected naive_utc(east(target*60).from_local_datetime(naive_local(east(current*60).from_utc_datetime(time))))" % sg[:300], site=b.loc)
    zr = render(inner[2][1])
    ZSRC = r'(?:Option::unwrap\(tools::get_timezone\("timezone", fields\)\)|tools::get_timezone\("timezone", fields\) as Some\.0)'
    zwant = r'types::TimeOffset::TimeOffset\{str::to_uppercase\(%s\.#?0\), %s\.#?1\}' % (ZSRC, ZSRC)
    if re.fullmatch(zwant, zr):
        ctx.ok('Z1', 'time + zone: display zone = the named zone and its offset', 'wiring', site=b.loc)
    else:
        ctx.finding('Z1', 'time_with_timezone/zone', "'H:MM ZONE' displays in %s" % zr[:160], site=b.loc)
    # conversion keeps the instant
    b = F.one(r'rules::date_time_rules::convert_timezone$')
    ctx.fn(b)
    kinds = {}
    for v, inner, conds in result_alternatives(b):
        if v != 'Ok':
            continue
        if inner[0] != 'aggr':
            ctx.finding('Z1', 'convert_timezone/result', "'.. to ZONE' yields %s" % render(inner)[:60], site=b.loc)
            continue
        inner = canon_field_reads(inner)
        kind = inner[1].rsplit('::', 1)[1]
        val, zone = render(inner[2][0]), render(inner[2][1])
        # a value read through a helper that hands back an enum of the cases: the alternative the projection is evaluated on
        va = [render(canon_field_reads(a_)) for a_, _c in value_alternatives(b, inner[2][0], conds)]
        if len(set(va)) == 1:
            val = va[0]
        za = [render(canon_field_reads(a_)) for a_, _c in value_alternatives(b, inner[2][1], conds)]
        if len(set(za)) == 1:
            zone = za[0]
        getter = {'Time': 'get_time', 'Date': 'get_date', 'DateTime': 'get_date_time'}.get(kind)
        if getter and re.fullmatch(r'tools::%s\("time", fields\) as Some\.0\.#?0' % getter, val):
            kinds[kind] = True
            ctx.ok('Z1', "'%s to ZONE' keeps the stored instant unchanged" % kind, 'use-def', site=b.loc)
        else:
            ctx.finding('Z1', 'convert_timezone/%s/instant' % kind, "'%s to ZONE' stores %s; the instant must stay get_%s(\"time\").0" % (kind, val[:120], kind.lower()), site=b.loc)
        if not re.fullmatch(zwant, zone):
            ctx.finding('Z1', 'convert_timezone/%s/zone' % kind, "'%s to ZONE' displays in %s" % (kind, zone[:160]), site=b.loc)
    if 'Time' not in kinds:
        ctx.finding('Z1', 'convert_timezone/Time/missing', "'TIME to ZONE' is no longer handled", site=b.loc)
    # printing
    b = F.one(r'^<compiler::time::TimeItem as compiler::DataItem>::print$')
    ctx.fn(b)
    sg = zsig(b.ret_expr())
    if re.search(r"format\(from_utc_datetime\[FixedOffset\]\(east\(\(self\.1\.offset Mul 60\)\), self\.0\), '%H:%M:%S'\)", sg) and 'self.1.name' in sg:
        ctx.ok('Z1', 'print: east(offset*60).from_utc_datetime(instant) as %H:%M:%S + zone name', 'chain', site=b.loc)
    else:
        ctx.finding('Z1', 'TimeItem::print/chain', 'TimeItem::print renders %s; expected east(offset*60).from_utc_datetime(self.0).format("%%H:%%M:%%S") and the zone name' % sg[:260], site=b.loc)


def z2_east_sites(ctx):
    """Z2 every offset constructor is east(minutes * 60)"""
    ctx.rule('Z2', 'FixedOffset constructors take minutes * 60, eastwards', floor=9)
    n = 0
    for b in ctx.facts.src_bodies():
        for bid, t in b.calls(r'FixedOffset::(east|west)(_opt)?$|FixedOffset::(east|west)_opt$'):
            n += 1
            ctx.fn(b)
            name = t['callee']['path'].rsplit('::', 1)[1]
            e = canon_field_reads(b.expr(t['args'][0]))
            sg = zsig(e)
            if name.startswith('west'):
                ctx.finding('Z2', '%s/west' % fn_key(b.path), '%s builds its zone with FixedOffset::%s: offsets of the table are minutes east of Greenwich' % (fn_key(b.path), name), site=t['loc'])
                continue
            m = re.fullmatch(r'\((.*) Mul 60\)', sg)
            if not m:
                ctx.finding('Z2', '%s/east-arg' % fn_key(b.path), '%s passes %s to FixedOffset::east, which takes seconds; offsets are kept in minutes (expected <minutes> * 60)' % (fn_key(b.path), sg[:100]), site=t['loc'])
                continue
            mins = m.group(1)
            if re.search(r'(\.offset|timezone_offset|get_timezone\(.*\)\.1|target_offset)$', mins) or mins.endswith('.offset'):
                ctx.ok('Z2', '%s: east(%s * 60)' % (fn_key(b.path), mins[-50:]), 'units', site=t['loc'], sample=n < 3)
            else:
                ctx.finding('Z2', '%s/east-minutes' % fn_key(b.path), '%s multiplies %s by 60: not an offset in minutes' % (fn_key(b.path), mins[:80]), site=t['loc'])


def _tz_leaf(H, Mi, sign, has_min, has_type):
    def leaf(body, e):
        e2 = strip(e, transparent=False)
        if e2[0] == 'call':
            r = render(e2)
            p = e2[1]
            if re.search(r'str.*::parse$', p):
                if '"timezone_hour"' in r:
                    return {'__discr__': 0, '0': H, '#0': H}
                if '"timezone_minute"' in r:
                    return {'__discr__': 0, '0': Mi, '#0': Mi}
            if re.search(r'Captures::<.*>::name$|Captures::name$', p):
                if '"timezone_minute"' in r:
                    return {'__discr__': 1 if has_min else 0}
                if '"timezone_type"' in r:
                    return {'__discr__': 1 if has_type else 0}
                if '"timezone_hour"' in r or '"timezone_2"' in r:
                    return {'__discr__': 1}
                if '"timezone_1"' in r:
                    return {'__discr__': 0}
            if re.search(r'Try>::branch$|::branch$', p) and '"timezone_hour"' in r:
                return {'__discr__': 0}
            if re.search(r'PartialEq.*::eq$|::eq$', p) and '"-"' in r:
                return 1 if sign < 0 else 0
            if re.search(r'PartialEq.*::eq$|::eq$', p) and '"+"' in r:
                return 1 if (sign > 0 and has_type == 'plus') else 0
            if re.search(r'PartialEq.*::ne$|::ne$', p) and '"-"' in r:
                return 0 if sign < 0 else 1
        return None
    return leaf


def z3_table(ctx):
    """Z3 zone table sanity and GMT offset formula"""
    ctx.rule('Z3', 'zone table and GMT+/-h[:mm] formula', floor=150)
    tz = ctx.config.j.get('timezones')
    if not tz:
        raise AnchorLost('config.json timezones missing')
    for name, off in sorted(tz.items()):
        if not isinstance(off, int) or off % 15 != 0 or not (-12 * 60 <= off <= 14 * 60):
            ctx.finding('Z3', 'data/%s/offset' % name, 'zone %s has offset %r minutes: not a multiple of 15 within [-720, 840]' % (name, off), site='config.json timezones')
        else:
            ctx.ok('Z3', 'zone %s: %d min' % (name, off), 'data', sample=False)
    if tz.get('UTC') != 0 or tz.get('GMT') != 0:
        ctx.finding('Z3', 'data/UTC', 'UTC / GMT are not in the table with offset 0', site='config.json timezones')
    # default zone
    lj = ctx.facts.one(r'^config::SmartCalcConfig::load_from_json$')
    ag = [s for i in lj.normal_blocks for s in lj.blocks[i]['stmts'] if s['k'] == 'assign' and s['rv'] == 'aggr' and s.get('adt', '').endswith('config::SmartCalcConfig::SmartCalcConfig')]
    if ag:
        e = dict(zip(ag[0]['fields'], ag[0]['ops']))
        name, off = render(lj.expr(e['timezone'])), render(lj.expr(e['timezone_offset']))
        if name == '"UTC"' and off == '0':
            ctx.ok('Z3', 'default zone UTC, offset 0', 'const', site=ag[0]['loc'])
        elif tz.get(name.strip('"')) != (int(off) if off.lstrip('-').isdigit() else None):
            ctx.finding('Z3', 'default-zone', 'the default zone is %s with offset %s, which is not what the table says' % (name, off), site=ag[0]['loc'])
    # GMT formula
    b = ctx.facts.one(r'^tools::parse_timezone$')
    ctx.fn(b)
    from ..evalint import feasible_values
    ret = b.ret_expr()
    if b.loops():
        raise AnchorLost('parse_timezone contains a loop: its result is no longer a term')

    def gmt_offset(leaf):
        """the offset parse_timezone answers under this leaf assignment (the abbreviation group absent): the second
        component of the one feasible Some((name, offset)); None when it is not unique / not evaluable / absent"""
        offs = []
        for v, a in feasible_values(b, ret, leaf):
            a0 = strip(a)
            if (a0[0] == 'aggr' and a0[1].endswith('Option::None')) or (a0[0] == 'call' and a0[1].endswith('::from_residual')):
                return None                      # a feasible path answers None for a well-formed GMT zone
            if isinstance(v, tuple) and v and v[0] == 'tuple' and len(v[1]) == 2 and isinstance(v[1][1], int):
                if v[1][1] not in offs:
                    offs.append(v[1][1])
            else:
                return None
        return offs[0] if len(offs) == 1 else None
    bad = {}
    cells = 0
    good = 0
    for H in range(0, 20):
        for (Mi, has_min) in ((0, False), (0, True), (15, True), (30, True), (45, True), (59, True)):
            for sign, has_type in ((1, False), (1, 'plus'), (-1, True)):
                cells += 1
                got = gmt_offset(_tz_leaf(H, Mi, sign, has_min, has_type))
                want = sign * (H * 60 + (Mi if has_min else 0))
                if got == want:
                    good += 1
                else:
                    cls = 'not-extractable' if got is None else ('sign' if got == -want else ('minute-sign' if abs(abs(got) - abs(want)) == 2 * Mi and Mi else 'value'))
                    bad.setdefault(cls, []).append((H, Mi if has_min else None, sign, got, want))
    ctx.analysed('Z3', 'parse_timezone GMT branch: %d (hour, minute, sign) cells, %d equal sign*(h*60+m)' % (cells, good))
    if not bad:
        ctx.ok('Z3', 'GMT+/-h[:mm] = sign * (h*60 + m) on all %d cells' % cells, 'table', site=b.loc)
    for cls, rows in sorted(bad.items()):
        H, Mi, sign, got, want = rows[0]
        ctx.finding('Z3', 'parse_timezone/gmt-formula/%s' % cls, 'GMT%s%d%s is read as %s minutes, expected %d (%d of %d cells differ, class %s)' % (
            '+' if sign > 0 else '-', H, (':%02d' % Mi) if Mi is not None else '', got, want, len(rows), cells, cls), site=b.loc)
    # zone regex: hour <= 19 / minute <= 59 keep |offset*60| < 86400
    fam = ctx.config.parse_family('timezone')
    from ..data import all_groups, enumerate_language
    for p, h in fam:
        if h is None:
            raise AnchorLost('timezone regex does not parse')
        g = all_groups(h)
        for grp, hi in (('timezone_hour', 23), ('timezone_minute', 59)):
            if grp in g:
                lang = enumerate_language(g[grp])
                if lang is None or any(not s.isdigit() or int(s) > hi for s in lang):
                    ctx.finding('Z3', 'regex/%s' % grp, 'group %s of the zone regex admits values above %d' % (grp, hi), site='config.json parse.timezone')
                else:
                    ctx.ok('Z3', 'zone regex: %s <= %d' % (grp, max(int(s) for s in lang)), 'regex-maxval', site='config.json parse.timezone')


def z4_as_time(ctx):
    """Z4 as_time is the duration modulo 24 h"""
    ctx.rule('Z4', 'DurationItem::as_time components', floor=1)
    b = ctx.facts.one(r'^compiler::duration::DurationItem::as_time$')
    ctx.fn(b)
    calls = list(b.calls(r'NaiveTime::from_hms(_opt)?$'))
    if len(calls) != 1:
        raise AnchorLost('as_time: expected one NaiveTime::from_hms call, found %d' % len(calls))
    t = calls[0][1]
    args = [b.expr(a) for a in t['args']]
    bad = []
    samples = [0, 1, 59, 60, 61, 3599, 3600, 3601, 7325, 86399, 86400, 86401, 90061, 172800, 200000, 31536000 + 3723]
    for d in samples:
        for sgn in (1, -1):
            def leaf(body, e, d=d, sgn=sgn):
                e2 = strip(e, transparent=False)
                if e2[0] == 'call' and e2[1].endswith('TimeDelta::num_seconds'):
                    return d * sgn
                return None
            got = tuple(try_ev(b, a, leaf) for a in args)
            want = ((d // 3600) % 24, (d % 3600) // 60, d % 60)
            if got != want:
                bad.append((d * sgn, got, want))
    ctx.analysed('Z4', 'as_time tabulated on %d durations (both signs)' % len(samples))
    if not bad:
        ctx.ok('Z4', 'as_time(d) = ((|d|/3600) %% 24, (|d| %% 3600)/60, |d| %% 60) on %d boundary durations' % (2 * len(samples)), 'table', site=t['loc'])
    else:
        d, got, want = bad[0]
        cls = 'not-extractable' if any(g is None for g in got) else ('hour' if got[0] != want[0] else ('minute' if got[1] != want[1] else 'second'))
        ctx.finding('Z4', 'as_time/%s' % cls, 'a duration of %d s becomes the clock value %s, expected %s (%d of %d samples differ)' % (d, got, want, len(bad), 2 * len(samples)), site=t['loc'])


def z5_ambient(ctx):
    """Z5 the host's zone is not an input"""
    ctx.rule('Z5', 'no use of the host time zone', floor=1)
    reach = ctx.eval_reach()
    n = 0
    for p in sorted(reach):
        b = ctx.facts.bodies[p]
        for bid, t in b.calls():
            c = t.get('callee')
            if not c:
                continue
            inst = c.get('inst') or c['path']
            if (re.search(r'chrono::(offset::)?(local::)?Local\b', inst) or re.search(r'\bLocal as ', inst)) and re.search(r'TimeZone>?::|Local::(now|today)$', c['path']):
                n += 1
                ctx.fn(b)
                ctx.finding('Z5', '%s/local-zone/%s' % (fn_key(p), c['path'].rsplit('::', 1)[1]), '%s goes through chrono::Local (%s): the host\'s time zone and its DST rules become an input of the evaluation' % (fn_key(p), c['path'].rsplit('::', 1)[1]), site=t['loc'])
    if not n:
        ctx.ok('Z5', 'no evaluation-reachable call mentions chrono::Local (%d bodies scanned)' % len(reach), 'who-may-call')


def z6_set_timezone(ctx):
    """Z6 set_timezone stores the parsed zone"""
    ctx.rule('Z6', 'set_timezone wiring', floor=2)
    b = ctx.facts.one(r'^smartcalc::SmartCalc::set_timezone$')
    ctx.fn(b)
    got = {}
    for i in b.normal_blocks:
        for s in b.blocks[i]['stmts']:
            if s['k'] == 'assign' and s['lhs']['proj']:
                fields = [pe['field'] for pe in s['lhs']['proj'] if isinstance(pe, dict) and 'field' in pe]
                if fields and fields[-1] in ('config::SmartCalcConfig.timezone', 'config::SmartCalcConfig.timezone_offset'):
                    got[fields[-1].rsplit('.', 1)[1]] = (render(b.def_expr(i, 'stmt', s, 1, frozenset())), s['loc'], i)
        t = b.blocks[i]['term']
        if t['k'] == 'call' and t['dest']['proj']:
            fields = [pe['field'] for pe in t['dest']['proj'] if isinstance(pe, dict) and 'field' in pe]
            if fields and fields[-1] in ('config::SmartCalcConfig.timezone', 'config::SmartCalcConfig.timezone_offset'):
                got[fields[-1].rsplit('.', 1)[1]] = (render(b.def_expr(i, 'call', t, 1, frozenset())), t['loc'], i)
    for fld, want in (('timezone', r'str::to_uppercase\(.*parse_timezone\(.*\).* as Some\.0\.#?0\)'), ('timezone_offset', r'.*parse_timezone\(.*\).* as Some\.0\.#?1')):
        if fld not in got:
            ctx.finding('Z6', 'set_timezone/%s/not-written' % fld, 'set_timezone does not write config.%s' % fld, site=b.loc)
        elif re.fullmatch(want, got[fld][0]) or ('parse_timezone' in got[fld][0] and got[fld][0].rstrip(')').endswith('0' if fld == 'timezone' else '1')):
            ctx.ok('Z6', 'set_timezone: config.%s = the %s parse_timezone returned' % (fld, 'upper-cased name' if fld == 'timezone' else 'offset'), 'wiring', site=got[fld][1])
        else:
            ctx.finding('Z6', 'set_timezone/%s/value' % fld, 'set_timezone stores %s into config.%s' % (got[fld][0][:120], fld), site=got[fld][1])


def z7_literal(ctx):
    """Z7 hour / minute / second of a literal"""
    ctx.rule('Z7', 'time literal components', floor=4)
    b = ctx.facts.one(r'regex_tokinizer::time::time_regex_parser$')
    ctx.fn(b)
    calls = list(b.calls(r'Date::<.*>::and_hms(_opt)?$|::and_hms(_opt)?$'))
    if len(calls) != 1:
        raise AnchorLost('time_regex_parser: expected one and_hms call, found %d' % len(calls))
    t = calls[0][1]
    names = ['hour', 'minute', 'second']
    for nm, a in zip(names, t['args'][1:]):
        e = b.expr(a)
        groups = set(x[2] for x in walk(e) if x[0] == 'const' and isinstance(x[2], str) and x[2] in ('hour', 'minute', 'second', 'meridiem'))
        if groups == {nm}:
            ctx.ok('Z7', 'and_hms %s <- group %r' % (nm, nm), 'wiring', site=t['loc'], sample=False)
        else:
            ctx.finding('Z7', 'time_regex_parser/%s-source' % nm, 'the %s of a time literal is computed from group(s) %s' % (nm, sorted(groups)), site=t['loc'])
    # pm: + 12 under (meridiem == "pm" && hour < 12)
    adds = [(i, s) for i in b.normal_blocks for s in b.blocks[i]['stmts'] if s['k'] == 'assign' and s['rv'] == 'binop' and s['op'].startswith('Add') and (s['ops'][1].get('const') or {}).get('val') == 12]
    if len(adds) != 1:
        ctx.finding('Z7', 'time_regex_parser/pm', 'expected one `hour + 12` for pm times, found %d' % len(adds), site=b.loc)
    else:
        i, s = adds[0]
        conds = ' & '.join(b.cond_text(i))
        for pb in ctx.facts.promoted(b.path):
            m_ = re.search(r'\{promoted#(\d+)\}$', pb.path)
            if m_:
                conds = conds.replace('%s::promoted[%s]' % (b.path, m_.group(1)), render(pb.ret_expr()))
        if '"pm"' in conds and 'to_lowercase' in conds and re.search(r'\$hour Lt 12\)!=\[0\]', conds):
            ctx.ok('Z7', 'pm adds 12 hours below 12, case-insensitively', 'guard-dom', site=s['loc'])
        else:
            ctx.finding('Z7', 'time_regex_parser/pm-guard', 'hour + 12 runs under %s; expected meridiem.to_lowercase() == "pm" && hour < 12' % conds[-200:], site=s['loc'])
    # regex value ranges
    from ..data import all_groups, enumerate_language
    for p, h in ctx.config.parse_family('time'):
        if h is None:
            raise AnchorLost('time regex %r does not parse' % p)
        g = all_groups(h)
        for grp, hi in (('hour', 23), ('minute', 59), ('second', 59)):
            if grp in g:
                lang = enumerate_language(g[grp])
                if lang is None or any(not s_.isdigit() or int(s_) > hi for s_ in lang):
                    ctx.finding('Z7', 'regex/%s/%s' % (grp, p[:20]), 'group %s of time regex %r admits values above %d' % (grp, p, hi), site='config.json parse.time')
                else:
                    ctx.ok('Z7', 'time regex: %s <= %d' % (grp, hi), 'regex-maxval', sample=False)


def z8_arith(ctx):
    """Z8 clock arithmetic, tabulated on the result term of TimeItem::calculate: for the operator (Add / Sub) and the kind of
    the other operand (a time, a non-negative duration, a negative duration) the new clock is self.0 + shift for Add with a
    non-negative operand and self.0 - shift otherwise, shift = seconds(num_seconds_from_midnight(<other as a clock>)) -
    however the cases are grouped in the source"""
    from ..evalint import feasible_values, ev
    ctx.rule('Z8', 'TimeItem::calculate table', floor=3)
    b = ctx.facts.one(r'^<compiler::time::TimeItem as compiler::DataItem>::calculate$')
    ctx.fn(b)
    if b.loops() or b.argc != 5:
        raise AnchorLost('TimeItem::calculate is no longer a loop-free DataItem::calculate')
    adt = ctx.facts.adts['compiler::OperationType']
    discr = {v['name']: v['discr'] for v in adt['variants']}
    ret = b.ret_expr()

    def mk_leaf(op, kind, neg):
        def leaf(body, e):
            e2 = strip(e, transparent=False)
            k = e2[0]
            if k == 'arg' and e2[1] == 5:
                return {'__discr__': discr[op]}
            if k == 'arg' and e2[1] == 3:
                return 1                                    # the receiver is the left operand
            if k == 'aggr' and e2[1].endswith('time::TimeItem::TimeItem'):
                return ev(body, e2[2][0], leaf)
            if k == 'call':
                p = e2[1]
                if re.search(r'Rc::<.*>::new$|Rc::new$', p):
                    return ev(body, e2[2][0], leaf)
                if re.search(r'(PartialEq.*|impls)::(eq|ne)$', p) and 'type_name(' in render(e2):
                    lits = [model.const_str(a) for a in e2[2]]
                    lits = [x for x in lits if x is not None]
                    if not lits:
                        return None
                    same = (lits[0] == kind)
                    return int(same if p.endswith('::eq') else not same)
                if p.endswith('::is_negative'):
                    return int(neg)
                m = re.search(r'Naive(?:Date)?Time as .*(Add|Sub)<.*(Duration|TimeDelta)>>::(add|sub)$', p)
                if m:
                    return {'fn': m.group(3), 'l': render(e2[2][0]), 'r': zsig(e2[2][1])}
            return None
        return leaf
    cells = {('Add', 'TIME', False): 'add', ('Sub', 'TIME', False): 'sub', ('Add', 'DURATION', False): 'add', ('Sub', 'DURATION', False): 'sub',
             ('Add', 'DURATION', True): 'sub', ('Sub', 'DURATION', True): 'sub'}
    per_op = {}
    for (op, kind, neg), want in sorted(cells.items()):
        vals = feasible_values(b, ret, mk_leaf(op, kind, neg))
        got = []
        unknown = False
        for v, a in vals:
            a0 = strip(a)
            if isinstance(v, dict) and 'fn' in v:
                if v not in got:
                    got.append(v)
            elif (a0[0] == 'aggr' and a0[1].endswith('Option::None')) or (a0[0] == 'call' and a0[1].endswith('::from_residual')):
                # the `?` on downcast_ref of the matching kind cannot fail; an explicit None for this cell is a finding
                if a0[0] == 'aggr':
                    got.append({'fn': None})
            else:
                unknown = True
        per_op.setdefault((op, neg), []).append((kind, want, got, unknown))
    for (op, neg), rows in sorted(per_op.items()):
        label = op if not neg else 'negative'
        if neg and op == 'Sub':
            continue                                  # reported with the Add row of the negative duration
        if neg:
            rows = rows + per_op.get(('Sub', True), [])
        problems = []
        for kind, want, got, unknown in rows:
            if unknown or len(got) != 1:
                problems.append(('missing' if not got else 'not-extractable', '%s with a %s%s: the result term is %s' % (op, 'negative ' if neg else '', kind.lower(), 'not evaluable' if unknown or got else 'absent')))
            elif got[0]['fn'] is None:
                problems.append(('missing', 'TimeItem::calculate builds no time for %s with a %s' % (op, kind.lower())))
            elif got[0]['fn'] != want:
                problems.append(('operator', '%s%s applies `%s`' % (op, ' of a negative duration' if neg else '', got[0]['fn'])))
            elif got[0]['l'] != 'self.0' or not re.fullmatch(r'seconds\(num_seconds_from_midnight\(.*\)\)', got[0]['r']):
                problems.append(('operands', '%s computes %s(%s, %s); expected self.0 %s seconds(num_seconds_from_midnight(right))' % (op, got[0]['fn'], got[0]['l'][:40], got[0]['r'][:80], '+' if want == 'add' else '-')))
        if not problems:
            ctx.ok('Z8', '%s: self.0 %s seconds(num_seconds_from_midnight(right))' % (label, '-' if neg or op == 'Sub' else '+'), 'table', site=b.loc)
        for cls, msg in problems[:1]:
            ctx.finding('Z8', 'TimeItem::calculate/%s/%s' % (label, cls), msg, site=b.loc)


def z9_difference(ctx):
    """Z9 'T1 to T2' is the absolute difference of the two stored instants (shared with C09 D3)"""
    C09.d3_difference(ctx, rid='Z9')


RULES = [('Z1', z1_protocol), ('Z2', z2_east_sites), ('Z3', z3_table), ('Z4', z4_as_time), ('Z5', z5_ambient), ('Z6', z6_set_timezone), ('Z7', z7_literal), ('Z8', z8_arith), ('Z9', z9_difference)]


def z10_unique_fields(ctx):
    """Z10 a pattern that names two fields alike loses one of the matched tokens (shared rule)"""
    from ..common import unique_field_names
    unique_field_names(ctx, 'Z10', ('time_with_timezone', 'convert_timezone'), floor=2)


RULES.append(('Z10', z10_unique_fields))


def z11_lexical(ctx):
    """Z11 a time followed by any configured zone is a time and a zone (E7b lexical competition model: month stage, regex families in TOKEN_REGEX_PARSER order with first-claim-wins,
    alias stage; samples generated from the configuration)"""
    from ..lexrules import run_samples, number_samples, based_samples, money_samples, unit_samples, month_samples, zone_samples, duration_samples, percent_samples, keyword_samples
    ctx.rule('Z11', 'a time followed by any configured zone is a time and a zone', floor=150)
    run_samples(ctx, 'Z11', zone_samples(ctx))


RULES.append(('Z11', z11_lexical))


def z12_stateless(ctx):
    """Z12 literal readers carry no state from one capture of the line to the next (shared rule, scv/common.py)"""
    from ..common import reader_stateless
    reader_stateless(ctx, 'Z12', ('Time',))


RULES.append(('Z12', z12_stateless))
